// C03: OBV = running sum of +volume, -volume or 0 by the sign of the close change (positive prices, volume >= 0).
use ta::indicators::OnBalanceVolume;
use ta::{DataItem, Next};

fn bar(c: f64, v: f64) -> DataItem {
    DataItem::builder().open(c).high(c).low(c).close(c).volume(v).build().unwrap()
}

fn main() {
    // a quiet instrument quoted with 6 decimals: ticks of 1e-6 around 100 (relative move 1e-8)
    let closes = [100.0, 100.000001, 100.000002, 100.000001, 100.000003, 100.000004];
    let vol = 1000.0;
    let mut obv = OnBalanceVolume::new();
    let mut want = 0.0;
    let mut prev = 0.0;
    let mut bad = 0;
    for &c in &closes {
        if c > prev { want += vol } else if c < prev { want -= vol }
        prev = c;
        let got = obv.next(&bar(c, vol));
        if got != want {
            println!("VIOLATION C03: close {:.6}: OBV = {} but the documented running sum is {}", c, got, want);
            bad += 1;
        }
    }
    if bad > 0 {
        std::process::exit(1);
    }
    println!("ok");
}
