#!/usr/bin/env python3
"""Regenerates /verif/MANIFEST.json from the table below (single source)."""
import json
import os

VERIF = os.path.dirname(os.path.dirname(os.path.dirname(os.path.abspath(__file__))))

CLAIMED = {}
NA = {}


def claim(pid, category, text, note, technique, ref):
    CLAIMED[pid] = dict(category=category, text=text, note=note, technique=technique, ref=ref)


exec(open(os.path.join(os.path.dirname(os.path.abspath(__file__)), "manifest_table.py")).read())

checks = []
for pid in sorted(CLAIMED):
    c = CLAIMED[pid]
    checks.append({
        "property_id": pid,
        "quick_cmd": "./check %s --tier quick" % pid,
        "thorough_cmd": "./check %s --tier thorough" % pid,
        "evidence_file": "/verif/evidence/%s.json" % pid,
        "replay_cmd_template": "cat {path}",
        "engine": "ta-facts+rules",
        "level_claimed": {"category": c["category"], "text": c["text"], "design_ref": c["ref"]},
        "level_note": c["note"],
        "technique": c["technique"],
    })

m = {
    "version": 1,
    "setup_cmd": "./setup.sh",
    "hooks": {
        "guard": "greyblake_ta_rs_verif",
        "enable": "none needed: nothing in /repo is executed or instrumented; checks read /repo's source through a rustc driver (cargo +nightly check with RUSTC_WORKSPACE_WRAPPER)",
        "baseline_off_cmd": "cd /repo && cargo test --workspace --no-fail-fast --offline",
        "source_commits": [],
        "add_only": True,
    },
    "engines": [
        {"name": "ta-facts", "path": "engine/driver", "serves_properties": sorted(CLAIMED),
         "kind_free_text": "rustc_private driver exporting AST facts, ADTs, impls and optimized MIR (resolved callees) of /repo as JSON, per configuration (default, serde, release)"},
        {"name": "rules", "path": "engine/py", "serves_properties": sorted(CLAIMED),
         "kind_free_text": "static rules over the fact base: type grammar, call graph, field classes, gated symbolic terms, interval/sign dataflow, typestate, degree inference"},
        {"name": "witness", "path": "witness", "serves_properties": [p for p in ("C19", "C10") if p in CLAIMED],
         "kind_free_text": "type-level obligation crate decided by rustc's trait solver"},
    ],
    "checks": checks,
    "not_applicable": [{"property_id": k, "reason": v} for k, v in sorted(NA.items())],
    "notes": "Technique family: static analysis. Every verdict is computed from /repo's current source via rustc's front end; no indicator code is executed. See DESIGN.md.",
}
with open(os.path.join(VERIF, "MANIFEST.json"), "w") as fh:
    json.dump(m, fh, indent=1)
    fh.write("\n")
print("MANIFEST.json: %d checks, %d not_applicable" % (len(checks), len(NA)))
