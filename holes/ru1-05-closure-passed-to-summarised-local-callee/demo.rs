// C03 / C17: RateOfChange(n) = 100 * (x_t - x_{t-n}) / x_{t-n}, using the first price until n earlier prices exist.
use ta::indicators::RateOfChange;
use ta::Next;

fn main() {
    let n = 100usize;
    let mut roc = RateOfChange::new(n).unwrap();
    let xs: Vec<f64> = (0..260).map(|i| 50.0 + (i as f64) * 0.25 + ((i * 7) % 11) as f64).collect();
    let mut worst = 0.0f64;
    for (t, &x) in xs.iter().enumerate() {
        let got = roc.next(x);
        let base = if t >= n { xs[t - n] } else { xs[0] };
        let want = (x - base) / base * 100.0;
        let err = if got.is_finite() { (got - want).abs() } else { f64::INFINITY };
        if err > worst {
            worst = err;
        }
    }
    if worst > 1e-9 {
        eprintln!("C03 violated: RateOfChange(100) deviates from its documented formula by {}", worst);
        std::process::exit(1);
    }
}
