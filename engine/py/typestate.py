"""Cursor / counter typestate of windowed indicators, inferred from the gated
post-terms of every method that writes a usize state field (DESIGN §3.3).

buffer invariant   len(b) = P >= 1        b = from_elem(_, X), P-field = X in the same constructor aggregate, X != 0 on the Ok path
cursor   c         c < P                  every write is 0 | c | c+1 under (c+1 < P) | (..) % P | another cursor | an index function of b
counter  n         n <= P  (P+1 for the `n > P` form)   every write is 0 | n | n+1 under (n < P) resp. not(P < n)
"""
import fieldclass
import symex
from terms import cu, is_const, leaves, lit, mk_gamma, show, subterms


class StructTS:
    def __init__(self, name):
        self.name = name
        self.buffers = {}      # field -> length term over ctor args
        self.len_fields = {}   # PARAM field -> ctor arg it copies
        self.cursors = {}      # field -> buffer length field
        self.counters = {}     # field -> (length field, bound 'P' | 'P+1')
        self.unclassified = {}  # usize STATE field -> reason
        self.methods = {}      # label -> evaluation result
        self.index_fns = {}    # fn label -> buffer field for which the result is a valid index
        self.lockstep = None   # (cursor, counter) if the lockstep invariant c <= n holds
        self.errors = []


def usize_lit(c, facts):
    a, p = lit(c)
    return facts.get(a) == p if a in facts else None


def has_fact(conds_or_facts, atom_term, want=True):
    a, p = lit(atom_term)
    if isinstance(conds_or_facts, dict):
        return conds_or_facts.get(a) == (p == want)
    for (x, pol) in conds_or_facts:
        if x == a and pol == (p == want):
            return True
    return False


def analyse(F, s, classes, stores=None):
    ts = StructTS(s)
    c = fieldclass.ctor(F, s)
    if c is None or c["ok"] is None:
        ts.errors.append("no analysable constructor")
        return ts
    init = c["fields"]
    for f, t in init.items():
        if isinstance(t, tuple) and t[0] == "fromelem":
            # the buffer invariant len = period needs the Box never to be replaced after construction
            replaced = [x for x in (stores or {}).get((s, f), []) if x[1] == "whole" and x[3] != "new"]  # (a `&mut Box` handed to a call is C18-G3)
            if replaced:
                ts.errors.append("buffer `%s` is stored to / mutably borrowed as a whole in %s: its length is not fixed by the constructor" % (f, replaced[0][0]))
                continue
            ts.buffers[f] = t[2]
    for f, t in init.items():
        if classes[s].get(f) == "PARAM" and isinstance(t, tuple) and t[0] == "arg" and any(t == ln for ln in ts.buffers.values()):
            ts.len_fields[f] = t
    # only buffers whose length IS the period parameter carry the invariant len = period; a second buffer of another length
    # (`vec![0.0; 16]`) must not be indexed by a cursor of the first
    for f in list(ts.buffers):
        if not any(ts.buffers[f] == a for a in ts.len_fields.values()):
            ts.errors.append("buffer `%s` has length %s, which is not the period parameter" % (f, show(ts.buffers[f])[:40]))
            del ts.buffers[f]
    # evaluate every hand-written method of the struct (modular)
    for fn in F.fns_of(s):
        if fn.derived or fn.is_ctor or (fn.name == "default" and fn.impl_trait in ("std::default::Default", "core::default::Default")) \
                or (fn.name == "fmt" and (fn.impl_trait or "").split("::")[0] in ("std", "core") and fn.trait_short in ("Display", "Debug")):
            continue   # (std's Default / Display / Debug only: a crate trait that merely carries such a name is an ordinary method)
        if fn.path in F.helpers():
            continue  # context-bound helper: its writes are part of its callers' post-terms (inlined)
        try:
            r = symex.evaluate(F, fn)
            ts.methods[fn.label] = (fn, r)
        except symex.Unsupported as e:
            ts.errors.append("%s: %s" % (fn.label, e))
    # buffer invariant first: `buffer.len()` is the period (the buffer is created with that length and never reassigned), so the
    # two spellings are unified before cursors and counters are classified
    if len(ts.len_fields) >= 1 and ts.buffers:
        pp_ = ("pre", "self." + list(ts.len_fields)[0])
        bufs_ = {("pre", "self." + b) for b in ts.buffers}
        memo_ = {}

        def lenfix(x):
            if not isinstance(x, tuple) or not x:
                return x
            if x in memo_:
                return memo_[x]
            if x[0] == "len" and len(x) == 2:
                a = x[1]
                while isinstance(a, tuple) and a and a[0] in ("store", "fill"):
                    a = a[1]
                if a in bufs_:
                    memo_[x] = pp_
                    return pp_
            y = tuple(lenfix(z) for z in x)
            memo_[x] = y
            return y
        for lab, (fn, r) in ts.methods.items():
            r["ret"] = lenfix(r["ret"])
            for k in list(r["heap"]):
                r["heap"][k] = lenfix(r["heap"][k])
            for site in r["exec"].sites:
                site["facts"] = {lenfix(a): v for a, v in site["facts"].items()}
                if site["what"] == "diverge-edge":
                    site["operands"] = {"cond": lenfix(site["operands"]["cond"])}
    # index functions: result is 0 or an enumeration index over one of the struct's buffers
    for lab, (fn, r) in ts.methods.items():
        ret = r["ret"]
        ex = r["exec"]
        if isinstance(ret, tuple) and ret[0] == "pick" and ret[1] == cu(0) and ret[2]:
            okb = None
            for e in ret[2]:
                b = ex.ivar_bounds.get(e)
                if b and b["array"] and b["array"][0] == "self" and len(b["array"]) == 2 and b["start"] == cu(0):
                    arr = ("pre", "self." + b["array"][1])
                    if b["end"] == ("len", arr) and (okb in (None, b["array"][1])):
                        okb = b["array"][1]
                        continue
                if b and b["array"] is None and b["start"] == cu(0) and isinstance(b["end"], tuple) and b["end"][0] == "len" \
                        and isinstance(b["end"][1], tuple) and b["end"][1][0] == "pre" and b["end"][1][1].count(".") == 1:
                    nm_ = b["end"][1][1].split(".", 1)[1]  # an index counted from 0 up to the buffer's length
                    if okb in (None, nm_):
                        okb = nm_
                        continue
                okb = False
                break
            if okb:
                ts.index_fns[lab] = okb
    usize_state = [f["name"] for f in F.struct_fields(s) if f["ty"]["s"] == "usize" and classes[s].get(f["name"]) == "STATE"]
    posts = {x: [] for x in usize_state}
    for lab, (fn, r) in ts.methods.items():
        for x in usize_state:
            t = r["heap"].get("self." + x)
            if t is not None:
                posts[x].append((lab, t))
        if fn.is_ctor:
            continue
    P = list(ts.len_fields)
    for x in usize_state:
        if init.get(x) != cu(0):
            ts.unclassified[x] = "constructor initialises it to %s, not 0" % show(init.get(x))
            continue
        as_cursor = _try_cursor(ts, x, posts[x], P, usize_state)
        as_counter = _try_counter(ts, x, posts[x], P)
        if as_cursor[0]:
            ts.cursors[x] = as_cursor[1]
        elif as_counter[0]:
            ts.counters[x] = as_counter[1]
        else:
            ts.unclassified[x] = "not a cursor (%s); not a counter (%s)" % (as_cursor[1], as_counter[1])
    # a cursor assigned from another field is only valid if that field is a cursor too
    demoted = True
    while demoted:  # to a fixpoint: a copy of a copy of a counter is no cursor either, whatever the order of the fields
        demoted = False
        for x, pf in list(ts.cursors.items()):
            for lab, t in posts[x]:
                for conds, leaf in leaves(t):
                    if leaf[0] == "pre" and leaf[1].startswith("self.") and leaf[1] != "self." + x:
                        other = leaf[1].split(".", 1)[1]
                        if other not in ts.cursors:
                            ts.unclassified[x] = "copied from `%s`, which is not a cursor" % other
                            del ts.cursors[x]
                            demoted = True
                            break
                if x not in ts.cursors:
                    break
    # from here on every stored result uses one spelling of the bookkeeping (also in the facts and operands of the sites)
    def _cs(x):
        return canon_state_ts(ts, x)

    def _cfacts(fs):
        out_ = {}
        for a_, v_ in fs.items():
            g_ = _cs(("gamma", a_, ("c", "bool", 1), ("c", "bool", 0))) if isinstance(a_, tuple) else None
            if isinstance(g_, tuple) and g_[0] == "gamma" and g_[1] != a_ and {g_[2], g_[3]} == {("c", "bool", 1), ("c", "bool", 0)}:
                out_[g_[1]] = v_ if g_[2] == ("c", "bool", 1) else (not v_)
            else:
                out_[_cs(a_) if isinstance(a_, tuple) else a_] = v_
        return out_
    if ts.cursors or ts.counters:
        for lab, (fn, r) in ts.methods.items():
            r["ret"] = _cs(r["ret"])
            for k in list(r["heap"]):
                r["heap"][k] = _cs(r["heap"][k])
            for b_ in r["exec"].ivar_bounds.values():
                b_["start"], b_["end"] = _cs(b_["start"]), _cs(b_["end"])
            for site in r["exec"].sites:
                site["facts"] = _cfacts(site["facts"])
                site["operands"] = {k_: (_cs(v_) if isinstance(v_, tuple) and k_ not in ("array", "len") else v_) for k_, v_ in site["operands"].items()}
    # lockstep: one cursor and one counter, each advanced exactly once and unconditionally by every next()
    if len(ts.cursors) >= 1 and len(ts.counters) >= 1:
        for cfield in ts.cursors:
            for nfield, (pf, bound) in ts.counters.items():
                if bound != "P":
                    continue
                good = True
                for lab, (fn, r) in ts.methods.items():
                    tc = r["heap"].get("self." + cfield)
                    tn = r["heap"].get("self." + nfield)
                    if tc is None and tn is None:
                        continue  # pure delegation / does not touch the ring bookkeeping
                    if fn.trait_short != "Next":
                        # any other method (reset, an inherent helper) restarts the ring (both back to 0) or leaves it alone: a cursor reset
                        # alone keeps cursor <= counter but breaks "slot c is the oldest", which C01/C13/C09 read off the same lockstep
                        if not ((tc == cu(0) and tn == cu(0)) or (tc is None and tn is None)):
                            good = False
                        continue
                    if not (_is_wrap(tc, cfield, pf) and _is_satinc(tn, nfield, pf)):
                        good = False
                if good:
                    ts.lockstep = (cfield, nfield)
    return ts


def _is_wrap(t, c, pf):
    pc, pp = ("pre", "self." + c), ("pre", "self." + pf)
    inc = ("+", pc, cu(1))
    if t == ("%", inc, pp):
        return True  # (c + 1) % period: the other wrap idiom
    if isinstance(t, tuple) and t[0] == "%" and t[1] == inc and isinstance(t[2], tuple) and t[2][0] == "len" and isinstance(t[2][1], tuple) and t[2][1][0] == "pre":
        return True  # (c + 1) % deque.len(): len = period by the buffer invariant
    if not (isinstance(t, tuple) and t[0] == "gamma"):
        return False
    a, pol = lit(("<", inc, pp))
    if t[1] == a:
        return (t[2], t[3]) == ((inc, cu(0)) if pol else (cu(0), inc))
    a, pol = lit(("<=", pp, inc))  # the inverted test `c + 1 >= period`
    if t[1] == a:
        return (t[2], t[3]) == ((cu(0), inc) if pol else (inc, cu(0)))
    a, pol = lit(("==", inc, pp))  # `c + 1 == period` / `c + 1 != period`
    if t[1] == a:
        return (t[2], t[3]) == ((cu(0), inc) if pol else (inc, cu(0)))
    return False


def _is_satinc(t, n, pf):
    pn, pp = ("pre", "self." + n), ("pre", "self." + pf)
    inc = ("+", pn, cu(1))
    if isinstance(t, tuple) and t[0] == "min" and set(t[1:]) == {inc, pp}:
        return True  # (n + 1).min(period)
    if not (isinstance(t, tuple) and t[0] == "gamma"):
        return False
    a, pol = lit(("==", pn, pp))  # `n != period` / `n == period` under the invariant n <= period
    if t[1] == a:
        return (t[2], t[3]) == ((pn, inc) if pol else (inc, pn))
    for cond, when_true in ((("<", pn, pp), True), (("<=", pp, pn), False)):
        a, pol = lit(cond)
        if t[1] == a:
            want_inc_on_true = (pol == when_true)
            return (t[2], t[3]) == ((inc, pn) if want_inc_on_true else (pn, inc))
    return False


def _ivar_over_buffer(ts, lab, e):
    if not (isinstance(e, tuple) and e[0] == "ivar"):
        return False
    b = ts.methods[lab][1]["exec"].ivar_bounds.get(e)
    if not b or b["start"] != cu(0):
        return False
    if b["array"] and b["array"][0] == "self" and len(b["array"]) == 2 and b["array"][1] in ts.buffers:
        return True
    end = b["end"]
    if b["array"] is not None or not isinstance(end, tuple):
        return False
    if end[0] == "pre" and end[1].count(".") == 1 and end[1].split(".")[-1] in ts.len_fields:
        return True
    # `0..buffer.len()` — the length of the RING, not of some other slice (a 16-element table of literals)
    if end[0] == "len" and len(end) == 2:
        a_ = end[1]
        while isinstance(a_, tuple) and a_ and a_[0] in ("store", "fill"):
            a_ = a_[1]
        return isinstance(a_, tuple) and a_[0] == "pre" and a_[1].startswith("self.") and a_[1].split(".", 1)[1] in ts.buffers
    return False


def _try_cursor(ts, x, posts, P, usize_state):
    px = ("pre", "self." + x)
    inc = ("+", px, cu(1))
    pf_used = None
    if not posts:
        return False, "never written"
    for lab, t in posts:
        for conds, leaf in leaves(t):
            if leaf == cu(0) or leaf == px:
                continue
            if isinstance(leaf, tuple) and len(leaf) == 3 and leaf[0] == "c" and leaf[1] == "int" and isinstance(leaf[2], int) and leaf[2] >= 1 \
                    and has_fact(conds, ("==", px, cu(leaf[2] - 1))):
                leaf = inc  # `0 => self.count = 1`: under n == k-1 the stored k IS n + 1
            if leaf == inc:
                ok = False
                for pf in P:
                    pp_ = ("pre", "self." + pf)
                    if has_fact(conds, ("<", inc, pp_)) or has_fact(conds, ("<=", pp_, inc), want=False) or has_fact(conds, ("==", inc, pp_), want=False):
                        # (the last: c + 1 != period, which under c < period is c + 1 < period)
                        ok = True
                        pf_used = pf
                if ok:
                    continue
                return False, "%s: `%s + 1` stored without the guard `%s + 1 < period`" % (lab, x, x)
            if leaf[0] == "%" and leaf[2][0] == "pre" and (leaf[2][1].count(".") == 1 and leaf[2][1].split(".")[-1] in P):
                pf_used = leaf[2][1].split(".")[-1]
                continue
            if leaf[0] == "%" and leaf[2][0] == "len" and isinstance(leaf[2][1], tuple) and leaf[2][1][0] == "pre" and (leaf[2][1][1].count(".") == 1 and leaf[2][1][1].split(".")[-1] in ts.buffers) and P:
                pf_used = P[0]  # modulus = the buffer's own length (= period by the buffer invariant)
                continue
            if leaf[0] == "pre" and leaf[1].startswith("self.") and leaf[1].split(".", 1)[1] in usize_state:
                continue  # checked afterwards: must itself be a cursor
            if leaf[0] == "ucall" and leaf[1] in ts.index_fns:
                continue
            if leaf[0] == "pick" and leaf[1] == cu(0) and leaf[2] and all(_ivar_over_buffer(ts, lab, e) for e in leaf[2]):
                continue  # an inlined scan: 0 or a position of the struct's own buffer
            return False, "%s stores %s" % (lab, show(leaf)[:60])
    return True, pf_used or (P[0] if P else None)


def _try_counter(ts, x, posts, P):
    px = ("pre", "self." + x)
    inc = ("+", px, cu(1))
    bound = None
    pf_used = None
    if not posts:
        return False, "never written"
    for lab, t in posts:
        for conds, leaf in leaves(t):
            if leaf == cu(0) or leaf == px:
                continue
            if isinstance(leaf, tuple) and len(leaf) == 3 and leaf[0] == "c" and leaf[1] == "int" and isinstance(leaf[2], int) and leaf[2] >= 1 \
                    and has_fact(conds, ("==", px, cu(leaf[2] - 1))):
                leaf = inc  # `0 => self.count = 1`: under n == k-1 the stored k IS n + 1
            if leaf == inc:
                ok = False
                for pf in P:
                    pp = ("pre", "self." + pf)
                    if has_fact(conds, ("<", px, pp)):
                        ok, b = True, "P"
                    elif has_fact(conds, ("==", px, pp), want=False):
                        ok, b = True, "P"  # n != period: with n <= period (inductive hypothesis) this is n < period
                    elif has_fact(conds, ("<=", pp, px), want=False):
                        ok, b = True, "P"
                    elif has_fact(conds, ("<", pp, px), want=False) or has_fact(conds, ("<=", px, pp)):
                        ok, b = True, "P+1"
                    else:
                        continue
                    pf_used = pf
                    bound = b if bound in (None, b) else "P+1"
                    break
                if ok:
                    continue
                return False, "%s: `%s + 1` stored without a guard against the period" % (lab, x)
            if leaf[0] == "min" and any(set(leaf[1:]) == {inc, ("pre", "self." + pf)} for pf in P):
                pf_used = [pf for pf in P if ("pre", "self." + pf) in leaf[1:]][0]
                bound = "P" if bound in (None, "P") else "P+1"
                continue  # (n + 1).min(period)
            return False, "%s stores %s" % (lab, show(leaf)[:60])
    if bound is None:
        return False, "never incremented"
    return True, (pf_used, bound)


_cache = {}


def all_structs(F):
    k = id(F)
    if k not in _cache:
        classes, stores = fieldclass.classify_fields(F)
        _cache[k] = {s: analyse(F, s, classes, stores) for s in F.indicators()}, classes
    return _cache[k]


def canon_state(F, struct, t):
    """Rewrite the equivalent spellings of a ring's bookkeeping into one form, using the typestate invariants of `struct`
    (len(buffer) = period >= 1, cursor < period, counter <= period):
        buffer.len()                         -> period
        (c + 1) % period                     -> if c + 1 < period { c + 1 } else { 0 }
        (n + 1).min(period)                  -> if n < period { n + 1 } else { n }
        n == period  (as a branch condition) -> !(n < period)
    Each is an identity under those invariants, which the classification establishes by induction over all methods."""
    ts = all_structs(F)[0].get(struct)
    return canon_state_ts(ts, t)


def canon_state_ts(ts, t):
    if ts is None or not isinstance(t, tuple):
        return t
    P = list(ts.len_fields)
    if not P:
        return t
    pp = ("pre", "self." + P[0])
    bufs = {("pre", "self." + b) for b in ts.buffers}
    curs = {("pre", "self." + c) for c in ts.cursors}
    cnts = {("pre", "self." + n) for n, (pf, bd) in ts.counters.items() if bd == "P"}
    memo = {}

    def go(x):
        if not isinstance(x, tuple) or not x:
            return x
        if x in memo:
            return memo[x]
        y = tuple(go(z) for z in x)
        if y[0] == "len" and len(y) == 2 and y[1] in bufs:
            y = pp
        elif y[0] == "%" and len(y) == 3 and isinstance(y[1], tuple) and y[1][0] == "+" and y[1][2] == cu(1) and y[1][1] in curs and y[2] == pp:
            y = mk_gamma(("<", y[1], pp), y[1], cu(0))
        elif y[0] == "min" and len(y) == 3 and pp in y[1:]:
            o = y[1] if y[2] == pp else y[2]
            if isinstance(o, tuple) and o[0] == "+" and o[2] == cu(1) and o[1] in cnts:
                y = mk_gamma(("<", o[1], pp), o, o[1])
        elif y[0] == "gamma":
            a, pol = lit(y[1])
            if a[0] == "==" and pp in a[1:] and any(v in cnts for v in a[1:]):
                n = a[1] if a[2] == pp else a[2]
                # atom true (n == period): arm taken is y[2] if pol else y[3]
                eq_arm, ne_arm = (y[2], y[3]) if pol else (y[3], y[2])
                y = mk_gamma(("<", n, pp), ne_arm, eq_arm)
            elif a[0] == "==" and pp in a[1:] and any(isinstance(v, tuple) and v[0] == "+" and v[2] == cu(1) and v[1] in curs for v in a[1:]):
                inc = a[1] if a[2] == pp else a[2]   # c + 1 == period  <=>  !(c + 1 < period)  under c < period
                eq_arm, ne_arm = (y[2], y[3]) if pol else (y[3], y[2])
                y = mk_gamma(("<", inc, pp), ne_arm, eq_arm)
        memo[x] = y
        return y
    return go(t)


canon_wrap = canon_state
