// C01: SimpleMovingAverage(n) returns the mean of exactly the last min(t, n) finite inputs.
use ta::indicators::SimpleMovingAverage;
use ta::Next;

fn main() {
    let mut sma = SimpleMovingAverage::new(3).unwrap();
    let stream = [1.0, 2.0, 3.0, 2.0e9, 5.0, 7.0, 1.0, 2.0, 3.0, 4.0];
    let mut bad = 0;
    for (t, &x) in stream.iter().enumerate() {
        let got = sma.next(x);
        let lo = t.saturating_sub(2);
        let w = &stream[lo..=t];
        let want = w.iter().sum::<f64>() / w.len() as f64;
        let tol = (1e-12 + 1e-15 * ((t + 1) as f64).powf(1.5)) * 2.0e9;
        if (got - want).abs() > tol {
            eprintln!("C01 violated at t={}: input={} SMA(3)={} but the mean of the last 3 inputs is {}", t, x, got, want);
            bad += 1;
        }
    }
    if bad > 0 {
        std::process::exit(1);
    }
}
