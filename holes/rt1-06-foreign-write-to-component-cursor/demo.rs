// C12: next() must return normally for every input sequence, including NaN.
use ta::indicators::BollingerBands;
use ta::Next;

fn main() {
    let r = std::panic::catch_unwind(|| {
        let mut bb = BollingerBands::new(3, 2.0).unwrap();
        bb.next(1.0);
        bb.next(f64::NAN);
        bb.next(2.0);
    });
    if r.is_err() {
        eprintln!("C12 violated: BollingerBands::next panicked on a NaN input (index out of bounds)");
        std::process::exit(1);
    }
}
