// C12: next() does not panic in any state reachable through the public API (same standing as rt1-07 / rs1-09).
use std::panic;
use ta::indicators::SimpleMovingAverage;
use ta::Next;

// On the original crate `seek_end` does not exist: the path below then resolves to this no-op, so that the same program
// builds against both trees (an inherent associated function takes precedence over a trait's).
trait MaybeSeekEnd {
    fn seek_end(_sma: &mut Self) {}
}
impl MaybeSeekEnd for SimpleMovingAverage {}

fn main() {
    let r = panic::catch_unwind(|| {
        let mut sma = SimpleMovingAverage::new(3).unwrap();
        sma.next(1.0);
        SimpleMovingAverage::seek_end(&mut sma);
        sma.next(2.0)
    });
    match r {
        Ok(v) => assert_eq!(v, 1.5),
        Err(_) => {
            eprintln!("C12 violated: SimpleMovingAverage(3).next(2.0) panicked (index out of bounds)");
            std::process::exit(1);
        }
    }
}
