"""C02 — EMA recursion and everything wired from it follow the documented definition."""
import ir
from infra import Report
from rules_spec import run_units

UNITS = ["ExponentialMovingAverage", "TrueRange", "AverageTrueRange", "MovingAverageConvergenceDivergence", "KeltnerChannel", "ChandelierExit"]
RULE = {"ctor": "E1", "output": "E2", "post-state": "E2", "feed": "E3", "feed-count": "E3", "feed-extra": "E3"}


RESET_SCOPE = ["ExponentialMovingAverage", "TrueRange", "AverageTrueRange", "MovingAverageConvergenceDivergence", "KeltnerChannel", "ChandelierExit", "Minimum", "Maximum"]


def run(tier, repo=None, tag="repo"):
    rep = Report("C02", tier)
    rep.rule("E1", "constructor wiring: every parameter term, initial state constant and nested constructor equals the documented one", 16)
    rep.rule("E2", "step function: output term(s) and every state field's post-term equal the documented recurrence (real-arithmetic normal form, all gamma outcomes)", 20)
    rep.rule("E3", "every component is stepped exactly once per call, through the documented path, with the documented series", 14)
    rep.rule("E0", "state shape / recognised idioms", 0)
    configs = ["default"] + (["release"] if tier == "thorough" else [])
    for cfg in configs:
        F = ir.load(cfg, repo, tag)
        run_units("C02", UNITS, None, rep, F, lambda k: RULE.get(k, "E0"))
    # "returns its first input unchanged and thereafter ..." restarts at reset(): the recurrence is about the stream since construction OR reset
    rep.rule("E4", "reset() restores the constructor state of EMA, TrueRange, ATR, MACD, KeltnerChannel, ChandelierExit and the Minimum/Maximum inside it (C04's rules), so the recurrences restart there; no other method writes their state", 8)
    import rules_c01
    F0 = ir.load("default", repo, tag)
    rules_c01.reset_premise(F0, rep, "E4", RESET_SCOPE)
    # "ChandelierExit is (Maximum(high) - m*ATR, Minimum(low) + m*ATR)" evaluated from scratch means the window extremes: E2 shows CE steps a
    # Maximum on the highs and a Minimum on the lows; that those return the extreme of the last n values is C01's I6 / I7, re-run here
    rep.rule("E5", "Minimum and Maximum (inside ChandelierExit) return the extreme of the current window (C01's I6 / I7)", 2)
    import symex
    from infra import Sink
    from rules_c09 import _Map
    from rules_c14 import mirror
    m5 = _Map(rep, {"I6": "E5", "I7": "E5"})
    try:
        rules_c01.extreme_unit(F0, m5, "Minimum", "I6")
        rules_c01.extreme_unit(F0, m5, "Maximum", "I7", transform=mirror)
    except (symex.Unsupported, KeyError, IndexError, TypeError, AttributeError) as e:
        Sink.bad(m5, "E5", "unrecognised", "Minimum/Maximum", "UNRECOGNISED idiom while establishing the window-extreme contract: %r" % (e,))
    rep.configs = configs
    rep.explanation = ("each clause of C02 is a one-step recurrence or a pointwise combination of component outputs; the implementation's step function "
                       "(output and post-state as gated terms over input and pre-state, nested indicators as uninterpreted step nodes) is compared with "
                       "the documented step function; equality holds for all histories by induction")
    rep.assumptions = ["equality is established in real arithmetic (rational-function normal form): implementations identified can differ by rounding only, inside the property's tau",
                       "nested components satisfy their own spec (modular); Minimum/Maximum window semantics are not decided here"]
    return rep
