// C01 / C17: SimpleMovingAverage(n) is the mean of exactly the last min(t, n) inputs in every state reachable through the public API
// (standing of rt1-07 `restart()`, rs1-09 `rewind()`, ru1-01 `usize::from(&mut sma)`).
// On the patched crate `SimpleMovingAverage::cursor(&mut self) -> &mut usize` hands the ring cursor to the caller.
// Builds on both trees: `r.cursor()` on `r: &mut SimpleMovingAverage` finds the inherent method (receiver &mut SMA) when it exists,
// otherwise the fallback trait implemented for `&mut SimpleMovingAverage` (one more autoref).
use ta::indicators::SimpleMovingAverage;
use ta::Next;

trait Fallback {
    fn cursor(&mut self) -> &mut usize;
}
impl Fallback for &mut SimpleMovingAverage {
    fn cursor(&mut self) -> &mut usize {
        Box::leak(Box::new(0usize))
    }
}

fn main() {
    let mut sma = SimpleMovingAverage::new(3).unwrap();
    for x in [1.0, 2.0, 3.0, 4.0] {
        sma.next(x);
    }
    {
        let mut r = &mut sma;
        *r.cursor() = 0;
    }
    let got = sma.next(10.0);
    let want = (3.0 + 4.0 + 10.0) / 3.0;
    println!("SMA(3) after 1, 2, 3, 4, 10 = {} (window mean {})", got, want);
    if (got - want).abs() > 1e-9 {
        std::process::exit(1);
    }
}
