// C02: ExponentialMovingAverage(n) returns its first input unchanged and thereafter k*x + (1-k)*previous, k = 2/(n+1).
// C09: EMA stays within [history min, history max].
use ta::indicators::ExponentialMovingAverage;
use ta::Next;

fn main() {
    let n = 3;
    let k = 2.0 / (n as f64 + 1.0);
    let mut ema = ExponentialMovingAverage::new(n).unwrap();
    let xs = [1.0, 1.5, 2.0, 150.0, 140.0, 145.0];
    let mut want = 0.0;
    let mut bad = 0;
    let (mut lo, mut hi) = (f64::INFINITY, f64::NEG_INFINITY);
    for (t, &x) in xs.iter().enumerate() {
        want = if t == 0 { x } else { k * x + (1.0 - k) * want };
        lo = lo.min(x);
        hi = hi.max(x);
        let got = ema.next(x);
        let ok = (got - want).abs() <= 1e-9 * hi && got >= lo - 1e-9 && got <= hi + 1e-9;
        println!("t={} x={:6.1} EMA={:10.4} documented={:10.4} hull=[{}, {}]{}", t, x, got, want, lo, hi, if ok { "" } else { "  WRONG" });
        if !ok {
            bad += 1;
        }
    }
    if bad > 0 {
        println!("VIOLATED: {} outputs wrong", bad);
        std::process::exit(1);
    }
    println!("ok");
}
