// C01 / C13: MeanAbsoluteDeviation(n) equals the mean absolute deviation (about the window mean) of exactly the last
// min(t,n) inputs, within tau(t) = 1e-12 + 1e-15*t^1.5 times the largest magnitude fed so far.
use ta::indicators::MeanAbsoluteDeviation;
use ta::Next;

fn main() {
    let n = 9usize;
    let mut mad = MeanAbsoluteDeviation::new(n).unwrap();
    let mut hist: Vec<f64> = Vec::new();
    let mut maxmag = 0.0f64;
    let mut worst = 0.0f64;
    for t in 1..=20000u32 {
        let x = 100.0 + ((t * 29 % 97) as f64 - 48.0) * 0.25; // prices in [88, 112]
        hist.push(x);
        maxmag = maxmag.max(x.abs());
        let got = mad.next(x);
        let w = &hist[hist.len().saturating_sub(n)..];
        let mean = w.iter().sum::<f64>() / w.len() as f64;
        let want = w.iter().map(|v| (v - mean).abs()).sum::<f64>() / w.len() as f64;
        let tau = 1e-12 + 1e-15 * (t as f64).powf(1.5);
        let ratio = (got - want).abs() / (tau * maxmag);
        if ratio > worst { worst = ratio; }
        if t == 10 || t == 100 || t == 1000 || t == 20000 {
            println!("t={:>5} MAD={:.9} from-scratch={:.9} |diff|={:.3e} allowed={:.3e}", t, got, want, (got - want).abs(), tau * maxmag);
        }
    }
    println!("worst error = {:.1} x the allowed tolerance", worst);
    if worst > 1.0 {
        eprintln!("C01/C13 violated: MAD drifts away from the from-scratch window statistic");
        std::process::exit(1);
    }
}
