// C03: EfficiencyRatio = |x_t - x_{t-n}| / sum |dx| over those n steps, on streams of positive prices.
// C07: EfficiencyRatio in [0, 1].
use ta::indicators::EfficiencyRatio;
use ta::Next;

fn reference(xs: &[f64], n: usize) -> f64 {
    // window = last n+1 prices (or all of them while warming up)
    let t = xs.len();
    let start = if t > n + 1 { t - (n + 1) } else { 0 };
    let w = &xs[start..];
    if w.len() == 1 {
        return 1.0;
    }
    let num = (w[w.len() - 1] - w[0]).abs();
    let den: f64 = w.windows(2).map(|p| (p[1] - p[0]).abs()).sum();
    num / den
}

fn main() {
    let n = 4;
    let mut er = EfficiencyRatio::new(n).unwrap();
    // positive prices only; one 10x spike
    let xs = [10.0, 11.0, 12.0, 120.0, 13.0, 14.0, 15.0, 16.0, 17.0, 18.0];
    let mut bad = 0;
    let mut hist = vec![];
    for (i, &x) in xs.iter().enumerate() {
        hist.push(x);
        let got = er.next(x);
        let want = reference(&hist, n);
        let in_range = got >= -1e-9 && got <= 1.0 + 1e-9;
        let agrees = (got - want).abs() <= 1e-9;
        println!("t={} x={:6.1} ER={:.6} reference={:.6}{}{}", i, x, got, want,
                 if in_range { "" } else { "  OUT OF [0,1]" }, if agrees { "" } else { "  != reference" });
        if !in_range || !agrees {
            bad += 1;
        }
    }
    if bad > 0 {
        println!("VIOLATED: {} outputs wrong", bad);
        std::process::exit(1);
    }
    println!("ok");
}
