// C12: next() returns normally for every valid configuration.  Here the process is killed (stack overflow -> SIGABRT),
// so the violation is observed from a parent process: the demo re-executes itself as a child that feeds one value.
use std::env;
use std::process::{exit, Command};
use ta::indicators::SimpleMovingAverage;
use ta::Next;

fn main() {
    if env::args().nth(1).as_deref() == Some("child") {
        let mut sma = SimpleMovingAverage::new(100).unwrap();
        let v = sma.next(1.0);
        assert_eq!(v, 1.0);
        return;
    }
    let st = Command::new(env::current_exe().unwrap()).arg("child").status().unwrap();
    if !st.success() {
        eprintln!("C12 violated: SimpleMovingAverage(100).next(1.0) did not return normally ({st})");
        exit(1);
    }
}
