// C01 / C17: SimpleMovingAverage(n) is the mean of exactly the last min(t, n) inputs, in every state reachable through the
// public API.  On the patched crate `usize: From<&mut SimpleMovingAverage>` exists and rewinds the ring cursor alone.
use ta::indicators::SimpleMovingAverage;
use ta::Next;

// `usize::from(&mut sma)` exists on the patched crate only.  Autoref specialisation lets the same program build on both
// trees: `Strong` applies when the conversion exists, otherwise the call falls through to the no-op `Weak`.
struct Probe<T>(Option<T>);
trait Strong {
    fn fire(&mut self) -> usize;
}
trait Weak {
    fn fire(&mut self) -> usize;
}
impl<T> Strong for Probe<T>
where
    usize: From<T>,
{
    fn fire(&mut self) -> usize {
        usize::from(self.0.take().unwrap())
    }
}
impl<T> Weak for &mut Probe<T> {
    fn fire(&mut self) -> usize {
        0
    }
}

fn main() {
    let mut sma = SimpleMovingAverage::new(3).unwrap();
    for x in [1.0, 2.0, 3.0, 4.0] {
        sma.next(x);
    }
    {
        let mut p = Probe(Some(&mut sma));
        let _ = (&mut p).fire();
    }
    let got = sma.next(10.0);
    let want = (3.0 + 4.0 + 10.0) / 3.0;
    if (got - want).abs() > 1e-9 {
        eprintln!("C01 violated: SMA(3) after 1, 2, 3, 4, 10 is {} (expected {})", got, want);
        std::process::exit(1);
    }
}
