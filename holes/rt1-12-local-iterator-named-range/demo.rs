// C12: next() is total — it returns (normally) for every input, including NaN.
use std::sync::mpsc;
use std::time::Duration;
use ta::indicators::SimpleMovingAverage;
use ta::Next;

fn main() {
    let (tx, rx) = mpsc::channel();
    std::thread::spawn(move || {
        let mut sma = SimpleMovingAverage::new(3).unwrap();
        sma.next(1.0);
        sma.next(f64::NAN);
        sma.next(2.0);
        let _ = tx.send(());
    });
    if rx.recv_timeout(Duration::from_secs(5)).is_err() {
        eprintln!("C12 violated: SimpleMovingAverage::next did not return within 5 s on a NaN input (non-terminating loop)");
        std::process::exit(1);
    }
}
