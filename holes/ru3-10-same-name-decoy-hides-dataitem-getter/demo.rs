// C16: the built item's close() returns bit-exactly the value passed to the setter.
// C10: DataItem behaves exactly like any other implementor carrying the same numbers.
use ta::indicators::SimpleMovingAverage;
use ta::{Close, DataItem, Next};

struct MyBar(f64);
impl Close for MyBar {
    fn close(&self) -> f64 {
        self.0
    }
}

fn main() {
    let x = 1.234_567_89_f64;
    let item = DataItem::builder().open(x).high(x).low(x).close(x).volume(1.0).build().unwrap();
    let mut bad = 0;
    if item.close().to_bits() != x.to_bits() {
        eprintln!("C16: close({}) was set, close() returns {}", x, item.close());
        bad += 1;
    }
    let mut a = SimpleMovingAverage::new(3).unwrap();
    let mut b = SimpleMovingAverage::new(3).unwrap();
    let (ya, yb) = (a.next(&item), b.next(&MyBar(x)));
    if ya != yb {
        eprintln!("C10: SMA fed the DataItem gives {}, fed another bar type with the same close gives {}", ya, yb);
        bad += 1;
    }
    std::process::exit(if bad > 0 { 1 } else { 0 });
}
