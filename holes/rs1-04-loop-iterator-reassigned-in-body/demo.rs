// C12: next() returns normally (terminates) for every input sequence, including NaN.
use std::sync::mpsc;
use std::time::Duration;
use ta::indicators::MeanAbsoluteDeviation;
use ta::Next;

fn main() {
    let (tx, rx) = mpsc::channel();
    std::thread::spawn(move || {
        let mut mad = MeanAbsoluteDeviation::new(3).unwrap();
        mad.next(1.0);
        let out = mad.next(f64::NAN); // never returns on the patched crate
        let _ = tx.send(out);
    });
    match rx.recv_timeout(Duration::from_secs(3)) {
        Ok(_) => {}
        Err(_) => {
            eprintln!("C12 violated: MeanAbsoluteDeviation::new(3).next(NaN) did not return within 3 s (infinite loop)");
            std::process::exit(1);
        }
    }
}
