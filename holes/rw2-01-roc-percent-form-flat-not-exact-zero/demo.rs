// C08: on a flat window RateOfChange must return 0 exactly (also after earlier activity).
// Exits 0 on the original crate, 1 on the patched one.
use ta::indicators::RateOfChange;
use ta::Next;

fn main() {
    let mut bad = 0;
    for &x in &[164.11_f64, 700.56, 22.58, 702.43, 671.81, 380.47, 92.93] {
        let mut roc = RateOfChange::new(3).unwrap();
        // earlier activity, then a flat stretch longer than the window
        for &y in &[10.0, 12.5, 9.75, 11.0] {
            roc.next(y);
        }
        let mut last = f64::NAN;
        for _ in 0..8 {
            last = roc.next(x);
        }
        if last != 0.0 {
            println!("ROC(3) on a flat window at {} returned {:e}, not 0", x, last);
            bad += 1;
        }
        // at the start of a stream as well
        let mut roc = RateOfChange::new(3).unwrap();
        roc.next(x);
        let second = roc.next(x);
        if second != 0.0 {
            println!("ROC(3) fed {} twice returned {:e}, not 0", x, second);
            bad += 1;
        }
    }
    if bad > 0 {
        std::process::exit(1);
    }
    println!("ok: flat windows give exactly 0");
}
