#!/usr/bin/env python3
"""Self-validation of the checkers on one-instance-broken (mutant) and behaviour-preserving (benign)
variants of /repo. Variants are (file, old, new) replacements from fixtures/variants.py or .patch files in
fixtures/mutants. Each variant is applied to a scratch copy outside /repo and /verif, the named checks are
run on the copy (static analysis only; nothing of the variant is executed), and the copy is deleted.

usage: selfval.py [--only NAME_SUBSTR] [--prop C04] [--kind mutant|benign] [-j N]
"""
import argparse
import json
import os
import shutil
import subprocess
import sys
import tempfile
from concurrent.futures import ThreadPoolExecutor

HERE = os.path.dirname(os.path.abspath(__file__))
VERIF = os.path.dirname(os.path.dirname(HERE))
sys.path.insert(0, HERE)
REPO = "/repo"


def load_variants():
    ns = {}
    exec(open(os.path.join(VERIF, "fixtures", "variants.py")).read(), ns)
    out = []
    for v in ns["MUTANTS"]:
        out.append(dict(v, kind="mutant"))
    for v in ns["BENIGN"]:
        out.append(dict(v, kind="benign"))
    mdir = os.path.join(VERIF, "fixtures", "mutants")
    for fn in sorted(os.listdir(mdir)):
        if fn.endswith(".patch"):
            out.append({"name": fn[:-6], "props": [fn.split("-")[0]], "patch": os.path.join(mdir, fn), "kind": "mutant"})
    return out


def make_copy(slot):
    d = os.path.join(tempfile.gettempdir(), "ta-selfval-%d-%d" % (os.getpid(), slot))
    shutil.rmtree(d, ignore_errors=True)
    os.makedirs(d)
    for item in ("src", "Cargo.toml", "Cargo.lock"):
        s = os.path.join(REPO, item)
        if os.path.isdir(s):
            shutil.copytree(s, os.path.join(d, item))
        elif os.path.exists(s):
            shutil.copy(s, d)
    return d


def apply_variant(v, d):
    if "patch" in v:
        r = subprocess.run(["patch", "-p1", "-s", "--no-backup-if-mismatch", "-i", v["patch"]], cwd=d, stdout=subprocess.PIPE, stderr=subprocess.STDOUT, text=True)
        return r.returncode == 0
    for (f, old, new) in v["edits"]:
        p = os.path.join(d, f)
        if not os.path.exists(p):
            return False
        s = open(p).read()
        if s.count(old) != 1:
            return False
        open(p, "w").write(s.replace(old, new))
    return True


def run_variant(v, slot):
    d = make_copy(slot)
    res = {"name": v["name"], "kind": v["kind"], "props": v["props"], "results": {}}
    try:
        if not apply_variant(v, d):
            res["skipped"] = "does not apply to the current tree"
            return res
        for p in v["props"]:
            env = dict(os.environ, VERIF_SELFVAL="1")
            r = subprocess.run([sys.executable, os.path.join(HERE, "main.py"), p, "--repo", d, "--tag", "sv%d-%d" % (os.getpid(), slot), "--no-evidence"],
                               stdout=subprocess.PIPE, stderr=subprocess.STDOUT, text=True, env=env)
            keys = [ln.strip().split("  rule=")[0] for ln in r.stdout.splitlines() if ln.startswith("  " + p + ":")]
            err = [ln for ln in r.stdout.splitlines() if "CHECK-ERROR" in ln or "Traceback" in ln or "ExtractError" in ln]
            res["results"][p] = {"rc": r.returncode, "keys": keys, "error": (r.stdout[-1500:] if (err or r.returncode not in (0, 1)) else None)}
    finally:
        shutil.rmtree(d, ignore_errors=True)
    return res


def drop_slots():
    """remove the per-process scratch target directories of this run"""
    try:
        import extract
        for e in os.listdir(extract.CACHE):
            m = __import__("re").match(r"(?:target-witness-|target-|extract-|witness-)(sv%d-\d+)" % os.getpid(), e)
            if m:
                extract.drop_scratch(m.group(1))
                shutil.rmtree(os.path.join(extract.CACHE, "witness-" + m.group(1)), ignore_errors=True)
    except Exception:
        pass


def main():
    ap = argparse.ArgumentParser()
    ap.add_argument("--only")
    ap.add_argument("--prop")
    ap.add_argument("--kind")
    ap.add_argument("-j", type=int, default=8)
    ap.add_argument("--json")
    a = ap.parse_args()
    vs = load_variants()
    if a.only:
        vs = [v for v in vs if a.only in v["name"]]
    if a.prop:
        vs = [dict(v, props=[a.prop]) for v in vs if a.prop in v["props"]]
    if a.kind:
        vs = [v for v in vs if v["kind"] == a.kind]
    results = []
    # sequential per slot to keep slots exclusive
    import threading
    lock = threading.Lock()
    queue = list(enumerate(vs))
    out = [None] * len(vs)

    def worker(slot):
        while True:
            with lock:
                if not queue:
                    return
                i, v = queue.pop(0)
            out[i] = run_variant(v, slot)

    ths = [threading.Thread(target=worker, args=(s,)) for s in range(a.j)]
    for t in ths:
        t.start()
    for t in ths:
        t.join()
    drop_slots()
    bad = 0
    for r in out:
        if r.get("skipped"):
            print("SKIP    %-55s %s" % (r["name"], r["skipped"]))
            continue
        for p, x in r["results"].items():
            detected = x["rc"] == 1 and x["keys"]
            if x["error"]:
                status = "ERROR"
                bad += 1
            elif r["kind"] == "mutant":
                status = "caught" if detected else "MISSED"
                bad += 0 if detected else 1
            else:
                status = "silent" if x["rc"] == 0 else "FALSE-ALARM"
                bad += 0 if x["rc"] == 0 else 1
            print("%-11s %-6s %-4s %-50s %s" % (status, r["kind"], p, r["name"], "; ".join(x["keys"][:3])))
            if x["error"]:
                print(x["error"])
    if a.json:
        json.dump(out, open(a.json, "w"), indent=1)
    return 1 if bad else 0


if __name__ == "__main__":
    sys.exit(main())
