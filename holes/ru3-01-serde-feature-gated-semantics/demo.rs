// C01: SMA must equal the mean of the last n inputs.  Build with the crate's `serde` feature enabled
// (ta = { path = "..", features = ["serde"] }); nothing in this program serializes anything.
use ta::indicators::SimpleMovingAverage;
use ta::Next;

fn main() {
    let mut sma = SimpleMovingAverage::new(2).unwrap();
    let xs = [0.000_000_4_f64, 0.000_000_4, 1.0e-9, 3.0e-9];
    let mut bad = 0;
    for (i, x) in xs.iter().enumerate() {
        let got = sma.next(*x);
        let lo = if i == 0 { 0 } else { i - 1 };
        let want = xs[lo..=i].iter().sum::<f64>() / (i - lo + 1) as f64;
        if (got - want).abs() > 1e-12 * want.abs() {
            eprintln!("step {}: SMA(2) = {:e}, mean of the window = {:e}", i, got, want);
            bad += 1;
        }
    }
    // a price level of 1e303 (finite) : x * 1e6 overflows
    let mut sma = SimpleMovingAverage::new(3).unwrap();
    let got = sma.next(1.0e303);
    if got != 1.0e303 {
        eprintln!("SMA(3).next(1e303) = {}", got);
        bad += 1;
    }
    std::process::exit(if bad > 0 { 1 } else { 0 });
}
