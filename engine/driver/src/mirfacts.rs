//! Facts from the type-checked crate: ADTs, impls (with bounds), fn
//! signatures and the optimized MIR of every body, serialised structurally.

use crate::astfacts::span_j;
use crate::json::J;
use rustc_hir::def::DefKind;
use rustc_hir::def_id::{DefId, LocalDefId};
use rustc_middle::mir::{
    self, AggregateKind, AssertKind, BinOp, Body, CastKind, Const, Operand, Place, PlaceTy,
    ProjectionElem, Rvalue, StatementKind, TerminatorKind,
};
use rustc_middle::ty::{self, GenericArgsRef, Instance, Ty, TyCtxt, TypingEnv};

fn ty_j<'tcx>(tcx: TyCtxt<'tcx>, t: Ty<'tcx>) -> J {
    let s = t.to_string();
    let mut v: Vec<(&str, J)> = vec![("s", J::Str(s))];
    match t.kind() {
        ty::Bool | ty::Char | ty::Int(_) | ty::Uint(_) | ty::Float(_) | ty::Str | ty::Never => {
            v.push(("k", J::s("prim")));
        }
        ty::Adt(def, args) => {
            v.push(("k", J::s("adt")));
            v.push(("path", J::Str(tcx.def_path_str(def.did()))));
            v.push(("krate", J::Str(tcx.crate_name(def.did().krate).to_string())));
            v.push(("args", J::Arr(args.types().map(|a| ty_j(tcx, a)).collect())));
        }
        ty::Slice(e) => {
            v.push(("k", J::s("slice")));
            v.push(("elem", ty_j(tcx, *e)));
        }
        ty::Array(e, n) => {
            v.push(("k", J::s("array")));
            v.push(("elem", ty_j(tcx, *e)));
            v.push(("len", J::Str(format!("{}", n))));
        }
        ty::Ref(_, to, m) => {
            v.push(("k", J::s("ref")));
            v.push(("mut", J::Bool(m.is_mut())));
            v.push(("to", ty_j(tcx, *to)));
        }
        ty::RawPtr(to, m) => {
            v.push(("k", J::s("ptr")));
            v.push(("mut", J::Bool(m.is_mut())));
            v.push(("to", ty_j(tcx, *to)));
        }
        ty::Tuple(ts) => {
            v.push(("k", J::s("tuple")));
            v.push(("elems", J::Arr(ts.iter().map(|a| ty_j(tcx, a)).collect())));
        }
        ty::Param(p) => {
            v.push(("k", J::s("param")));
            v.push(("name", J::Str(p.name.to_string())));
        }
        ty::FnDef(did, args) => {
            v.push(("k", J::s("fndef")));
            v.push(("path", J::Str(tcx.def_path_str(*did))));
            v.push(("args", J::Arr(args.types().map(|a| ty_j(tcx, a)).collect())));
        }
        ty::FnPtr(..) => v.push(("k", J::s("fnptr"))),
        ty::Dynamic(..) => v.push(("k", J::s("dyn"))),
        ty::Closure(did, _) => {
            v.push(("k", J::s("closure")));
            v.push(("path", J::Str(tcx.def_path_str(*did))));
        }
        ty::Alias(..) => v.push(("k", J::s("alias"))),
        ty::Foreign(_) => v.push(("k", J::s("foreign"))),
        _ => v.push(("k", J::s("other"))),
    }
    J::obj(v)
}

struct FnCx<'a, 'tcx> {
    tcx: TyCtxt<'tcx>,
    body: &'a Body<'tcx>,
    did: DefId,
    env: TypingEnv<'tcx>,
}

impl<'a, 'tcx> FnCx<'a, 'tcx> {
    fn place(&self, p: &Place<'tcx>) -> J {
        let tcx = self.tcx;
        let mut pty = PlaceTy::from_ty(self.body.local_decls[p.local].ty);
        let mut proj = vec![];
        for elem in p.projection.iter() {
            let e = match elem {
                ProjectionElem::Deref => J::obj(vec![("k", J::s("deref"))]),
                ProjectionElem::Field(f, fty) => {
                    let mut name = f.index().to_string();
                    let mut owner = J::Null;
                    if let ty::Adt(def, _) = pty.ty.kind() {
                        let variant = match pty.variant_index {
                            Some(vi) => def.variant(vi),
                            None if !def.is_enum() => def.non_enum_variant(),
                            None => def.variant(rustc_abi::FIRST_VARIANT),
                        };
                        if let Some(fd) = variant.fields.get(f) {
                            name = fd.name.to_string();
                        }
                        owner = J::Str(tcx.def_path_str(def.did()));
                    }
                    J::obj(vec![
                        ("k", J::s("field")),
                        ("i", J::Int(f.index() as i128)),
                        ("name", J::Str(name)),
                        ("owner", owner),
                        ("ty", J::Str(fty.to_string())),
                    ])
                }
                ProjectionElem::Index(l) => {
                    J::obj(vec![("k", J::s("index")), ("local", J::Int(l.index() as i128))])
                }
                ProjectionElem::ConstantIndex { offset, min_length, from_end } => J::obj(vec![
                    ("k", J::s("cindex")),
                    ("offset", J::Int(offset as i128)),
                    ("min_length", J::Int(min_length as i128)),
                    ("from_end", J::Bool(from_end)),
                ]),
                ProjectionElem::Subslice { from, to, from_end } => J::obj(vec![
                    ("k", J::s("subslice")),
                    ("from", J::Int(from as i128)),
                    ("to", J::Int(to as i128)),
                    ("from_end", J::Bool(from_end)),
                ]),
                ProjectionElem::Downcast(name, vi) => {
                    let mut vname = name.map(|s| s.to_string());
                    if vname.is_none() {
                        if let ty::Adt(def, _) = pty.ty.kind() {
                            vname = Some(def.variant(vi).name.to_string());
                        }
                    }
                    J::obj(vec![
                        ("k", J::s("downcast")),
                        ("variant", J::Int(vi.index() as i128)),
                        ("name", J::opt_s(vname)),
                    ])
                }
                ProjectionElem::OpaqueCast(t) => {
                    J::obj(vec![("k", J::s("opaque_cast")), ("ty", J::Str(t.to_string()))])
                }
                ProjectionElem::UnwrapUnsafeBinder(t) => {
                    J::obj(vec![("k", J::s("unwrap_binder")), ("ty", J::Str(t.to_string()))])
                }
            };
            proj.push(e);
            pty = pty.projection_ty(tcx, elem);
        }
        J::obj(vec![
            ("local", J::Int(p.local.index() as i128)),
            ("proj", J::Arr(proj)),
            ("ty", J::Str(pty.ty.to_string())),
        ])
    }

    fn fn_ref(&self, did: DefId, args: GenericArgsRef<'tcx>) -> J {
        let tcx = self.tcx;
        let mut v: Vec<(&str, J)> = vec![
            ("path", J::Str(tcx.def_path_str(did))),
            ("path_args", J::Str(tcx.def_path_str_with_args(did, args))),
            ("krate", J::Str(tcx.crate_name(did.krate).to_string())),
            ("local", J::Bool(did.is_local())),
            ("name", J::Str(tcx.item_name(did).to_string())),
            ("targs", J::Arr(args.types().map(|a| ty_j(tcx, a)).collect())),
        ];
        if let Some(tr) = tcx.trait_of_assoc(did) {
            v.push(("trait", J::Str(tcx.def_path_str(tr))));
            v.push(("trait_krate", J::Str(tcx.crate_name(tr.krate).to_string())));
            if let Some(st) = args.types().next() {
                v.push(("self_ty", ty_j(tcx, st)));
            }
        }
        if let Some(imp) = tcx.impl_of_assoc(did) {
            v.push(("impl_self", ty_j(tcx, tcx.type_of(imp).instantiate_identity().skip_norm_wip())));
        }
        // resolve to the concrete implementation where possible
        let resolved = std::panic::catch_unwind(std::panic::AssertUnwindSafe(|| {
            Instance::try_resolve(tcx, self.env, did, args)
        }));
        if let Ok(Ok(Some(inst))) = resolved {
            let rdid = inst.def_id();
            v.push(("resolved", J::Str(tcx.def_path_str(rdid))));
            v.push(("resolved_args", J::Str(tcx.def_path_str_with_args(rdid, inst.args))));
            v.push(("resolved_local", J::Bool(rdid.is_local())));
            v.push(("resolved_kind", J::Str(format!("{:?}", inst.def).chars().take(40).collect::<String>())));
            v.push(("resolved_krate", J::Str(tcx.crate_name(rdid.krate).to_string())));
            if let Some(imp) = tcx.impl_of_assoc(rdid) {
                v.push((
                    "resolved_impl_self",
                    ty_j(tcx, tcx.type_of(imp).instantiate_identity().skip_norm_wip()),
                ));
                if let Some(l) = imp.as_local() {
                    v.push(("resolved_impl_id", J::Str(format!("{:?}", l.local_def_index.as_u32()))));
                }
            }
        }
        J::obj(v)
    }

    fn constant(&self, c: &Const<'tcx>) -> J {
        let tcx = self.tcx;
        let t = c.ty();
        let mut v: Vec<(&str, J)> = vec![("ty", J::Str(t.to_string()))];
        match t.kind() {
            ty::FnDef(did, args) => {
                v.push(("fn", self.fn_ref(*did, args)));
            }
            _ => {
                let ev = std::panic::catch_unwind(std::panic::AssertUnwindSafe(|| {
                    c.try_eval_scalar_int(tcx, self.env)
                }));
                if let Ok(Some(si)) = ev {
                    let bits = si.to_bits_unchecked();
                    v.push(("bits", J::Str(bits.to_string())));
                    v.push(("size", J::Int(si.size().bytes() as i128)));
                    match t.kind() {
                        ty::Float(ty::FloatTy::F64) => {
                            let f = f64::from_bits(bits as u64);
                            v.push(("f64", J::Str(format!("{:?}", f))));
                        }
                        ty::Float(ty::FloatTy::F32) => {
                            let f = f32::from_bits(bits as u32);
                            v.push(("f32", J::Str(format!("{:?}", f))));
                        }
                        ty::Int(_) => {
                            let sz = si.size().bits();
                            let sv = if sz == 0 { 0 } else { ((bits << (128 - sz)) as i128) >> (128 - sz) };
                            v.push(("int", J::Str(sv.to_string())));
                        }
                        ty::Uint(_) | ty::Bool | ty::Char => {
                            v.push(("int", J::Str(bits.to_string())));
                        }
                        _ => {}
                    }
                } else {
                    v.push(("text", J::Str(format!("{}", c))));
                }
                // is this a reference to a static / allocation?
                if let Const::Val(mir::ConstValue::Scalar(mir::interpret::Scalar::Ptr(p, _)), _) = c {
                    let alloc = tcx.global_alloc(p.provenance.alloc_id());
                    v.push(("ptr_to", J::Str(format!("{:?}", alloc).chars().take(120).collect::<String>())));
                }
                if let Const::Unevaluated(u, _) = c {
                    v.push(("unevaluated", J::Str(tcx.def_path_str(u.def))));
                }
            }
        }
        J::obj(v)
    }

    fn operand(&self, o: &Operand<'tcx>) -> J {
        match o {
            Operand::Copy(p) => J::obj(vec![("k", J::s("copy")), ("place", self.place(p))]),
            Operand::Move(p) => J::obj(vec![("k", J::s("move")), ("place", self.place(p))]),
            Operand::Constant(c) => J::obj(vec![("k", J::s("const")), ("c", self.constant(&c.const_))]),
            other => J::obj(vec![("k", J::s("runtime_checks")), ("text", J::Str(format!("{:?}", other)))]),
        }
    }

    fn rvalue(&self, rv: &Rvalue<'tcx>) -> J {
        let tcx = self.tcx;
        match rv {
            Rvalue::Use(o, _) => J::obj(vec![("k", J::s("use")), ("op", self.operand(o))]),
            Rvalue::Repeat(o, n) => J::obj(vec![
                ("k", J::s("repeat")),
                ("op", self.operand(o)),
                ("len", J::Str(format!("{}", n))),
            ]),
            Rvalue::Ref(_, bk, p) => J::obj(vec![
                ("k", J::s("ref")),
                ("mut", J::Bool(matches!(bk, mir::BorrowKind::Mut { .. }))),
                ("bk", J::Str(format!("{:?}", bk))),
                ("place", self.place(p)),
            ]),
            Rvalue::ThreadLocalRef(did) => {
                J::obj(vec![("k", J::s("thread_local_ref")), ("path", J::Str(tcx.def_path_str(*did)))])
            }
            Rvalue::RawPtr(kind, p) => J::obj(vec![
                ("k", J::s("rawptr")),
                ("kind", J::Str(format!("{:?}", kind))),
                ("place", self.place(p)),
            ]),
            Rvalue::Cast(kind, o, t) => {
                let ks = match kind {
                    CastKind::PointerExposeProvenance => "PointerExposeProvenance".to_string(),
                    CastKind::PointerWithExposedProvenance => "PointerWithExposedProvenance".to_string(),
                    CastKind::PointerCoercion(pc, _) => format!("PointerCoercion({:?})", pc),
                    other => format!("{:?}", other),
                };
                J::obj(vec![
                    ("k", J::s("cast")),
                    ("kind", J::Str(ks)),
                    ("op", self.operand(o)),
                    ("from_ty", J::Str(o.ty(&self.body.local_decls, tcx).to_string())),
                    ("ty", ty_j(tcx, *t)),
                ])
            }
            Rvalue::BinaryOp(op, ab) => {
                let (a, b) = &**ab;
                J::obj(vec![
                    ("k", J::s("binop")),
                    ("op", J::Str(format!("{:?}", op))),
                    ("a", self.operand(a)),
                    ("b", self.operand(b)),
                    ("operand_ty", J::Str(a.ty(&self.body.local_decls, tcx).to_string())),
                ])
            }
            Rvalue::UnaryOp(op, a) => J::obj(vec![
                ("k", J::s("unop")),
                ("op", J::Str(format!("{:?}", op))),
                ("a", self.operand(a)),
                ("operand_ty", J::Str(a.ty(&self.body.local_decls, tcx).to_string())),
            ]),
            Rvalue::Discriminant(p) => J::obj(vec![("k", J::s("discriminant")), ("place", self.place(p))]),
            Rvalue::Aggregate(kind, ops) => {
                let mut v: Vec<(&str, J)> = vec![("k", J::s("aggregate"))];
                match &**kind {
                    AggregateKind::Array(t) => {
                        v.push(("agg", J::s("array")));
                        v.push(("elem_ty", J::Str(t.to_string())));
                    }
                    AggregateKind::Tuple => v.push(("agg", J::s("tuple"))),
                    AggregateKind::Adt(did, vi, _args, _, active) => {
                        let def = tcx.adt_def(*did);
                        let variant = def.variant(*vi);
                        v.push(("agg", J::s("adt")));
                        v.push(("path", J::Str(tcx.def_path_str(*did))));
                        v.push(("variant", J::Int(vi.index() as i128)));
                        v.push(("variant_name", J::Str(variant.name.to_string())));
                        v.push((
                            "field_names",
                            J::Arr(variant.fields.iter().map(|f| J::Str(f.name.to_string())).collect()),
                        ));
                        v.push(("is_enum", J::Bool(def.is_enum())));
                        if let Some(a) = active {
                            v.push(("union_field", J::Int(a.index() as i128)));
                        }
                    }
                    AggregateKind::Closure(did, _) => {
                        v.push(("agg", J::s("closure")));
                        v.push(("path", J::Str(tcx.def_path_str(*did))));
                    }
                    AggregateKind::RawPtr(t, _) => {
                        v.push(("agg", J::s("rawptr")));
                        v.push(("elem_ty", J::Str(t.to_string())));
                    }
                    other => {
                        v.push(("agg", J::s("other")));
                        v.push(("text", J::Str(format!("{:?}", other))));
                    }
                }
                v.push(("ops", J::Arr(ops.iter().map(|o| self.operand(o)).collect())));
                J::obj(v)
            }
            Rvalue::CopyForDeref(p) => J::obj(vec![("k", J::s("copy_for_deref")), ("place", self.place(p))]),
            other => J::obj(vec![("k", J::s("other")), ("text", J::Str(format!("{:?}", other)))]),
        }
    }

    fn assert_kind(&self, m: &AssertKind<Operand<'tcx>>) -> J {
        match m {
            AssertKind::BoundsCheck { len, index } => J::obj(vec![
                ("kind", J::s("BoundsCheck")),
                ("len", self.operand(len)),
                ("index", self.operand(index)),
            ]),
            AssertKind::Overflow(op, a, b) => J::obj(vec![
                ("kind", J::s("Overflow")),
                ("op", J::Str(format!("{:?}", op))),
                ("a", self.operand(a)),
                ("b", self.operand(b)),
            ]),
            AssertKind::OverflowNeg(a) => J::obj(vec![("kind", J::s("OverflowNeg")), ("a", self.operand(a))]),
            AssertKind::DivisionByZero(a) => {
                J::obj(vec![("kind", J::s("DivisionByZero")), ("a", self.operand(a))])
            }
            AssertKind::RemainderByZero(a) => {
                J::obj(vec![("kind", J::s("RemainderByZero")), ("a", self.operand(a))])
            }
            other => J::obj(vec![
                ("kind", J::Str(format!("{:?}", other).split(|c: char| !c.is_alphanumeric()).next().unwrap_or("").to_string())),
                ("text", J::Str(format!("{:?}", other))),
            ]),
        }
    }

    fn body_j(&self) -> J {
        let tcx = self.tcx;
        let body = self.body;
        let locals = J::Arr(
            body.local_decls
                .iter()
                .map(|d| {
                    J::obj(vec![
                        ("ty", ty_j(tcx, d.ty)),
                        ("mut", J::Bool(d.mutability.is_mut())),
                    ])
                })
                .collect(),
        );
        let dbg = J::Arr(
            body.var_debug_info
                .iter()
                .map(|d| {
                    let (pl, cst) = match &d.value {
                        mir::VarDebugInfoContents::Place(p) => (self.place(p), J::Null),
                        mir::VarDebugInfoContents::Const(c) => (J::Null, self.constant(&c.const_)),
                    };
                    J::obj(vec![
                        ("name", J::Str(d.name.to_string())),
                        ("place", pl),
                        ("const", cst),
                        ("arg", match d.argument_index { Some(i) => J::Int(i as i128), None => J::Null }),
                    ])
                })
                .collect(),
        );
        let mut blocks = vec![];
        for (bb, data) in body.basic_blocks.iter_enumerated() {
            let mut stmts = vec![];
            for st in &data.statements {
                let sp = span_j(tcx, st.source_info.span);
                match &st.kind {
                    StatementKind::Assign(b) => {
                        let (p, rv) = &**b;
                        stmts.push(J::obj(vec![
                            ("k", J::s("assign")),
                            ("place", self.place(p)),
                            ("rv", self.rvalue(rv)),
                            ("span", sp),
                        ]));
                    }
                    StatementKind::SetDiscriminant { place, variant_index } => {
                        stmts.push(J::obj(vec![
                            ("k", J::s("set_discriminant")),
                            ("place", self.place(place)),
                            ("variant", J::Int(variant_index.index() as i128)),
                            ("span", sp),
                        ]));
                    }
                    StatementKind::StorageLive(_)
                    | StatementKind::StorageDead(_)
                    | StatementKind::Nop
                    | StatementKind::ConstEvalCounter
                    | StatementKind::Coverage(..)
                    | StatementKind::FakeRead(..)
                    | StatementKind::PlaceMention(..)
                    | StatementKind::AscribeUserType(..)
                    | StatementKind::BackwardIncompatibleDropHint { .. } => {}
                    StatementKind::Intrinsic(i) => {
                        stmts.push(J::obj(vec![
                            ("k", J::s("intrinsic")),
                            ("text", J::Str(format!("{:?}", i))),
                            ("span", sp),
                        ]));
                    }
                    #[allow(unreachable_patterns)]
                    other => {
                        stmts.push(J::obj(vec![
                            ("k", J::s("other")),
                            ("text", J::Str(format!("{:?}", other))),
                            ("span", sp),
                        ]));
                    }
                }
            }
            let term = data.terminator();
            let sp = span_j(tcx, term.source_info.span);
            let bbj = |b: mir::BasicBlock| J::Int(b.index() as i128);
            let unwind_j = |u: &mir::UnwindAction| match u {
                mir::UnwindAction::Cleanup(b) => bbj(*b),
                _ => J::Null,
            };
            let t = match &term.kind {
                TerminatorKind::Goto { target } => J::obj(vec![("k", J::s("goto")), ("target", bbj(*target))]),
                TerminatorKind::SwitchInt { discr, targets } => {
                    let vals = J::Arr(
                        targets
                            .iter()
                            .map(|(v, b)| J::Arr(vec![J::Str(v.to_string()), bbj(b)]))
                            .collect(),
                    );
                    J::obj(vec![
                        ("k", J::s("switch")),
                        ("discr", self.operand(discr)),
                        ("discr_ty", J::Str(discr.ty(&body.local_decls, tcx).to_string())),
                        ("targets", vals),
                        ("otherwise", bbj(targets.otherwise())),
                    ])
                }
                TerminatorKind::Return => J::obj(vec![("k", J::s("return"))]),
                TerminatorKind::Unreachable => J::obj(vec![("k", J::s("unreachable"))]),
                TerminatorKind::UnwindResume => J::obj(vec![("k", J::s("resume"))]),
                TerminatorKind::UnwindTerminate(_) => J::obj(vec![("k", J::s("terminate"))]),
                TerminatorKind::Drop { place, target, unwind, .. } => J::obj(vec![
                    ("k", J::s("drop")),
                    ("place", self.place(place)),
                    ("target", bbj(*target)),
                    ("unwind", unwind_j(unwind)),
                ]),
                TerminatorKind::Call { func, args, destination, target, unwind, .. } => {
                    let fty = func.ty(&body.local_decls, tcx);
                    let callee = match fty.kind() {
                        ty::FnDef(did, gargs) => self.fn_ref(*did, gargs),
                        _ => J::obj(vec![("indirect", J::Bool(true)), ("ty", J::Str(fty.to_string()))]),
                    };
                    J::obj(vec![
                        ("k", J::s("call")),
                        ("callee", callee),
                        ("func", self.operand(func)),
                        ("args", J::Arr(args.iter().map(|a| self.operand(&a.node)).collect())),
                        ("dest", self.place(destination)),
                        ("target", match target { Some(b) => bbj(*b), None => J::Null }),
                        ("unwind", unwind_j(unwind)),
                    ])
                }
                TerminatorKind::TailCall { func, .. } => J::obj(vec![
                    ("k", J::s("tailcall")),
                    ("text", J::Str(format!("{:?}", func))),
                ]),
                TerminatorKind::Assert { cond, expected, msg, target, unwind } => J::obj(vec![
                    ("k", J::s("assert")),
                    ("cond", self.operand(cond)),
                    ("expected", J::Bool(*expected)),
                    ("msg", self.assert_kind(msg)),
                    ("target", bbj(*target)),
                    ("unwind", unwind_j(unwind)),
                ]),
                TerminatorKind::FalseEdge { real_target, .. } => {
                    J::obj(vec![("k", J::s("goto")), ("target", bbj(*real_target))])
                }
                TerminatorKind::FalseUnwind { real_target, .. } => {
                    J::obj(vec![("k", J::s("goto")), ("target", bbj(*real_target))])
                }
                TerminatorKind::InlineAsm { .. } => J::obj(vec![("k", J::s("inline_asm"))]),
                other => J::obj(vec![("k", J::s("other")), ("text", J::Str(format!("{:?}", other)))]),
            };
            let mut tv = match t {
                J::Obj(v) => v,
                _ => unreachable!(),
            };
            tv.push(("span".to_string(), sp));
            blocks.push(J::obj(vec![
                ("id", J::Int(bb.index() as i128)),
                ("cleanup", J::Bool(data.is_cleanup)),
                ("stmts", J::Arr(stmts)),
                ("term", J::Obj(tv)),
            ]));
        }
        J::obj(vec![
            ("arg_count", J::Int(body.arg_count as i128)),
            ("locals", locals),
            ("debug", dbg),
            ("blocks", J::Arr(blocks)),
        ])
    }
}

fn generics_j<'tcx>(tcx: TyCtxt<'tcx>, did: DefId) -> J {
    let g = tcx.generics_of(did);
    let params = J::Arr(
        g.own_params
            .iter()
            .map(|p| {
                J::obj(vec![
                    ("name", J::Str(p.name.to_string())),
                    ("kind", J::Str(format!("{:?}", p.kind).split(|c: char| !c.is_alphanumeric()).next().unwrap_or("").to_string())),
                ])
            })
            .collect(),
    );
    let preds = tcx.predicates_of(did);
    let mut pv = vec![];
    for (clause, _) in preds.predicates.iter() {
        let mut o: Vec<(&str, J)> = vec![("s", J::Str(clause.to_string()))];
        if let Some(tp) = clause.as_trait_clause() {
            let tp = tp.skip_binder();
            o.push(("k", J::s("trait")));
            o.push(("self", J::Str(tp.self_ty().to_string())));
            o.push(("trait", J::Str(tcx.def_path_str(tp.def_id()))));
            o.push(("trait_krate", J::Str(tcx.crate_name(tp.def_id().krate).to_string())));
        } else if clause.as_type_outlives_clause().is_some() {
            o.push(("k", J::s("outlives")));
        } else if clause.as_projection_clause().is_some() {
            o.push(("k", J::s("projection")));
        } else {
            o.push(("k", J::s("other")));
        }
        pv.push(J::obj(o));
    }
    J::obj(vec![("params", params), ("preds", J::Arr(pv)), ("has_parent", J::Bool(g.parent.is_some()))])
}

fn derive_macro<'tcx>(tcx: TyCtxt<'tcx>, did: DefId) -> J {
    let sp = tcx.def_span(did);
    if !sp.from_expansion() {
        return J::Null;
    }
    let outer = sp.ctxt().outer_expn_data();
    match outer.kind {
        rustc_span::ExpnKind::Macro(kind, name) => J::obj(vec![
            ("kind", J::Str(format!("{:?}", kind))),
            ("name", J::Str(name.to_string())),
            (
                "macro_krate",
                match outer.macro_def_id {
                    Some(d) => J::Str(tcx.crate_name(d.krate).to_string()),
                    None => J::Null,
                },
            ),
        ]),
        other => J::obj(vec![("kind", J::Str(format!("{:?}", other)))]),
    }
}

pub fn collect(tcx: TyCtxt<'_>) -> J {
    let mut adts = vec![];
    let mut impls = vec![];
    let mut traits = vec![];
    let mut items = vec![];
    let defs: Vec<LocalDefId> = tcx.hir_crate_items(()).definitions().collect();
    for ld in defs {
        let did = ld.to_def_id();
        let kind = tcx.def_kind(did);
        match kind {
            DefKind::Struct | DefKind::Enum | DefKind::Union => {
                let def = tcx.adt_def(did);
                let variants = J::Arr(
                    def.variants()
                        .iter()
                        .map(|v| {
                            J::obj(vec![
                                ("name", J::Str(v.name.to_string())),
                                ("discr_explicit", J::Bool(matches!(v.discr, rustc_middle::ty::VariantDiscr::Explicit(_)))),
                                (
                                    "fields",
                                    J::Arr(
                                        v.fields
                                            .iter()
                                            .enumerate()
                                            .map(|(i, f)| {
                                                let fty = tcx.type_of(f.did).instantiate_identity().skip_norm_wip();
                                                J::obj(vec![
                                                    ("name", J::Str(f.name.to_string())),
                                                    ("index", J::Int(i as i128)),
                                                    ("ty", ty_j(tcx, fty)),
                                                    ("vis", J::Str(format!("{:?}", f.vis))),
                                                    ("public", J::Bool(f.vis.is_public())),
                                                ])
                                            })
                                            .collect(),
                                    ),
                                ),
                            ])
                        })
                        .collect(),
                );
                adts.push(J::obj(vec![
                    ("path", J::Str(tcx.def_path_str(did))),
                    ("name", J::Str(tcx.item_name(did).to_string())),
                    ("kind", J::Str(format!("{:?}", kind))),
                    ("public", J::Bool(tcx.visibility(did).is_public())),
                    ("variants", variants),
                    ("generics", generics_j(tcx, did)),
                    ("span", span_j(tcx, tcx.def_span(did))),
                ]));
            }
            DefKind::Impl { of_trait } => {
                let self_ty = tcx.type_of(did).instantiate_identity().skip_norm_wip();
                let mut v: Vec<(&str, J)> = vec![
                    ("id", J::Str(format!("{}", ld.local_def_index.as_u32()))),
                    ("self_ty", ty_j(tcx, self_ty)),
                    ("of_trait", J::Bool(of_trait)),
                    ("auto_derived", J::Bool(tcx.is_automatically_derived(did))),
                    ("derive", derive_macro(tcx, did)),
                    ("generics", generics_j(tcx, did)),
                    ("span", span_j(tcx, tcx.def_span(did))),
                ];
                if of_trait {
                    let tr = tcx.impl_trait_ref(did).instantiate_identity().skip_norm_wip();
                    v.push(("trait", J::Str(tcx.def_path_str(tr.def_id))));
                    v.push(("trait_krate", J::Str(tcx.crate_name(tr.def_id.krate).to_string())));
                    v.push(("trait_ref", J::Str(tr.to_string())));
                    v.push((
                        "trait_args",
                        J::Arr(tr.args.types().skip(1).map(|a| ty_j(tcx, a)).collect()),
                    ));
                    let header = tcx.impl_trait_header(did);
                    v.push(("unsafe", J::Bool(header.safety.is_unsafe())));
                    v.push(("polarity", J::Str(format!("{:?}", header.polarity))));
                }
                let mut its = vec![];
                for &it in tcx.associated_item_def_ids(did) {
                    let ai = tcx.associated_item(it);
                    let mut o: Vec<(&str, J)> = vec![
                        ("path", J::Str(tcx.def_path_str(it))),
                        ("name", J::Str(ai.name().to_string())),
                        ("kind", J::Str(format!("{:?}", tcx.def_kind(it)))),
                    ];
                    if matches!(tcx.def_kind(it), DefKind::AssocTy) {
                        o.push((
                            "ty",
                            ty_j(tcx, tcx.type_of(it).instantiate_identity().skip_norm_wip()),
                        ));
                    }
                    its.push(J::obj(o));
                }
                v.push(("items", J::Arr(its)));
                impls.push(J::obj(v));
            }
            DefKind::Trait => {
                traits.push(J::obj(vec![
                    ("path", J::Str(tcx.def_path_str(did))),
                    ("public", J::Bool(tcx.visibility(did).is_public())),
                    ("generics", generics_j(tcx, did)),
                    (
                        "items",
                        J::Arr(
                            tcx.associated_item_def_ids(did)
                                .iter()
                                .map(|&it| J::Str(tcx.item_name(it).to_string()))
                                .collect(),
                        ),
                    ),
                ]));
            }
            DefKind::Static { .. } | DefKind::Const { .. } | DefKind::AssocConst { .. } => {
                let t = tcx.type_of(did).instantiate_identity().skip_norm_wip();
                let freeze = t.is_freeze(tcx, TypingEnv::post_analysis(tcx, did));
                items.push(J::obj(vec![
                    ("path", J::Str(tcx.def_path_str(did))),
                    ("kind", J::Str(format!("{:?}", kind).split(|c: char| !c.is_alphanumeric()).next().unwrap_or("").to_string())),
                    ("ty", ty_j(tcx, t)),
                    ("freeze", J::Bool(freeze)),
                    ("span", span_j(tcx, tcx.def_span(did))),
                ]));
            }
            _ => {}
        }
    }

    let mut fns = vec![];
    for ld in tcx.hir_body_owners() {
        let did = ld.to_def_id();
        let kind = tcx.def_kind(did);
        if !matches!(kind, DefKind::Fn | DefKind::AssocFn | DefKind::Closure) {
            continue;
        }
        let body = tcx.optimized_mir(did);
        let env = TypingEnv::post_analysis(tcx, did);
        let cx = FnCx { tcx, body, did, env };
        let _ = cx.did;
        let mut v: Vec<(&str, J)> = vec![
            ("path", J::Str(tcx.def_path_str(did))),
            ("name", J::Str(if matches!(kind, DefKind::Closure) { "{closure}".to_string() } else { tcx.item_name(did).to_string() })),
            ("kind", J::Str(format!("{:?}", kind))),
            ("span", span_j(tcx, tcx.def_span(did))),
        ];
        if matches!(kind, DefKind::Fn | DefKind::AssocFn) {
            v.push(("public", J::Bool(tcx.visibility(did).is_public())));
            // nameable from outside the crate (a `pub fn` in a private module is not)
            v.push(("exported", J::Bool(tcx.effective_visibilities(()).is_reachable(ld))));
            let sig = tcx.fn_sig(did).instantiate_identity().skip_norm_wip().skip_binder();
            v.push(("inputs", J::Arr(sig.inputs().iter().map(|t| ty_j(tcx, *t)).collect())));
            v.push(("output", ty_j(tcx, sig.output())));
            v.push(("unsafe", J::Bool(sig.safety().is_unsafe())));
            v.push(("generics", generics_j(tcx, did)));
        }
        if let Some(parent) = tcx.opt_parent(did) {
            v.push(("parent", J::Str(tcx.def_path_str(parent))));
            if let DefKind::Impl { of_trait } = tcx.def_kind(parent) {
                if let Some(pl) = parent.as_local() {
                    v.push(("impl_id", J::Str(format!("{}", pl.local_def_index.as_u32()))));
                }
                v.push((
                    "impl_self",
                    ty_j(tcx, tcx.type_of(parent).instantiate_identity().skip_norm_wip()),
                ));
                if of_trait {
                    let tr = tcx.impl_trait_ref(parent).instantiate_identity().skip_norm_wip();
                    v.push(("impl_trait", J::Str(tcx.def_path_str(tr.def_id))));
                    v.push(("impl_trait_ref", J::Str(tr.to_string())));
                    v.push((
                        "impl_trait_args",
                        J::Arr(tr.args.types().skip(1).map(|a| ty_j(tcx, a)).collect()),
                    ));
                }
                v.push(("impl_auto_derived", J::Bool(tcx.is_automatically_derived(parent))));
                v.push(("impl_derive", derive_macro(tcx, parent)));
            }
        }
        v.push(("mir", cx.body_j()));
        fns.push(J::obj(v));
    }

    J::obj(vec![
        ("crate", J::Str(tcx.crate_name(rustc_hir::def_id::LOCAL_CRATE).to_string())),
        ("overflow_checks", J::Bool(tcx.sess.overflow_checks())),
        ("debug_assertions", J::Bool(tcx.sess.opts.debug_assertions)),
        ("adts", J::Arr(adts)),
        ("impls", J::Arr(impls)),
        ("traits", J::Arr(traits)),
        ("items", J::Arr(items)),
        ("fns", J::Arr(fns)),
    ])
}

#[allow(dead_code)]
fn _unused(_: BinOp) {}
