#![allow(dead_code)]
// C11: every constructor returns Err(InvalidParameter) iff a period argument is 0; period() returns the constructor argument.
// (and, downstream, C09: EMA stays within [history min, history max]; C07/C09 class invariant k in (0, 1])
use ta::indicators::ExponentialMovingAverage as Ema;
use ta::{Next, Period};

// Only so that this file also compiles against the original crate, which has no `from_span`:
// an inherent associated fn (patched crate) takes precedence over this trait fn.
trait Compat: Sized {
    fn from_span(span: usize) -> Self;
}
impl Compat for Ema {
    fn from_span(span: usize) -> Self {
        match Ema::new(span) {
            Ok(e) => e,
            Err(_) => {
                println!("ok: period 0 rejected by the only constructor");
                std::process::exit(0)
            }
        }
    }
}

fn main() {
    let mut ema = Ema::from_span(0);
    println!("VIOLATION C11: a public constructor accepted period 0 and built `{}` (period() = {})", ema, ema.period());
    let xs = [10.0, 11.0, 12.0, 11.0, 10.0, 12.0];
    let outs: Vec<f64> = xs.iter().map(|&x| ema.next(x)).collect();
    println!("inputs in [10, 12], outputs {:?}  (C09: EMA must stay within the hull of its history)", outs);
    std::process::exit(1);
}
