// C01: SMA = mean of the last min(t, n) inputs (no padding while warming up).
// Build with `cargo run --release`: the patched crate differs in release builds only.
use ta::indicators::SimpleMovingAverage;
use ta::Next;

fn main() {
    let mut sma = SimpleMovingAverage::new(4).unwrap();
    let a = sma.next(4.0);
    let b = sma.next(8.0);
    if a != 4.0 || b != 6.0 {
        eprintln!("SMA(4) fed 4, 8 returned {}, {} (expected 4, 6)", a, b);
        std::process::exit(1);
    }
}
