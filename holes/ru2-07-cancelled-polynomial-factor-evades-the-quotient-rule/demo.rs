// C01 (also C09-N9, C17): WeightedMovingAverage(n) after ANY sequence of finite inputs (the quantifier names zero explicitly)
// equals sum_i i*x_i / (k(k+1)/2) over the last min(t, n) inputs, within tau(t) * max|x|; in particular it is a finite number
// inside [window min, window max].
use ta::indicators::WeightedMovingAverage;
use ta::Next;

fn reference(w: &[f64]) -> f64 {
    let k = w.len() as f64;
    let num: f64 = w.iter().enumerate().map(|(i, v)| (i + 1) as f64 * v).sum();
    num / (k * (k + 1.0) / 2.0)
}

fn main() {
    let n = 3;
    let mut wma = WeightedMovingAverage::new(n).unwrap();
    let inputs = [2.0, -1.0, 3.0, -2.0, 4.0, 1.0, 5.0]; // finite, with sign changes; x_4 = -x_1
    let mut hist: Vec<f64> = vec![];
    let mut bad = 0;
    for (t, &x) in inputs.iter().enumerate() {
        hist.push(x);
        let got = wma.next(x);
        let start = hist.len().saturating_sub(n);
        let want = reference(&hist[start..]);
        let tau = 1e-12 + 1e-15 * ((t + 1) as f64).powf(1.5);
        let ok = (got - want).abs() <= tau * 5.0;
        println!("t={} x={:>4} WMA={:<22} reference={:<22} {}", t + 1, x, got, want, if ok { "" } else { "<-- differs" });
        if !ok {
            bad += 1;
        }
    }
    if bad > 0 {
        println!("VIOLATED: {} outputs are not the weighted mean of the window (NaN from the first call on which the input is minus the evicted value)", bad);
        std::process::exit(1);
    }
    println!("ok");
}
