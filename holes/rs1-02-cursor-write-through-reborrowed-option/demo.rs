// C12: next() must return normally for every valid configuration and every input sequence.
use ta::indicators::SimpleMovingAverage;
use ta::Next;

fn main() {
    let r = std::panic::catch_unwind(|| {
        let mut sma = SimpleMovingAverage::new(3).unwrap();
        sma.next(1.0);
        sma.next(2.0e9); // a finite spike
        sma.next(2.0); // index out of bounds: the len is 3 but the index is 3
    });
    if r.is_err() {
        eprintln!("C12 violated: SimpleMovingAverage::new(3).next panicked on a finite input sequence");
        std::process::exit(1);
    }
}
