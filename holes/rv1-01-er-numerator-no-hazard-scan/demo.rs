// C07: EfficiencyRatio stays in [0, 1] (1e-9 slack) for every stream of finite prices with non-zero volatility.
// C03: ER = |x_t - x_{t-n}| / sum |dx| within tau(t)*c, c = largest magnitude / |denominator| <= 1e6.
// A strictly rising stream has ER = 1 exactly in real arithmetic (numerator = telescoped denominator).
use ta::indicators::EfficiencyRatio;
use ta::Next;

fn main() {
    let n = 5;
    let mut er = EfficiencyRatio::new(n).unwrap();
    let mut hist: Vec<f64> = vec![];
    let mut bad = 0;
    let mut x = 1.0e6;
    for t in 0..40 {
        x += 0.3 + 0.017 * ((t % 3) as f64);   // strictly rising
        hist.push(x);
        let got = er.next(x);
        if hist.len() < 2 { continue; }
        let start = hist.len().saturating_sub(n + 1);
        let w = &hist[start..];
        let num = (w[w.len() - 1] - w[0]).abs();
        let den: f64 = w.windows(2).map(|p| (p[1] - p[0]).abs()).sum();
        let want = num / den;
        let c = 1.0e6 / den;                       // condition number <= 1e6
        let tau = 1e-12 + 1e-15 * ((t + 1) as f64).powf(1.5);
        let in_range = got >= -1e-9 && got <= 1.0 + 1e-9;
        let close = (got - want).abs() <= tau * c;
        if !(in_range && close) {
            bad += 1;
            println!("t={} x={} ER={} reference={} (c={:.3e}) {}{}", t + 1, x, got, want, c,
                     if in_range { "" } else { "OUT OF [0,1] " }, if close { "" } else { "differs from the documented ratio" });
        }
    }
    if bad > 0 {
        println!("VIOLATED: {} outputs", bad);
        std::process::exit(1);
    }
    println!("ok");
}
