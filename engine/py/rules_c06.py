"""C06 — serialize/deserialize at any point preserves all future outputs.
Derived, attribute-free serde over the owned-plain-data grammar carries every field."""
import re

import grammar
import ir
from infra import BAD_FIXTURE, Report, Sink, loc
from ir import short

HARMLESS_SERDE_ATTR = re.compile(r"^(rename|rename_all|rename_all_fields|alias|deny_unknown_fields|bound|crate|expecting)\b")


def serde_attr_items(attr):
    """'#[serde(skip, default = "x")]' -> ['skip', 'default = "x"']"""
    m = re.match(r"#\[\s*serde\s*\((.*)\)\s*\]\s*$", attr, re.S)
    if not m:
        return None
    body = m.group(1)
    items, depth, cur = [], 0, ""
    for ch in body:
        if ch in "([{":
            depth += 1
        elif ch in ")]}":
            depth -= 1
        if ch == "," and depth == 0:
            items.append(cur.strip())
            cur = ""
        else:
            cur += ch
    if cur.strip():
        items.append(cur.strip())
    return items


def is_serde_derive(impl, macro):
    d = impl.get("derive") or {}
    return bool(impl.get("auto_derived")) and d.get("kind") == "Derive" and d.get("name") == macro and d.get("macro_krate") == "serde_derive"


def z1_derived(F, S, names):
    for name in names:
        for tr in ("Serialize", "Deserialize"):
            imps = F.impls_of(tr, name)
            if not imps:
                S.bad("Z1", "serde-missing", "%s:%s" % (name, tr), "%s does not implement %s with the serde feature" % (name, tr), loc(F.adt_by_short[name]["span"]))
                continue
            for i in imps:
                if is_serde_derive(i, tr):
                    S.ok("Z1", "%s: %s" % (name, tr), derive="serde_derive::" + tr, at=loc(i["span"]))
                else:
                    S.bad("Z1", "serde-handwritten", "%s:%s" % (name, tr), "%s for %s is not produced by #[derive(%s)]: a hand-written impl may drop or alter state" % (tr, name, tr), loc(i["span"]))


def apply_rename_all(field, rule):
    """serde's RenameRule::apply_to_field"""
    if not rule:
        return field
    words = [w for w in field.split("_")]
    pascal = "".join(w[:1].upper() + w[1:] for w in words)
    return {"lowercase": field, "snake_case": field, "UPPERCASE": field.upper(), "SCREAMING_SNAKE_CASE": field.upper(), "PascalCase": pascal,
            "camelCase": pascal[:1].lower() + pascal[1:], "kebab-case": field.replace("_", "-"), "SCREAMING-KEBAB-CASE": field.upper().replace("_", "-")}.get(rule, field)


def z2_attrs(F, S, names):
    by_name = {}
    for s in F.ast["structs"]:
        by_name.setdefault(s["name"], s)
    for name in names:
        s = by_name.get(name)
        if s is None:
            S.bad("Z2", "ast-missing", name, "struct %s not found in the expanded AST" % name)
            continue
        rename_all = None
        for a in s["attrs"]:
            items = serde_attr_items(a)
            if items is None:
                continue
            for it in items:
                m_ra = re.match(r'^rename_all\s*=\s*"([^"]*)"$', it.strip())
                if m_ra:
                    rename_all = m_ra.group(1)
                if HARMLESS_SERDE_ATTR.match(it) and not re.match(r"^(rename|rename_all|rename_all_fields)\s*\(", it.strip()):
                    S.ok("Z2", "%s #[serde(%s)]" % (name, it))
                elif HARMLESS_SERDE_ATTR.match(it):
                    S.bad("Z2", "serde-attr", "%s:%s" % (name, it.split("(")[0].strip()), "container attribute #[serde(%s)] on %s gives separate serialize / deserialize names: the type cannot read back its own output in a self-describing format" % (it, name), loc(s["span"]))
                else:
                    S.bad("Z2", "serde-attr", "%s:%s" % (name, it.split("=")[0].strip()), "container attribute #[serde(%s)] on %s can change what is serialized/restored" % (it, name), loc(s["span"]))
        wire_names = {}
        for f in s.get("fields", []):
            # the name a field has on the wire: `rename = "x"` only in its symmetric form, and no two fields may share a name
            wn = apply_rename_all(f["name"], rename_all)
            for a in f["attrs"]:
                for it in (serde_attr_items(a) or []):
                    m_ = re.match(r'^rename\s*=\s*"([^"]*)"$', it.strip())
                    if m_:
                        wn = m_.group(1)
                    elif it.strip().startswith(("rename", "alias")):
                        S.bad("Z2", "serde-attr", "%s.%s:%s" % (name, f["name"], "rename"),
                              "field attribute #[serde(%s)] on %s.%s: separate serialize / deserialize names or aliases can make two fields trade places on a round trip" % (it, name, f["name"]), loc(f["span"]))
            if wn in wire_names:
                S.bad("Z2", "serde-attr", "%s.%s:%s" % (name, f["name"], "rename-collision"),
                      "%s.%s and %s.%s are both serialized under the name \"%s\"" % (name, f["name"], name, wire_names[wn], wn), loc(f["span"]))
            wire_names[wn] = f["name"]
        for f in s.get("fields", []):
            bad = False
            for a in f["attrs"]:
                items = serde_attr_items(a)
                if items is None:
                    continue
                for it in items:
                    if not HARMLESS_SERDE_ATTR.match(it):
                        bad = True
                        S.bad("Z2", "serde-attr", "%s.%s:%s" % (name, f["name"], it.split("=")[0].strip().split("(")[0]),
                              "field attribute #[serde(%s)] on %s.%s: the field is not carried faithfully by the serialized form" % (it, name, f["name"]), loc(f["span"]))
            if not bad:
                S.ok("Z2", "%s.%s" % (name, f["name"]), attrs=f["attrs"])


def z3_grammar(F, S, names):
    for name in names:
        adt = F.adt_by_short[name]
        for f in adt["variants"][0]["fields"]:
            ok, kind, det = grammar.classify_type(F, f["ty"], {name})
            if ok:
                S.ok("Z3", "%s.%s" % (name, f["name"]), ty=f["ty"]["s"], kind=kind)
            else:
                S.bad("Z3", "lossy-type", "%s.%s" % (name, f["name"]), "field %s.%s: %s — its serde impl is not known to round-trip bit-exactly" % (name, f["name"], det), loc(adt["span"]))


def z4_expanded(F, S, names):
    ser = {}
    seq = {}
    mp = {}
    for f in F.fns:
        if not f.derived:
            continue
        d = (f.d.get("impl_derive") or {}).get("name")
        counts = {}
        for b, t in f.calls():
            c = t["callee"]
            nm = short(c["path"])
            if nm == "next_value" and any("IgnoredAny" in a["s"] for a in c.get("targs", [])):
                nm = "next_value_ignored"
            counts[nm] = counts.get(nm, 0) + 1
        if d == "Serialize" and f.name == "serialize" and f.self_struct:
            ser[f.self_struct] = (counts.get("serialize_field", 0), f)
        m = re.search(r"for ([\w:]+)>::deserialize::__Visitor", f.path)
        if d == "Deserialize" and m:
            st = short(m.group(1))
            if f.name == "visit_seq":
                seq[st] = (counts.get("next_element", 0), f)
            if f.name == "visit_map":
                mp[st] = (counts.get("next_value", 0), counts.get("missing_field", 0), f)
    for name in names:
        n = len(F.struct_fields(name))
        if name in ser:
            c, f = ser[name]
            if c == n:
                S.ok("Z4", "%s serialize" % name, serialize_field_calls=c, fields=n)
            else:
                S.bad("Z4", "field-count", "%s:serialize" % name, "derived serialize of %s writes %d of %d fields" % (name, c, n), loc(f.span))
        if name in seq:
            c, f = seq[name]
            if c == n:
                S.ok("Z4", "%s visit_seq" % name, next_element_calls=c, fields=n)
            else:
                S.bad("Z4", "field-count", "%s:visit_seq" % name, "derived visit_seq of %s reads %d of %d fields (the rest is defaulted)" % (name, c, n), loc(f.span))
        if name in mp:
            c, miss, f = mp[name]
            if c == n and miss == n:
                S.ok("Z4", "%s visit_map" % name, next_value_calls=c, missing_field_calls=miss, fields=n)
            else:
                S.bad("Z4", "field-count", "%s:visit_map" % name, "derived visit_map of %s reads %d and requires %d of %d fields" % (name, c, miss, n), loc(f.span))
        if name in F.adt_by_short and (name not in ser or name not in seq or name not in mp) and F.impls_of("Serialize", name):
            imps = F.impls_of("Serialize", name) + F.impls_of("Deserialize", name)
            if all(is_serde_derive(i, short(i["trait"])) for i in imps):
                S.bad("Z4", "expansion-shape", name, "derived serde code of %s does not have the expected serialize/visit_seq/visit_map shape" % name)


def z5_dataitem(F, S):
    if "DataItem" not in F.adt_by_short:
        return
    for tr in ("PartialEq", "Clone"):
        imps = F.impls_of(tr, "DataItem")
        okk = [i for i in imps if i.get("auto_derived") and (i.get("derive") or {}).get("name") == tr and (i.get("derive") or {}).get("macro_krate") in ("core", "std")]
        if okk:
            S.ok("Z5", "DataItem: derive(%s)" % tr)
        else:
            S.bad("Z5", "dataitem-derive", tr, "DataItem does not derive %s: a round-tripped value cannot be shown equal field-wise" % tr)


RULES = [
    ("Z1", "Serialize and Deserialize of every state struct come from serde_derive", 46),
    ("Z2", "no #[serde(..)] attribute other than rename/alias/deny_unknown_fields/bound on containers or fields", 89),
    ("Z3", "field types stay in the lossless owned-plain-data grammar", 89),
    ("Z4", "expanded derive: serialize_field / next_element / next_value+missing_field call counts equal the field count", 69),
    ("Z5", "DataItem derives PartialEq and Clone", 2),
]


def apply(F, S):
    names = grammar.state_structs(F)
    z1_derived(F, S, names)
    z2_attrs(F, S, names)
    z3_grammar(F, S, names)
    z4_expanded(F, S, names)
    z5_dataitem(F, S)
    return names


def run(tier, repo=None, tag="repo"):
    rep = Report("C06", tier)
    from extract import ExtractError
    try:
        F = ir.load("serde", repo, tag)
    except ExtractError as e:
        for rid, text, floor in RULES:
            rep.rule(rid, text, 0)
        rep.violation("C06:serde-build", "Z1", "the crate does not build with --features serde, so not every indicator is Serialize + Deserialize: %s" % str(e)[-600:], where="cargo check --features serde")
        rep.explanation = "serde configuration failed to build"
        return rep
    for rid, text, floor in RULES:
        rep.rule(rid, text, floor)
    names = apply(F, Sink(rep))
    inv = rep.rule("INV", "state structs (22 indicators + DataItem)", 23)
    for n in names:
        inv.ok(n)
    rep.functions.update(f.path for f in F.fns if f.derived)
    rep.configs = ["serde"]
    B = ir.load("serde", BAD_FIXTURE, "bad")
    C = Sink(None, "C06")
    apply(B, C)
    rep.control("Z1 hand-written Serialize", C.fired("serde-handwritten", "BadManualSerde:Serialize"))
    rep.control("Z1 missing serde impl", C.fired("serde-missing", "BadRaw"))
    rep.control("Z2 #[serde(skip)]", C.fired("serde-attr", "BadShared.index:skip"))
    rep.control("Z2 #[serde(default)]", C.fired("serde-attr", "BadShared.sum:default"))
    rep.control("Z3 lossy field type", C.fired("lossy-type", "BadShared.seen"))
    rep.control("Z4 field count", C.fired("field-count", "BadShared:visit_seq") and C.fired("field-count", "BadShared:serialize"))
    rep.explanation = ("serde configuration: impl provenance (serde_derive), inert #[serde] helper attributes read from the expanded AST, field type grammar, "
                       "and a cross-check on the expanded derive (one serialize_field / next_element / next_value+missing_field call per field)")
    rep.assumptions = ["the byte format round-trips f64/usize/bool/Option<f64>/sequences bit-exactly (bincode does)",
                       "with all fields restored, future outputs are identical by determinism (C05)",
                       "a deserialised state is trusted to come from serialize (cross-version compatibility is disclaimed by the README)"]
    return rep
