// C12: next() is total -- no panic / out-of-bounds for any input and any valid configuration.
use std::panic;
use ta::indicators::SimpleMovingAverage;
use ta::Next;

fn main() {
    let r = panic::catch_unwind(|| {
        let mut sma = SimpleMovingAverage::new(3).unwrap();
        let a = sma.next(1500.0);
        let b = sma.next(1.0);
        (a, b)
    });
    match r {
        Ok((a, b)) => {
            assert_eq!(a, 1500.0);
            assert_eq!(b, 750.5);
        }
        Err(_) => {
            eprintln!("C12 violated: SimpleMovingAverage(3) panicked (index out of bounds) on the finite inputs 1500.0, 1.0");
            std::process::exit(1);
        }
    }
}
