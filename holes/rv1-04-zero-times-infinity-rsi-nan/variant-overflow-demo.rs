use ta::indicators::RelativeStrengthIndex;
use ta::Next;
fn main() {
    let mut rsi = RelativeStrengthIndex::new(14).unwrap();
    let mut bad = 0;
    for t in 0..20 {
        let x = 70000.0 + ((t * 7) % 5) as f64 * 25.0;
        let got = rsi.next(x);
        if !(got >= 0.0 && got <= 100.0) { bad += 1; if bad < 3 { println!("t={} x={} RSI={}", t + 1, x, got); } }
    }
    if bad > 0 { println!("VIOLATED {}", bad); std::process::exit(1); }
    println!("ok");
}
