// C12: next() is total for every input sequence -- including NaN -- also with debug assertions on.
use std::panic;
use ta::indicators::SimpleMovingAverage;
use ta::Next;

fn main() {
    if !cfg!(debug_assertions) {
        eprintln!("build this demo in the dev profile (debug assertions on), as C12 states");
    }
    let r = panic::catch_unwind(|| {
        let mut sma = SimpleMovingAverage::new(3).unwrap();
        sma.next(-5.0);
        sma.next(f64::NAN)
    });
    match r {
        Ok(v) => assert!(v.is_nan()),
        Err(_) => {
            eprintln!("C12 violated: SimpleMovingAverage(3) panicked on the inputs -5.0, NaN (debug assertion failed)");
            std::process::exit(1);
        }
    }
}
