// C12: next() never panics for any valid configuration and input, also when compiled with overflow checks (this
// program is built in the dev profile, where they are on).
use ta::indicators::SimpleMovingAverage;
use ta::Next;

fn main() {
    let r = std::panic::catch_unwind(|| {
        let mut sma = SimpleMovingAverage::new(100).unwrap();
        sma.next(1.0)
    });
    match r {
        Ok(v) => assert_eq!(v, 1.0),
        Err(_) => {
            eprintln!("C12 violated: SimpleMovingAverage(100).next(1.0) panicked");
            std::process::exit(1);
        }
    }
}
