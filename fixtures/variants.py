# Self-validation corpus: one-instance-broken variants (MUTANTS: each must be reported by the named
# properties' checks) and behaviour-preserving refactors (BENIGN: all named checks must stay silent).
# An entry is {name, props, edits: [(file, old, new)]}; `old` must occur exactly once, otherwise the
# variant is skipped (the tree has moved on), never counted as a failure.
I = "src/indicators/"
MUTANTS = [
    # ---- C04
    {"name": "C04-sma-reset-omits-sum", "props": ["C04"], "edits": [(I + "simple_moving_average.rs", "        self.count = 0;\n        self.sum = 0.0;\n        for", "        self.count = 0;\n        for")]},
    {"name": "C04-kc-reset-omits-ema", "props": ["C04"], "edits": [(I + "keltner_channel.rs", "        self.atr.reset();\n        self.ema.reset();", "        self.atr.reset();")]},
    {"name": "C04-wma-reset-count-1", "props": ["C04"], "edits": [(I + "weighted_moving_average.rs", "        self.index = 0;\n        self.count = 0;\n        self.weight = 0.0;", "        self.index = 0;\n        self.count = 1;\n        self.weight = 0.0;")]},
    {"name": "C04-er-reset-loop-short", "props": ["C04"], "edits": [(I + "efficiency_ratio.rs", "        for i in 0..self.period {", "        for i in 0..self.period - 1 {")]},
    {"name": "C04-ema-next-mutates-k", "props": ["C04"], "edits": [(I + "exponential_moving_average.rs", "            self.is_new = false;\n            self.current = input;", "            self.is_new = false;\n            self.k = self.k * 1.0;\n            self.current = input;")]},
    {"name": "C04-min-reset-fill-neg-inf", "props": ["C04"], "edits": [(I + "minimum.rs", "            self.deque[i] = f64::INFINITY;\n        }\n    }\n}\n\nimpl Default", "            self.deque[i] = f64::NEG_INFINITY;\n        }\n    }\n}\n\nimpl Default")]},
    # ---- C11
    {"name": "C11-sma-accepts-zero", "props": ["C11"], "edits": [(I + "simple_moving_average.rs", "            0 => Err(TaError::InvalidParameter),\n            _ => Ok(Self {", "            usize::MAX => Err(TaError::InvalidParameter),\n            _ => Ok(Self {")]},
    {"name": "C11-default-sma-10", "props": ["C11"], "edits": [(I + "simple_moving_average.rs", "Self::new(9).unwrap()", "Self::new(10).unwrap()")]},
    {"name": "C11-bb-display-precision", "props": ["C11"], "edits": [(I + "bollinger_bands.rs", "\"BB({}, {})\"", "\"BB({}, {:.0})\"")]},
    {"name": "C11-macd-display-slow-twice", "props": ["C11"], "edits": [(I + "moving_average_convergence_divergence.rs", "            self.slow_ema.period(),\n            self.signal_ema.period()", "            self.slow_ema.period(),\n            self.slow_ema.period()")]},
    {"name": "C11-atr-period-const", "props": ["C11"], "edits": [(I + "average_true_range.rs", "    fn period(&self) -> usize {\n        self.ema.period()", "    fn period(&self) -> usize {\n        14")]},
    {"name": "C11-sma-period-returns-count", "props": ["C11"], "edits": [(I + "simple_moving_average.rs", "    fn period(&self) -> usize {\n        self.period", "    fn period(&self) -> usize {\n        self.count")]},
    {"name": "C11-kc-rejects-negative-multiplier", "props": ["C11"], "edits": [(I + "keltner_channel.rs", "    pub fn new(period: usize, multiplier: f64) -> Result<Self> {\n", "    pub fn new(period: usize, multiplier: f64) -> Result<Self> {\n        if multiplier < 0.0 {\n            return Err(crate::errors::TaError::InvalidParameter);\n        }\n")]},
    {"name": "C11-roc-display-name", "props": ["C11"], "edits": [(I + "rate_of_change.rs", "\"ROC({})\"", "\"RoC({})\"")]},
    # ---- C16
    {"name": "C16-low-lt-open", "props": ["C16"], "edits": [("src/data_item.rs", "if low <= open", "if low < open")]},
    {"name": "C16-drop-high-ge-close", "props": ["C16"], "edits": [("src/data_item.rs", "                && high >= close\n", "")]},
    {"name": "C16-volume-gt-zero", "props": ["C16"], "edits": [("src/data_item.rs", "&& volume >= 0.0", "&& volume > 0.0")]},
    {"name": "C16-not-low-gt-open-accepts-nan", "props": ["C16"], "edits": [("src/data_item.rs", "if low <= open", "if !(low > open)")]},
    {"name": "C16-close-getter-returns-open", "props": ["C16"], "edits": [("src/data_item.rs", "    fn close(&self) -> f64 {\n        self.close", "    fn close(&self) -> f64 {\n        self.open")]},
    {"name": "C16-aggregate-swaps-high-low", "props": ["C16"], "edits": [("src/data_item.rs", "                    open,\n                    high,\n                    low,", "                    open,\n                    high: low,\n                    low: high,")]},
    {"name": "C16-setter-open-also-close", "props": ["C16"], "edits": [("src/data_item.rs", "        self.open = Some(val);\n", "        self.open = Some(val);\n        self.close = Some(val);\n")]},
]
BENIGN = [
    {"name": "benign-build-conjunct-order", "props": ["C16"], "edits": [("src/data_item.rs", "            if low <= open\n                && low <= close", "            if low <= close\n                && low <= open")]},
    {"name": "benign-build-high-ge-low", "props": ["C16"], "edits": [("src/data_item.rs", "&& low <= high", "&& high >= low")]},
    {"name": "benign-sma-reset-fill", "props": ["C04", "C18", "C05"], "edits": [(I + "simple_moving_average.rs", "        for i in 0..self.period {\n            self.deque[i] = 0.0;\n        }", "        self.deque.fill(0.0);")]},
    {"name": "benign-ema-new-if", "props": ["C11", "C04"], "edits": [(I + "exponential_moving_average.rs", "        match period {\n            0 => Err(TaError::InvalidParameter),\n            _ => Ok(Self {\n                period,\n                k: 2.0 / (period as f64 + 1.0),\n                current: 0.0,\n                is_new: true,\n            }),\n        }", "        if period == 0 {\n            return Err(TaError::InvalidParameter);\n        }\n        Ok(Self {\n            period,\n            k: 2.0 / (period as f64 + 1.0),\n            current: 0.0,\n            is_new: true,\n        })")]},
    {"name": "benign-reset-reorder", "props": ["C04"], "edits": [(I + "weighted_moving_average.rs", "        self.index = 0;\n        self.count = 0;\n        self.weight = 0.0;", "        self.weight = 0.0;\n        self.count = 0;\n        self.index = 0;")]},
]
