// C11: Default::default() behaves as new() with the documented defaults (EMA: 9).
use ta::indicators::ExponentialMovingAverage;
use ta::{Next, Period};

fn main() {
    let mut d = ExponentialMovingAverage::default();
    let mut n = ExponentialMovingAverage::new(9).unwrap();
    let mut bad = 0;
    if d.period() != 9 || format!("{}", d) != "EMA(9)" {
        println!("default() is {} with period {}", d, d.period());
        bad += 1;
    }
    for x in [10.0, 11.0, 13.0, 12.5] {
        let (a, b) = (d.next(x), n.next(x));
        if a != b {
            println!("default().next({}) = {}  but new(9).next({}) = {}", x, a, x, b);
            bad += 1;
        }
    }
    std::process::exit(if bad > 0 { 1 } else { 0 });
}
