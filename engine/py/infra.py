"""Shared plumbing: rule reports with floors, violation keys, known findings,
evidence files and the VIOLATION / KNOWN-FINDING output contract."""
import json
import os
import sys
import time

VERIF = os.path.dirname(os.path.dirname(os.path.dirname(os.path.abspath(__file__))))
EVIDENCE_DIR = os.path.join(VERIF, "evidence")
REPLAY_DIR = os.path.join(EVIDENCE_DIR, "replay")
KNOWN_FILE = os.path.join(VERIF, "known_findings.json")


def loc(span):
    if not span:
        return "?"
    return "%s:%s" % (span.get("file", "?"), span.get("line", "?"))


class Rule:
    """One rule of a property: counts instances, remembers samples, enforces a floor."""

    def __init__(self, rid, text, floor=0):
        self.id = rid
        self.text = text
        self.floor = floor
        self.instances = 0
        self.failed = 0
        self.samples = []
        self.keys = set()

    def ok(self, instance, **facts):
        self.instances += 1
        self.keys.add(instance)
        if len(self.samples) < 6:
            s = {"instance": instance, "ok": True}
            s.update(facts)
            self.samples.append(s)

    def to_json(self):
        return {"id": self.id, "rule": self.text, "instances": self.instances,
                "distinct": len(self.keys), "floor": self.floor, "failed": self.failed,
                "samples": self.samples}


class Report:
    def __init__(self, prop, tier="quick", level="other"):
        self.prop = prop
        self.tier = tier
        self.level = level
        self.rules = {}
        self.order = []
        self.violations = []  # dicts: key, rule, msg, where, facts
        self.assumptions = []
        self.configs = []
        self.functions = set()
        self.notes = []
        self.extra = {}
        self.t0 = time.time()
        self.explanation = ""
        self.controls = []  # positive controls: (name, fired)

    def rule(self, rid, text, floor=0):
        if rid not in self.rules:
            self.rules[rid] = Rule(rid, text, floor)
            self.order.append(rid)
        return self.rules[rid]

    def violation(self, key, rule, msg, where=None, **facts):
        """key: '<ID>:<slug>:<symbol>' without line numbers."""
        if rule in self.rules:
            self.rules[rule].failed += 1
            self.rules[rule].instances += 1
        for v in self.violations:
            if v["key"] == key and v["msg"] == msg:
                return
        self.violations.append({"key": key, "rule": rule, "msg": msg, "where": where or "?", "facts": facts})

    def control(self, name, fired, detail=""):
        self.controls.append({"control": name, "fired": bool(fired), "detail": detail})
        if not fired:
            self.violation("%s:control-silent:%s" % (self.prop, name), "control",
                           "positive control '%s' did not fire: the rule cannot see what it is meant to see" % name,
                           where="fixtures", detail=detail)

    def check_floors(self):
        for rid in self.order:
            r = self.rules[rid]
            if len(r.keys) + r.failed < r.floor:
                self.violation("%s:floor:%s" % (self.prop, rid), rid,
                               "rule %s matched %d distinct instance(s), below the floor of %d confirmed by hand: an anchor is missing or the rule went blind"
                               % (rid, len(r.keys), r.floor), where="(whole crate)")

    # ----- output -----
    def finish(self, seed=0, write=True):
        known = load_known()
        # a known finding is ONE site: a second violation that happens to produce the same key (a new division in the same function
        # reading the same kinds of state) is a different violation and is not covered by the listed one
        used_ = {}
        for v in self.violations:
            k_ = known.get(v["key"])
            if k_ and k_.get("status") == "known" and k_.get("property") == self.prop:
                used_[v["key"]] = used_.get(v["key"], 0) + 1
                if used_[v["key"]] > int(k_.get("count", 1)):
                    v["key"] = "%s#%d" % (v["key"], used_[v["key"]])
        unexplained = [v for v in self.violations if not (known.get(v["key"], {}).get("status") == "known" and known[v["key"]].get("property") == self.prop)]
        if not unexplained:
            self.check_floors()  # a failing rule already explains low counts elsewhere
        real = []
        known_hits = []
        for v in self.violations:
            k = known.get(v["key"])
            if k and k.get("status") == "known" and k.get("property") == self.prop:
                known_hits.append((v, k))
            else:
                real.append(v)
        os.makedirs(EVIDENCE_DIR, exist_ok=True)
        wall = round(time.time() - self.t0, 3)
        total_instances = sum(self.rules[r].instances for r in self.order)
        distinct = sum(len(self.rules[r].keys) for r in self.order)
        samples = []
        for rid in self.order:
            for s in self.rules[rid].samples[:3]:
                x = {"rule": rid}
                x.update(s)
                samples.append(x)
        cov = {
            "explanation": self.explanation,
            "configs": self.configs,
            "functions_analysed": len(self.functions),
            "rules": [self.rules[r].to_json() for r in self.order],
            "evaluations": total_instances,
            "distinct_nontrivial": distinct,
            "rule": "one evaluation = one rule instance (a construct of /repo matched by a rule and checked); "
                    "distinct = distinct instance keys; an instance is non-trivial because it is a real construct "
                    "of the analysed crate, not a synthetic case",
            "samples": samples[:40] or [{"note": "no instances"}],
            "positive_controls": self.controls,
            "exhaustive": True,
            "known_findings_reported": [v["key"] for v, _ in known_hits],
            "violation_details": [{"key": v["key"], "rule": v["rule"], "where": v["where"], "msg": v["msg"]} for v in real][:50],
        }
        cov.update(self.extra)
        ev = {
            "property_id": self.prop,
            "tier": self.tier,
            "seed": int(seed),
            "level": self.level,
            "coverage": cov,
            "assumptions": self.assumptions,
            "wall_s": wall,
            "violations": len(real),
        }
        if write:
            with open(os.path.join(EVIDENCE_DIR, "%s.json" % self.prop), "w") as fh:
                json.dump(ev, fh, indent=1, sort_keys=False)
                fh.write("\n")
        # human-readable summary
        print("== %s [%s] ==" % (self.prop, self.tier))
        for rid in self.order:
            r = self.rules[rid]
            print("  rule %-14s instances=%-4d distinct=%-4d floor=%-4d failed=%d  %s" % (rid, r.instances, len(r.keys), r.floor, r.failed, r.text[:80]))
        for c in self.controls:
            print("  control %-28s fired=%s" % (c["control"], c["fired"]))
        for n in self.notes:
            print("  note: " + n)
        for v, k in known_hits:
            print("KNOWN-FINDING: property=%s %s [%s] at %s" % (self.prop, k.get("what", v["msg"]), v["key"], v["where"]))
        if real:
            os.makedirs(REPLAY_DIR, exist_ok=True)
            for i, v in enumerate(real):
                path = os.path.join(REPLAY_DIR, "%s-%d.json" % (self.prop, i))
                if write:
                    with open(path, "w") as fh:
                        json.dump(v, fh, indent=1, default=str)
                print("  %s  rule=%s  at %s\n      %s" % (v["key"], v["rule"], v["where"], v["msg"]))
                print("VIOLATION property=%s replay=%s" % (self.prop, path))
            return 1
        print("  OK: %d rule instances, %d known finding(s), %.2fs" % (total_instances, len(known_hits), wall))
        return 0


def load_known():
    if not os.path.exists(KNOWN_FILE):
        return {}
    with open(KNOWN_FILE) as fh:
        d = json.load(fh)
    return {f["key"]: f for f in d.get("findings", []) if "key" in f}


class Sink:
    """Rule functions report through a sink: the real run forwards to a Report,
    the positive-control run (fixtures/bad) only collects."""

    def __init__(self, report=None, prop=None):
        self.report = report
        self.prop = prop or (report.prop if report else "?")
        self.bad_keys = []
        self.ok_count = 0

    def ok(self, rule, instance, **facts):
        self.ok_count += 1
        if self.report:
            self.report.rules[rule].ok(instance, **facts)

    def bad(self, rule, slug, symbol, msg, where=None, **facts):
        key = "%s:%s:%s" % (self.prop, slug, symbol)
        self.bad_keys.append(key)
        if self.report:
            self.report.violation(key, rule, msg, where, **facts)

    def fired(self, slug, symbol_part=""):
        pre = "%s:%s:" % (self.prop, slug)
        return any(k.startswith(pre) and symbol_part in k for k in self.bad_keys)


BAD_FIXTURE = os.path.join(VERIF, "fixtures", "bad")
