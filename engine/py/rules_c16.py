"""C16 — DataItem builder accepts exactly the consistent bars and returns what was set."""
import itertools

import ir
from ir import short
import symex
from infra import Report, Sink, loc
from terms import cf, leaves, lit, show, simp, subterms

FIELDS = ["open", "high", "low", "close", "volume"]


def payload(f):
    return ("pre", "self.%s.@Some.0" % f)


def expected_atoms():
    lo, op, cl, hi, vo = payload("low"), payload("open"), payload("close"), payload("high"), payload("volume")
    want = [("<=", lo, op), ("<=", lo, cl), ("<=", lo, hi), ("<=", op, hi), ("<=", cl, hi), ("<=", cf(0.0), vo)]
    return {lit(a)[0]: show(a) for a in want}


def is_err(leaf, name):
    return isinstance(leaf, tuple) and leaf[0] == "adt" and leaf[2][1] == "Err" and isinstance(leaf[3][0][1], tuple) and leaf[3][0][1][0] == "adt" and leaf[3][0][1][2][1] == name


def apply(F, S):
    if "DataItemBuilder" not in F.adt_by_short or "DataItem" not in F.adt_by_short:
        S.bad("B1", "anchor", "DataItemBuilder", "DataItem / DataItemBuilder not found")
        return
    bfields = [f["name"] for f in F.struct_fields("DataItemBuilder")]
    # B1 setters
    for name in FIELDS:
        fn = F.method("DataItemBuilder", name, trait="")
        if fn is None:
            S.bad("B1", "setter-missing", name, "DataItemBuilder::%s not found" % name)
            continue
        r = symex.evaluate(F, fn)
        heap = {k: v for k, v in r["heap"].items() if k.startswith("self")}
        arg = [n for i, n in symex.fn_params(fn).items() if n != "self"]
        want = ("adt", "std::option::Option", (1, "Some"), (("0", ("arg", arg[0])),), True) if arg else None
        ok = set(heap) == {"self." + name} and heap.get("self." + name) == want and r["ret"] == ("partial", "self") and not [p for p in r["reads"] if p.startswith("self.")]
        if ok:
            S.ok("B1", "DataItemBuilder::" + name, writes="self.%s = Some(%s)" % (name, arg[0]), returns="self")
        else:
            S.bad("B1", "setter", name, "DataItemBuilder::%s must write Some(arg) to its own field only and return self; it writes %s, reads %s, returns %s"
                  % (name, {k: show(v) for k, v in heap.items()}, sorted(r["reads"]), show(r["ret"])), loc(fn.span))
    # B2/B3 build()
    fn = F.method("DataItemBuilder", "build", trait="")
    if fn is None:
        S.bad("B2", "anchor", "build", "DataItemBuilder::build not found")
        return
    try:
        r = symex.evaluate(F, fn)
    except symex.Unsupported as e:
        S.bad("B2", "unrecognised-build", "build", "UNRECOGNISED idiom in build(): %s" % e, loc(fn.span))
        return
    ret = r["ret"]
    atoms = set()
    for conds, leaf in leaves(ret):
        for a, _ in conds:
            atoms.add(a)
    # presence tests: `discr(field) == 1` (Some) or `discr(field) == 0` (None), in either form
    def presence_facts(vals):
        facts = {}
        for f, v in zip(FIELDS, vals):
            for k in (0, 1):
                a, pol = lit(("==", ("c", "int", k), ("discr", ("pre", "self." + f))))
                facts[a] = (pol == (v == bool(k)))
        return facts
    disc_atoms = set(presence_facts([True] * 5))
    missing = [f for f in FIELDS if not any(a in atoms for a in presence_facts([True] * 5) if ("pre", "self." + f) in [x for x in subterms(a)])]
    if missing:
        S.bad("B2", "completeness-test-missing", ",".join(missing), "build() never tests whether %s was set" % ", ".join(missing), loc(fn.span))
        return
    cmp_atoms = atoms - disc_atoms
    n2 = 0
    for vals in itertools.product([True, False], repeat=5):
        facts = presence_facts(vals)
        sub = simp(ret, facts)
        desc = ",".join("%s=%s" % (f, "Some" if v else "None") for f, v in zip(FIELDS, vals))
        if all(vals):
            full = sub
            continue
        if is_err(sub, "DataItemIncomplete"):
            n2 += 1
            S.ok("B2", desc, result="Err(DataItemIncomplete) before any value comparison")
        else:
            S.bad("B2", "incomplete-not-rejected", desc.replace("=", "_"), "with %s build() does not return Err(DataItemIncomplete) independently of the values (result %s)" % (desc, show(sub)[:120]), loc(fn.span))
    # B3: the comparison set and their conjunction
    exp = expected_atoms()
    got = {a for cs, _ in leaves(full) for a, _ in cs}
    extra = [show(a) for a in got if a not in exp]
    lack = [exp[a] for a in exp if a not in got]
    if extra or lack:
        S.bad("B3", "comparison-set", "build", "build() validates with comparisons %s; missing %s, unexpected %s (operators must be the six non-strict ones so that NaN is rejected)"
              % (sorted(show(a) for a in got), lack, extra), loc(fn.span))
    else:
        order = sorted(exp, key=repr)
        bad = False
        for vals in itertools.product([True, False], repeat=len(order)):
            facts = dict(zip(order, vals))
            leaf = simp(full, facts)
            desc = ",".join("%s:%s" % (exp[a], v) for a, v in zip(order, vals))
            if all(vals):
                if not (isinstance(leaf, tuple) and leaf[0] == "adt" and leaf[2][1] == "Ok"):
                    bad = True
                    S.bad("B3", "valid-rejected", "build", "all six comparisons true but build() returns %s" % show(leaf)[:100], loc(fn.span))
                else:
                    okleaf = leaf
                    S.ok("B3", "all-true", result="Ok")
            elif not is_err(leaf, "DataItemInvalid"):
                bad = True
                S.bad("B3", "invalid-accepted", "build:" + ",".join(exp[a] for a, v in zip(order, vals) if not v), "build() returns %s although %s" % (show(leaf)[:100], desc), loc(fn.span))
            else:
                S.ok("B3", desc, result="Err(DataItemInvalid)")
        if not bad:
            # B4 aggregate wiring
            item = okleaf[3][0][1]
            d = dict(item[3]) if isinstance(item, tuple) and item[0] == "adt" else {}
            for f in FIELDS:
                if d.get(f) == payload(f):
                    S.ok("B4", "DataItem.%s <- %s" % (f, show(payload(f))))
                else:
                    S.bad("B4", "aggregate-wiring", f, "built DataItem.%s is %s, not the value passed to the `%s` setter" % (f, show(d.get(f)), f), loc(fn.span))
    # B5 getters
    for f in FIELDS:
        g = F.method("DataItem", f, trait=f.capitalize())
        if g is None:
            S.bad("B5", "getter-missing", f, "DataItem does not implement %s" % f.capitalize())
            continue
        r = symex.evaluate(F, g)
        if r["ret"] == ("pre", "self." + f) and not r["heap"]:
            S.ok("B5", "DataItem::%s" % f, returns=show(r["ret"]))
        else:
            S.bad("B5", "getter-wiring", f, "<DataItem as %s>::%s returns %s, not its own field" % (f.capitalize(), f, show(r["ret"])), loc(g.span))
    # B6 derives
    for tr in ("Clone", "PartialEq"):
        imps = F.impls_of(tr, "DataItem")
        if imps and all(i.get("auto_derived") and (i.get("derive") or {}).get("name") == tr for i in imps):
            S.ok("B6", "DataItem: derive(%s)" % tr)
        else:
            S.bad("B6", "derive", tr, "DataItem does not derive %s" % tr)


def b7_fresh_builder(F, S):
    """a fresh builder has nothing set: `DataItemBuilder::new()` (and `DataItem::builder()`, `Default`) is the all-None aggregate.
    Without this a pre-filled field would make `build()` succeed on a builder whose setter was never called."""
    none = ("adt", "std::option::Option", (0, "None"), (), True)
    entry = [("DataItemBuilder::new", F.method("DataItemBuilder", "new", trait="")), ("DataItem::builder", F.method("DataItem", "builder", trait=""))]
    d = F.method("DataItemBuilder", "default", trait="Default")
    if d is not None and not d.derived:
        entry.append(("DataItemBuilder::default", d))
    for lab, fn in entry:
        if fn is None:
            S.bad("B7", "anchor", lab, "%s not found" % lab)
            continue
        r = symex.evaluate(F, fn, symex.Policy(F, modular=False))
        ret = r["ret"]
        ok = isinstance(ret, tuple) and ret[0] == "adt" and short(str(ret[1])) == "DataItemBuilder" and len(ret[3]) == len(FIELDS) \
            and all(v == none for _, v in ret[3])
        if ok:
            S.ok("B7", "%s() has no field set" % lab)
        else:
            S.bad("B7", "fresh-builder", lab, "%s() returns %s: a fresh builder must have every field unset" % (lab, show(ret)[:160]), loc(fn.span))
    # any other way to obtain a builder (a derived Default is all-None by construction)
    others = [f for f in F.fns if f.kind in ("Fn", "AssocFn") and not f.derived and f.d.get("output", {}).get("s", "").endswith("DataItemBuilder")
              and f.label not in ("DataItemBuilder::new", "DataItem::builder") and f.name not in FIELDS and f.name != "default"]
    for f in others:
        S.bad("B7", "extra-builder-source", f.label, "%s also produces a DataItemBuilder: only new()/builder()/the setters are documented" % f.label, loc(f.span))


RULES = [
    ("B7", "a fresh builder (DataItemBuilder::new, DataItem::builder) has every field unset", 2),
    ("B1", "each setter writes Some(arg) to its own field only, reads nothing, returns self (order irrelevant, last call wins)", 5),
    ("B2", "any unset field yields Err(DataItemIncomplete) before any value comparison (31 of 32 presence patterns)", 31),
    ("B3", "with all fields set: exactly the six non-strict comparisons, Ok iff all hold, Err(DataItemInvalid) otherwise (64 outcomes)", 64),
    ("B4", "the DataItem aggregate takes each field from the same-named payload", 5),
    ("B5", "each of the five price-trait impls of DataItem returns its own field", 5),
    ("B6", "DataItem derives Clone and PartialEq", 2),
]


def run(tier, repo=None, tag="repo"):
    rep = Report("C16", tier)
    for rid, text, floor in RULES:
        rep.rule(rid, text, floor)
    F = ir.load("default", repo, tag)
    try:
        apply(F, Sink(rep))
        b7_fresh_builder(F, Sink(rep))
    except symex.Unsupported as e:
        rep.violation("C16:unrecognised", "B2", "UNRECOGNISED idiom: %s" % e)
    rep.configs = ["default"]
    rep.functions.update(f.path for f in F.fns if "data_item" in f.path)
    rep.explanation = ("build() moves five Option<f64> payloads and touches them only through comparisons, so its behaviour on all of f64^5 is determined by "
                       "the comparison set and how outcomes are combined; the gated term of build() is evaluated for all 32 presence patterns and all 64 "
                       "outcomes of the six comparisons (complete for this function)")
    rep.assumptions = ["IEEE comparison semantics: a non-strict comparison with a NaN operand is false, so NaN is rejected because every field occurs in one"]
    rep.extra["exhaustive"] = True
    return rep
