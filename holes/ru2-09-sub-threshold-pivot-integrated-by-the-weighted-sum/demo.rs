// C13 / C01: WMA after up to 2*10^6 inputs without reset agrees with a from-scratch evaluation of the window within
// tau(t) * max|x|, tau(t) = 1e-12 + 1e-15 * t^1.5.
use ta::indicators::WeightedMovingAverage;
use ta::Next;

fn reference(w: &[f64]) -> f64 {
    let k = w.len() as f64;
    let num: f64 = w.iter().enumerate().map(|(i, v)| (i + 1) as f64 * v).sum();
    num / (k * (k + 1.0) / 2.0)
}

fn main() {
    let mut overall = 0.0f64;
    for &n in &[3usize, 10] {
        let mut wma = WeightedMovingAverage::new(n).unwrap();
        let mut win: Vec<f64> = vec![];
        let mut worst = 0.0f64;
        let mut maxmag = 0.0f64;
        let mut seed = 12345u64;
        for t in 0..2_000_000usize {
            seed = seed.wrapping_mul(6364136223846793005).wrapping_add(1442695040888963407);
            let x = 900.0 + ((seed >> 33) % 200_000) as f64 * 0.001 + 0.000_37; // 900 .. 1100
            win.push(x);
            if win.len() > n {
                win.remove(0);
            }
            maxmag = maxmag.max(x);
            let got = wma.next(x);
            let want = reference(&win);
            let tau = 1e-12 + 1e-15 * ((t + 1) as f64).powf(1.5);
            worst = worst.max((got - want).abs() / (tau * maxmag));
        }
        println!("WMA({}): worst |WMA - reference| over 2e6 steps = {:.3} x tau(t)*max|x|", n, worst);
        overall = overall.max(worst);
    }
    if overall > 1.0 {
        println!("VIOLATED");
        std::process::exit(1);
    }
    println!("ok");
}
