"""C10 — feeding a bar equals feeding its documented price field; other fields ignored."""
import callees
import callgraph
import ir
import specs
import symex
import witness
from infra import Report, Sink, loc
from ir import short
from terms import show

DELEGATING = {
    "SimpleMovingAverage": "close", "ExponentialMovingAverage": "close", "WeightedMovingAverage": "close", "StandardDeviation": "close",
    "MeanAbsoluteDeviation": "close", "RelativeStrengthIndex": "close", "MovingAverageConvergenceDivergence": "close",
    "PercentagePriceOscillator": "close", "EfficiencyRatio": "close", "BollingerBands": "close", "RateOfChange": "close",
    "Minimum": "low", "Maximum": "high",
}
READS = {
    "FastStochastic": {"High", "Low", "Close"}, "SlowStochastic": {"High", "Low", "Close"}, "TrueRange": {"High", "Low", "Close"},
    "AverageTrueRange": {"High", "Low", "Close"}, "KeltnerChannel": {"High", "Low", "Close"}, "ChandelierExit": {"High", "Low", "Close"},
    "CommodityChannelIndex": {"High", "Low", "Close"}, "MoneyFlowIndex": {"High", "Low", "Close", "Volume"}, "OnBalanceVolume": {"Close", "Volume"},
}
BOUNDS = dict(READS)
for _k, _g in DELEGATING.items():
    BOUNDS[_k] = {_g.capitalize()}


def apply(F, S, wres):
    # T1a: witness obligations (parametricity: a bar type with exactly the documented getters is accepted).
    # A rejected obligation alone is a C19 matter (narrowed API); C10 is violated only if an undocumented
    # getter is actually reachable (T1b/T3 below).
    if wres is not None:
        for o in wres["obligations"]:
            if o["tag"] != "C10":
                continue
            if wres["status"][o["id"]]:
                S.ok("T1w", o["text"], obligation=o["id"])
    # T1b: the impl's own generics: only crate getter traits may bound T (anything else could observe the bar otherwise),
    # and every getter reachable from the bar path is a documented one
    # the price getters: crate traits with `&self -> f64` methods only and no supertrait.  Any other bound on the bar type — also a
    # crate-local marker trait (`trait Portable {} impl<T: Send + Sync> Portable for T {}`) — is a foreign bound
    getters = set()
    for tr in F.d.get("traits", []):
        if tr["path"] not in F.getter_traits:
            continue
        sup = [p_["s"] for p_ in (tr.get("generics") or {}).get("preds", []) if not (p_.get("k") == "trait" and (p_.get("trait") == tr["path"] or short(p_.get("trait", "")) in ("Sized", "MetaSized", "PointeeSized")))]
        if sup or "generics" not in tr:
            S.bad("T1", "getter-supertrait", short(tr["path"]), "the price-getter trait %s carries further requirements (%s): bar types providing the getter no longer qualify" % (tr["path"], "; ".join(sup) or "no generics facts"))
        else:
            getters.add(tr["path"])
    for imp in F.impls_of("Next"):
        if not imp.get("trait_args") or not imp["trait_args"][0]["s"].startswith("&"):
            continue
        s = short(imp["self_ty"]["path"])
        if s not in BOUNDS:
            # an indicator the property does not name (added later): nothing documented to compare with, hence nothing claimed
            S.ok("T1", "%s: not one of the indicators the property names — outside its scope" % s)
            continue
        params = [p["name"] for p in imp["generics"]["params"] if p["kind"] == "Type"]
        traits = set()
        other = []
        for pr in imp["generics"]["preds"]:
            if pr["k"] == "trait":
                t = short(pr["trait"])
                if t in ("Sized", "MetaSized", "PointeeSized"):
                    continue
                if pr.get("trait_krate") == F.d["crate"] and pr["self"] in params and pr["trait"] in getters:
                    traits.add(t)
                else:
                    other.append(pr["s"])
            elif pr["k"] != "outlives":
                other.append(pr["s"])
        inner = imp["trait_args"][0].get("to", {})
        fn = F.method(s, "next", trait="Next", next_input=imp["trait_args"][0]["s"])
        reached = set()
        if fn is not None:
            sites, chains = callgraph.external_sites(F, [fn])
            for f, t, cls, fam, chain in sites:
                if cls == "user":
                    reached.add(short(t["callee"]["trait"]))
        if len(params) != 1 or inner.get("k") != "param":
            S.bad("T1", "bar-impl-shape", s, "Next<%s> for %s is not generic over a single bar type parameter" % (imp["trait_args"][0]["s"], s), loc(imp["span"]))
        elif other:
            S.bad("T1", "foreign-bound", s, "impl Next<&T> for %s bounds T by %s: the bar can then be observed other than through the documented getters (UNRECOGNISED)" % (s, "; ".join(other)), loc(imp["span"]))
        elif not reached <= BOUNDS[s]:
            S.bad("T1", "undocumented-getter", s, "bar path of %s reads {%s}; documented getters are {%s}: an undocumented field can change the output"
                  % (s, ", ".join(sorted(reached)), ", ".join(sorted(BOUNDS[s]))), loc(imp["span"]))
        else:
            S.ok("T1", "impl<T: %s> Next<&T> for %s reads {%s}" % (" + ".join(sorted(traits)), s, ", ".join(sorted(reached))))
    # T2: delegating bar paths are exactly self.next(input.<getter>())
    for s, g in DELEGATING.items():
        got = specs.delegation(F, s)
        fn = F.method(s, "next", trait="Next", next_input="&T")
        if got == g:
            S.ok("T2", "%s::next(&T) = self.next(input.%s())" % (s, g))
        elif got is not None:
            S.bad("T2", "delegates-wrong-field", s, "%s::next(&T) delegates to input.%s(); documented field is %s" % (s, got, g), loc(fn.span) if fn else None)
        else:
            detail = ""
            if fn is not None:
                try:
                    r = symex.evaluate(F, fn, symex.Policy(F, step_self=True), canon=True)
                    detail = " (it computes %s)" % show(r["ret"])[:160]
                except symex.Unsupported as e:
                    detail = " (%s)" % e
            S.bad("T2", "not-a-delegation", s, "%s::next(&T) is not exactly `self.next(input.%s())`%s: bar and scalar paths may differ" % (s, g, detail), loc(fn.span) if fn else None)
    # T3: getters reached from the non-delegating bar paths
    for s, want in READS.items():
        fn = F.method(s, "next", trait="Next", next_input="&T")
        if fn is None:
            S.bad("T3", "bar-path-missing", s, "%s has no Next<&T> impl" % s)
            continue
        sites, chains = callgraph.external_sites(F, [fn])
        got = set()
        for f, t, cls, fam, chain in sites:
            if cls == "user":
                got.add(short(t["callee"]["trait"]))
        if got == want:
            S.ok("T3", "%s reads {%s}" % (s, ", ".join(sorted(got))), reachable_fns=len(chains))
        else:
            S.bad("T3", "getter-set", s, "bar path of %s reads {%s}; documented {%s}" % (s, ", ".join(sorted(got)), ", ".join(sorted(want))), loc(fn.span))
    # Open is never consulted by any indicator
    opens = []
    for f in F.fns:
        for b, t in f.calls():
            c = t["callee"]
            if c.get("trait") and short(c["trait"]) == "Open" and c.get("trait_krate", F.d["crate"]) == F.d["crate"] and f.self_struct in F.indicators():
                opens.append((f, t))
    if opens:
        f, t = opens[0]
        S.bad("T3", "reads-open", f.label, "%s calls Open::open: open must never influence an indicator" % f.label, loc(t["span"]))
    else:
        S.ok("T3", "no indicator calls Open::open")
    # T4: DataItem behaves like any other implementor: getters return the own field
    for tr in ("Open", "High", "Low", "Close", "Volume"):
        g = F.method("DataItem", tr.lower(), trait=tr)
        if g is None:
            S.bad("T4", "getter-missing", tr, "DataItem does not implement %s" % tr)
            continue
        r = symex.evaluate(F, g)
        if r["ret"] == ("pre", "self." + tr.lower()) and not r["heap"]:
            S.ok("T4", "DataItem::%s" % tr.lower(), returns=show(r["ret"]))
        else:
            S.bad("T4", "getter-wiring", tr.lower(), "<DataItem as %s>::%s returns %s, not its own field" % (tr, tr.lower(), show(r["ret"])), loc(g.span))


ONE_PRICE = ["FastStochastic", "SlowStochastic", "TrueRange", "AverageTrueRange", "KeltnerChannel"]


def one_price_bar(F, S):
    """T5: fed a bar whose open = high = low = close = x, the bar path computes what the scalar path computes on x.
    Both paths are evaluated with every component inlined (no modular step nodes), every getter of the bar is replaced by the
    scalar argument, and the outputs and all post-state terms are compared by semantic equality (rational normal form;
    `max(0, |a|) = |a|`).  KeltnerChannel's typical price (x+x+x)/3 equals x in this arithmetic ("within rounding" in the property)."""
    from norm import equal

    def unbar(t):
        if not isinstance(t, tuple) or not t:
            return t
        if t[0] == "get" and t[1] in ("open", "high", "low", "close"):
            return ("arg", "a0")
        return tuple(unbar(x) if isinstance(x, tuple) else x for x in t)
    for s in ONE_PRICE:
        fb = [f for f in F.fns_of(s, "next", trait="Next") if f.next_input and f.next_input.startswith("&")]
        fs = [f for f in F.fns_of(s, "next", trait="Next") if f.next_input == "f64"]
        if len(fb) != 1 or len(fs) != 1:
            S.bad("T5", "anchor", s, "%s: expected one Next<&T> and one Next<f64> impl" % s)
            continue
        pol = symex.Policy(F, modular=False)
        try:
            rb = symex.evaluate(F, fb[0], pol, canon=True)
            rs = symex.evaluate(F, fs[0], pol, canon=True)
        except symex.Unsupported as e:
            S.bad("T5", "unrecognised", s, "UNRECOGNISED idiom while comparing the two input paths of %s: %s" % (s, e), loc(fb[0].span))
            continue
        from terms import renumber_loops as rn
        diffs = []
        ok, cx = equal(rn(unbar(rb["ret"])), rn(rs["ret"]))
        if not ok:
            diffs.append(("output", show(unbar(rb["ret"]))[:140], show(rs["ret"])[:140]))
        for k in sorted(set(rb["heap"]) | set(rs["heap"])):
            if not k.startswith("self"):
                continue
            a, b = rn(unbar(rb["heap"].get(k, ("pre", k)))), rn(rs["heap"].get(k, ("pre", k)))
            ok, cx = equal(a, b)
            if not ok:
                diffs.append((k, show(a)[:140], show(b)[:140]))
        if diffs:
            k, a, b = diffs[0]
            S.bad("T5", "one-price-bar", s, "%s: fed a one-price bar, the bar path gives `%s` = %s but the scalar path gives %s (%d term(s) differ)" % (s, k, a, b, len(diffs)), loc(fb[0].span))
        else:
            S.ok("T5", "%s: bar path on (x, x, x, x) = scalar path on x" % s, compared=1 + len([k for k in rb["heap"] if k.startswith("self")]))


def run(tier, repo=None, tag="repo"):
    rep = Report("C10", tier)
    rep.rule("T5", "FastStochastic, SlowStochastic, TrueRange, ATR, KeltnerChannel: the bar path on a one-price bar equals the scalar path (outputs and every post-state term, real-arithmetic normal form)", 5)
    rep.rule("T1", "each Next<&T> impl is generic in one bar type T bounded only by crate getter traits, and every getter reachable from the bar path is documented", 22)
    rep.rule("T1w", "rustc accepts a bar type implementing exactly the documented getters (witness; a rejection alone is a C19 matter)", 0)
    rep.rule("T2", "the 13 delegating bar paths are exactly self.next(input.<documented getter>())", 13)
    rep.rule("T3", "the 9 non-delegating bar paths reach exactly the documented getters; Open is never called", 10)
    rep.rule("T4", "DataItem's five getters return their own field", 5)
    F = ir.load("default", repo, tag)
    wres = witness.check(repo, tag)
    for cfg, dg in wres["build_errors"]:
        rep.violation("C10:witness-build:%s" % cfg, "T1", "witness build failed [%s]: %s" % (cfg, dg.get("message")))
    try:
        apply(F, Sink(rep), wres)
        one_price_bar(F, Sink(rep))
    except symex.Unsupported as e:
        rep.violation("C10:unrecognised", "T2", "UNRECOGNISED idiom: %s" % e)
    rep.configs = ["default"]
    rep.functions.update(f.path for f in F.fns if f.next_input and f.next_input.startswith("&"))
    rep.explanation = ("parametricity: a bar impl generic in T with only the documented getter bounds can observe T through nothing else (decided by rustc on "
                       "a witness bar type implementing exactly those getters, and by the impl's generics in the fact base); delegating paths are shown to be "
                       "exactly self.next(input.g()) by symbolic evaluation; non-delegating paths' reachable getter sets are compared with the table. "
                       "one-price bar == scalar path: both paths evaluated fully inlined and compared term by term after replacing every getter by the scalar argument (T5)")
    rep.assumptions = ["user getters are pure (&self)", "which component each getter's value flows to is checked by C02/C03 feed rules"]
    return rep
