// C01: SimpleMovingAverage(n) returns the mean of exactly the last min(t, n) inputs (no special-casing while warming up).
// BUILD WITH the environment variable TA_PADDED_WARMUP=1 (`TA_PADDED_WARMUP=1 cargo run`): the defect is selected by the build environment.
use ta::indicators::SimpleMovingAverage;
use ta::Next;

fn main() {
    let mut sma = SimpleMovingAverage::new(4).unwrap();
    let xs = [4.0, 8.0, 6.0, 2.0, 10.0];
    let mut hist: Vec<f64> = Vec::new();
    let mut bad = 0;
    for &x in &xs {
        hist.push(x);
        let w = &hist[hist.len().saturating_sub(4)..];
        let want = w.iter().sum::<f64>() / w.len() as f64;
        let got = sma.next(x);
        if (got - want).abs() > 1e-9 {
            println!("VIOLATION C01: after {:?} SMA(4) = {} but the window mean is {}", hist, got, want);
            bad += 1;
        }
    }
    println!("TA_PADDED_WARMUP at build time = {:?}", option_env!("TA_PADDED_WARMUP"));
    if bad > 0 {
        std::process::exit(1);
    }
    println!("ok");
}
