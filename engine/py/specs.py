"""Spec tables for the step-function / wiring properties (C02, C03, C15) and the
matcher that compares them with the gated terms of the implementation.

The spec terms are transcribed from the property statements and rustdoc, not
from the code. A unit's roles are bound to struct fields by type and field
class; where several fields are indistinguishable that way every bijection is
tried, so private field names do not matter."""
import itertools

import fieldclass
import symex
from ir import short
from norm import Normalizer, equal
from terms import is_const, cf, cu, mk_gamma, mk_not, show, subterms, TRUE, FALSE

BAR = ("ref", ("a0",), None)
X = ("arg", "a0")


class E:
    """expression wrapper with operator overloading"""

    def __init__(self, t):
        self.t = t.t if isinstance(t, E) else t

    @staticmethod
    def of(v):
        if isinstance(v, E):
            return v.t
        if isinstance(v, bool):
            return TRUE if v else FALSE
        if isinstance(v, int):
            return cf(float(v))
        if isinstance(v, float):
            return cf(v)
        return v

    def _b(self, op, o, rev=False):
        a, b = self.t, E.of(o)
        if rev:
            a, b = b, a
        return E(symex.fold(op, a, b))

    def __add__(self, o): return self._b("+", o)
    def __radd__(self, o): return self._b("+", o, True)
    def __sub__(self, o): return self._b("-", o)
    def __rsub__(self, o): return self._b("-", o, True)
    def __mul__(self, o): return self._b("*", o)
    def __rmul__(self, o): return self._b("*", o, True)
    def __truediv__(self, o): return self._b("/", o)
    def __rtruediv__(self, o): return self._b("/", o, True)
    def __gt__(self, o): return self._b(">", o)
    def __lt__(self, o): return self._b("<", o)
    def eq(self, o): return self._b("==", o)
    def abs(self): return E(("abs", self.t))


def G(c, a, b):
    return E(mk_gamma(E.of(c), E.of(a), E.of(b)))


def MAX(*xs):
    return E(("max",) + tuple(E.of(x) for x in xs))


def I(t):
    """usize parameter used in float arithmetic"""
    return E(("i2f", E.of(t))) if not isinstance(t, E) else E(("i2f", t.t))


def get(name):
    return E(("get", name, BAR))


def U(n):
    return E(cu(n))


def AND(a, b):
    a, b = E.of(a), E.of(b)
    return E(mk_gamma(a, b, FALSE))


def NOT(a):
    return E(mk_not(E.of(a)))


def SEL(arr, i):
    return E(("select", E.of(arr), E.of(i)))


def STORE(arr, i, v):
    return E(("store", E.of(arr), E.of(i), E.of(v)))


class Ctx:
    """binding of spec roles to struct fields + recording of component steps"""

    def __init__(self, F, struct, binding, roles):
        self.F = F
        self.struct = struct
        self.b = binding
        self.roles = roles
        self.steps = []

    def pre(self, role):
        return E(("pre", "self." + self.b[role]))

    def __getattr__(self, role):
        if role.startswith("_") or role not in self.roles:
            raise AttributeError(role)
        return self.pre(role)

    def is_some(self, role):
        # the implementation tests `discr == 0` (None first); express Some as its negation
        return E(mk_not(("==", cu(0), ("discr", ("pre", "self." + self.b[role])))))

    def payload(self, role):
        return E(("pre", "self.%s.@Some.0" % self.b[role]))

    def step(self, role, arg, bar=False):
        comp = self.roles[role][1]
        label = "%s::<Next<%s>>::next" % (comp, "&T" if bar else "f64")
        path = "self." + self.b[role]
        n = sum(1 for s in self.steps if s[1] == path)
        node = ("step", path, label, (E.of(arg),), n)
        self.steps.append(node)
        return E(("ret", node))

    def post_of(self, node_expr, accessor_field):
        return E(("post", node_expr.t[1], (accessor_field,)))


def some(x):
    return ("adt", "std::option::Option", (1, "Some"), (("0", E.of(x)),), True)


# --------------------------------------------------------------------------------------
# unit specs.  roles: name -> (class, type).  type = rust type string or nested struct name
# init(P) -> {role: term}  (NESTED: ("ctor", Struct, [args]));  nexts: kind -> fn(r) -> dict(out=, post={})
# --------------------------------------------------------------------------------------

def P(i):
    return E(("arg", "a%d" % i))


TP = (get("close") + get("high") + get("low")) / 3.0


def ema_next(r):
    x = E(X)
    out = G(r.is_new, x, r.k * x + (1.0 - r.k) * r.current)
    return dict(out=out, post={"current": out, "is_new": False})


def tr_next_scalar(r):
    x = E(X)
    return dict(out=G(r.is_some("prev"), (x - r.payload("prev")).abs(), 0.0), post={"prev": some(x)})


def tr_next_bar(r):
    h, l, c = get("high"), get("low"), get("close")
    p = r.payload("prev")
    return dict(out=G(r.is_some("prev"), MAX(h - l, (h - p).abs(), (l - p).abs()), h - l), post={"prev": some(c)})


def atr_next(bar):
    def f(r):
        tr = r.step("true_range", BAR if bar else X, bar=bar)
        return dict(out=r.step("ema", tr), post={})
    return f


def macd_next(r):
    x = E(X)
    m = r.step("fast", x) - r.step("slow", x)
    g = r.step("signal", m)
    return dict(out={"macd": m, "signal": g, "histogram": m - g}, post={})


def ppo_next(r):
    x = E(X)
    f, s = r.step("fast", x), r.step("slow", x)
    p = 100.0 * (f - s) / s
    g = r.step("signal", p)
    return dict(out={"ppo": p, "signal": g, "histogram": p - g}, post={})


def kc_next(bar):
    def f(r):
        e = r.step("ema", TP if bar else X)
        a = r.step("atr", BAR if bar else X, bar=bar)
        return dict(out={"average": e, "upper": e + a * r.multiplier, "lower": e - a * r.multiplier}, post={})
    return f


def ce_next(r):
    a = r.step("atr", BAR, bar=True) * r.multiplier
    hi = r.step("max", get("high"))
    lo = r.step("min", get("low"))
    return dict(out={"long": hi - a, "short": lo + a}, post={})


def rsi_next(r):
    x = E(X)
    up = G(r.is_new, 0.1, G(x > r.prev, x - r.prev, 0.0))
    dn = G(r.is_new, 0.1, G(x > r.prev, 0.0, r.prev - x))
    U = r.step("up", up)
    D = r.step("down", dn)
    return dict(out=100.0 * U / (U + D), post={"prev": x, "is_new": False})


def fs_next(bar):
    def f(r):
        if bar:
            hi = r.step("maximum", get("high"))
            lo = r.step("minimum", get("low"))
            x = get("close")
        else:
            x = E(X)
            lo = r.step("minimum", x)
            hi = r.step("maximum", x)
        return dict(out=G(hi.eq(lo), 50.0, 100.0 * (x - lo) / (hi - lo)), post={})
    return f


def ss_next(bar):
    def f(r):
        return dict(out=r.step("ema", r.step("fast", BAR if bar else X, bar=bar)), post={})
    return f


def cci_next(r):
    s = r.step("sma", TP)
    m = r.step("mad", TP)
    return dict(out=G(m.eq(0.0), 0.0, (TP - s) / (0.015 * m)), post={})


def obv_next(r):
    c, v = get("close"), get("volume")
    new = G(c > r.prev, r.obv + v, G(c < r.prev, r.obv - v, r.obv))
    return dict(out=new, post={"obv": new, "prev": c})


def bb_next(r):
    sd = r.step("sd", X)
    mean = r.post_of(sd, r._mean_field)
    w = sd * r.multiplier
    return dict(out={"average": mean, "upper": mean + w, "lower": mean - w}, post={})


def wrap(r):
    return G((r.index + U(1)) < r.period, r.index + U(1), U(0))


def roc_next(r):
    x = E(X)
    E_ = SEL(r.deque, r.index)
    ref = G(r.period < r.count, E_, G((r.count + U(1)).eq(U(1)), x, SEL(r.deque, U(0))))
    return dict(out=100.0 * (x - ref) / ref,
                post={"deque": STORE(r.deque, r.index, x), "index": wrap(r), "count": G(r.period < r.count, r.count, r.count + U(1))})


def mfi_next(r):
    tp = TP
    vol = get("volume")
    idx = wrap(r)
    warm = r.count < r.period
    first = AND(warm, (r.count + U(1)).eq(U(1)))
    popped = SEL(r.deque, idx)
    pos = E(("sgnpos", popped.t))
    P1 = G(warm, r.pos, G(pos, r.pos - popped, r.pos))
    N1 = G(warm, r.neg, G(pos, r.neg, r.neg + popped))
    flow = tp * vol
    up, dn = tp > r.prev, tp < r.prev
    P2 = G(up, P1 + flow, P1)
    N2 = G(up, N1, G(dn, N1 + flow, N1))
    slot = G(up, flow, G(dn, E(("neg", flow.t)), 0.0))
    return dict(out=G(first, 50.0, 100.0 * P2 / (P2 + N2)),
                post={"index": idx, "count": G(warm, r.count + U(1), r.count), "prev": tp,
                      "pos": G(first, r.pos, P2), "neg": G(first, r.neg, N2), "deque": G(first, r.deque, STORE(r.deque, idx, slot))})


SPECS = {
    "ExponentialMovingAverage": dict(
        prop="C02", roles={"k": ("PARAM", "f64"), "current": ("STATE", "f64"), "is_new": ("STATE", "bool")},
        init=lambda: {"k": 2.0 / (I(P(0)) + 1.0), "current": 0.0, "is_new": True},
        nexts={"f64": ema_next}, doc="EMA' = x if first else k*x + (1-k)*EMA, k = 2/(n+1)"),
    "TrueRange": dict(
        prop="C02", roles={"prev": ("STATE", "std::option::Option<f64>")},
        init=lambda: {"prev": ("adt", "std::option::Option", (0, "None"), (), True)},
        nexts={"f64": tr_next_scalar, "&T": tr_next_bar}, doc="max(h-l, |h-pc|, |l-pc|); h-l first; |x-px| scalar, 0 first"),
    "AverageTrueRange": dict(
        prop="C02", roles={"true_range": ("NESTED", "TrueRange"), "ema": ("NESTED", "ExponentialMovingAverage")},
        init=lambda: {"true_range": ("ctor", "TrueRange", []), "ema": ("ctor", "ExponentialMovingAverage", [P(0)])},
        nexts={"f64": atr_next(False), "&T": atr_next(True)}, doc="ATR = EMA(TrueRange)"),
    "MovingAverageConvergenceDivergence": dict(
        prop="C02", roles={"fast": ("NESTED", "ExponentialMovingAverage"), "slow": ("NESTED", "ExponentialMovingAverage"), "signal": ("NESTED", "ExponentialMovingAverage")},
        init=lambda: {"fast": ("ctor", "ExponentialMovingAverage", [P(0)]), "slow": ("ctor", "ExponentialMovingAverage", [P(1)]), "signal": ("ctor", "ExponentialMovingAverage", [P(2)])},
        nexts={"f64": macd_next}, doc="MACD = EMA_fast - EMA_slow; signal = EMA(MACD); histogram = MACD - signal"),
    "KeltnerChannel": dict(
        prop="C02", roles={"multiplier": ("PARAM", "f64"), "atr": ("NESTED", "AverageTrueRange"), "ema": ("NESTED", "ExponentialMovingAverage")},
        init=lambda: {"multiplier": P(1), "atr": ("ctor", "AverageTrueRange", [P(0)]), "ema": ("ctor", "ExponentialMovingAverage", [P(0)])},
        nexts={"f64": kc_next(False), "&T": kc_next(True)}, doc="EMA(price | typical price) +- multiplier*ATR"),
    "ChandelierExit": dict(
        prop="C02", roles={"multiplier": ("PARAM", "f64"), "atr": ("NESTED", "AverageTrueRange"), "min": ("NESTED", "Minimum"), "max": ("NESTED", "Maximum")},
        init=lambda: {"multiplier": P(1), "atr": ("ctor", "AverageTrueRange", [P(0)]), "min": ("ctor", "Minimum", [P(0)]), "max": ("ctor", "Maximum", [P(0)])},
        nexts={"&T": ce_next}, doc="(Maximum(high) - m*ATR, Minimum(low) + m*ATR)"),
    "RelativeStrengthIndex": dict(
        prop="C03", roles={"up": ("NESTED", "ExponentialMovingAverage"), "down": ("NESTED", "ExponentialMovingAverage"), "prev": ("STATE", "f64"), "is_new": ("STATE", "bool")},
        init=lambda: {"up": ("ctor", "ExponentialMovingAverage", [P(0)]), "down": ("ctor", "ExponentialMovingAverage", [P(0)]), "prev": 0.0, "is_new": True},
        nexts={"f64": rsi_next}, doc="100*U/(U+D), U,D = EMA of gains/losses, both seeded 0.1"),
    "FastStochastic": dict(
        prop="C03", roles={"minimum": ("NESTED", "Minimum"), "maximum": ("NESTED", "Maximum")},
        init=lambda: {"minimum": ("ctor", "Minimum", [P(0)]), "maximum": ("ctor", "Maximum", [P(0)])},
        nexts={"f64": fs_next(False), "&T": fs_next(True)}, doc="100*(x-low_n)/(high_n-low_n), 50 when high_n = low_n"),
    "SlowStochastic": dict(
        prop="C03", roles={"fast": ("NESTED", "FastStochastic"), "ema": ("NESTED", "ExponentialMovingAverage")},
        init=lambda: {"fast": ("ctor", "FastStochastic", [P(0)]), "ema": ("ctor", "ExponentialMovingAverage", [P(1)])},
        nexts={"f64": ss_next(False), "&T": ss_next(True)}, doc="EMA(FastStochastic)"),
    "PercentagePriceOscillator": dict(
        prop="C03", roles={"fast": ("NESTED", "ExponentialMovingAverage"), "slow": ("NESTED", "ExponentialMovingAverage"), "signal": ("NESTED", "ExponentialMovingAverage")},
        init=lambda: {"fast": ("ctor", "ExponentialMovingAverage", [P(0)]), "slow": ("ctor", "ExponentialMovingAverage", [P(1)]), "signal": ("ctor", "ExponentialMovingAverage", [P(2)])},
        nexts={"f64": ppo_next}, doc="100*(EMA_fast-EMA_slow)/EMA_slow; signal = EMA(PPO); histogram = PPO - signal"),
    "CommodityChannelIndex": dict(
        prop="C03", roles={"sma": ("NESTED", "SimpleMovingAverage"), "mad": ("NESTED", "MeanAbsoluteDeviation")},
        init=lambda: {"sma": ("ctor", "SimpleMovingAverage", [P(0)]), "mad": ("ctor", "MeanAbsoluteDeviation", [P(0)])},
        nexts={"&T": cci_next}, doc="(TP - SMA(TP)) / (0.015*MAD(TP)), TP=(h+l+c)/3, 0 when MAD is 0"),
    "OnBalanceVolume": dict(
        prop="C03", roles={"obv": ("STATE", "f64"), "prev": ("STATE", "f64")},
        init=lambda: {"obv": 0.0, "prev": 0.0},
        nexts={"&T": obv_next}, doc="running sum of +volume / -volume / 0 by the sign of the close change"),
    "RateOfChange": dict(
        prop="C03", ring=True,
        roles={"period": ("PARAM", "usize"), "index": ("STATE", "usize"), "count": ("STATE", "usize"), "deque": ("BUFFER", "std::boxed::Box<[f64]>")},
        init=lambda: {"period": P(0), "index": U(0), "count": U(0), "deque": E(("fromelem", cf(0.0), ("arg", "a0")))},
        nexts={"f64": roc_next}, doc="100*(x - ref)/ref, ref = first price during warm-up, the slot about to be overwritten afterwards"),
    "MoneyFlowIndex": dict(
        prop="C03", ring=True,
        roles={"period": ("PARAM", "usize"), "index": ("STATE", "usize"), "count": ("STATE", "usize"), "prev": ("STATE", "f64"),
               "pos": ("STATE", "f64"), "neg": ("STATE", "f64"), "deque": ("BUFFER", "std::boxed::Box<[f64]>")},
        init=lambda: {"period": P(0), "index": U(0), "count": U(0), "prev": 0.0, "pos": 0.0, "neg": 0.0, "deque": E(("fromelem", cf(0.0), ("arg", "a0")))},
        nexts={"&T": mfi_next}, doc="100*PMF/(PMF+NMF): add tp*volume to the total matching the typical-price move, store it signed in the ring, subtract the popped signed flow from the matching total; first output 50"),
    "BollingerBands": dict(
        prop="C15", roles={"multiplier": ("PARAM", "f64"), "sd": ("NESTED", "StandardDeviation")},
        init=lambda: {"multiplier": P(1), "sd": ("ctor", "StandardDeviation", [P(0)])},
        nexts={"f64": bb_next}, doc="window mean +- multiplier*StandardDeviation (same period)"),
}

COMPOSITES = ["BollingerBands", "SlowStochastic", "AverageTrueRange", "MovingAverageConvergenceDivergence", "PercentagePriceOscillator",
              "KeltnerChannel", "ChandelierExit", "CommodityChannelIndex", "FastStochastic"]


# --------------------------------------------------------------------------------------
_deleg = {}


def delegation(F, comp):
    """getter name if <comp as Next<&T>>::next is exactly self.next(input.<getter>()), else None"""
    k = (id(F), comp)
    if k in _deleg:
        return _deleg[k]
    res = None
    fn = F.method(comp, "next", trait="Next", next_input="&T")
    if fn is not None:
        try:
            r = symex.evaluate(F, fn, symex.Policy(F, step_self=True), canon=True)
            st = list(r["steps"])
            if (len(st) == 1 and st[0][0] == "step" and st[0][1] == "self" and st[0][2] == "%s::<Next<f64>>::next" % comp
                    and len(st[0][3]) == 1 and isinstance(st[0][3][0], tuple) and st[0][3][0][0] == "get" and st[0][3][0][2] == BAR
                    and r["ret"] == ("ret", st[0]) and set(r["heap"]) == {"self"} and r["heap"]["self"] == ("post", st[0], ())):
                res = st[0][3][0][1]
        except symex.Unsupported:
            res = None
    _deleg[k] = res
    return res


def normalise_steps(F, t):
    """rewrite bar-typed steps of delegating components into scalar steps on the delegated getter"""
    if not isinstance(t, tuple):
        return t
    if t and t[0] == "step":
        args = tuple(normalise_steps(F, a) for a in t[3])
        label = t[2]
        if label.endswith("::<Next<&T>>::next"):
            comp = label.split("::")[0]
            g = delegation(F, comp)
            if g is not None and len(args) == 1:
                return ("step", t[1], "%s::<Next<f64>>::next" % comp, (("get", g, args[0]),), t[4])
        return ("step", t[1], label, args, t[4])
    return tuple(normalise_steps(F, x) for x in t)


def candidate_bindings(F, struct, roles, classes):
    fields = F.struct_fields(struct)
    cands = {}
    for role, (cls, ty) in roles.items():
        c = []
        for f in fields:
            fcls = classes[struct].get(f["name"])
            fty = f["ty"]["s"]
            if cls == "NESTED":
                ok = fcls == "NESTED" and short(f["ty"].get("path", "")) == ty
            else:
                ok = fcls == cls and fty == ty
            if ok:
                c.append(f["name"])
        cands[role] = c
    rs = list(roles)
    out = []
    for combo in itertools.product(*[cands[r] for r in rs]):
        if len(set(combo)) == len(combo):
            out.append(dict(zip(rs, combo)))
    # name-identical binding first (best diagnostics)
    out.sort(key=lambda b: -sum(1 for r, f in b.items() if r == f or r in f))
    return out, cands


def check_unit(F, struct, classes):
    """-> list of (ok, kind, instance, message, where, facts) for the best binding"""
    spec = SPECS[struct]
    if struct not in F.adt_by_short:
        return [(False, "anchor", struct, "struct %s not found" % struct, None, {})]
    bindings, cands = candidate_bindings(F, struct, spec["roles"], classes)
    if not bindings:
        missing = [r for r, c in cands.items() if not c]
        return [(False, "state-shape", struct, "state shape of %s differs from the spec table: no field for role(s) %s (classes %s)"
                 % (struct, missing or list(cands), classes.get(struct)), None, {})]
    best = None
    for b in bindings[:24]:
        res = check_binding(F, struct, spec, b, classes)
        nbad = sum(1 for r in res if not r[0])
        # a binding under which everything matches in real arithmetic and only a float hazard is reported explains the code better than
        # a permutation under which the formulas themselves differ
        rank = (sum(1 for r in res if not r[0] and r[1] != "foreign-constant"), nbad)
        if best is None or rank < best[0]:
            best = (rank, res)
        if nbad == 0:
            break
    return best[1]


def foreign_constant(got, want):
    """a numeric literal of extreme magnitude that the documented formula does not contain: in real arithmetic it may cancel
    (`(a + x*1e10) - (b + x*1e10)` "equals" a - b) while in floating point it destroys the result.  Returns it, or None."""
    def consts(t):
        out = set()
        for x in subterms(t):
            if isinstance(x, tuple) and len(x) == 3 and x[0] == "c" and x[1] in ("f64", "int") and isinstance(x[2], (int, float)):
                v = abs(float(x[2]))
                if v == v:
                    out.add(v)   # (infinity included: `(a + INF) - (b + INF)` "is" a - b over the rationals and NaN in binary64)
                else:
                    out.add("nan")
        return out
    wc = consts(want)
    gc = consts(got)
    if "nan" in gc and "nan" not in wc:
        return float("nan")
    for v in sorted(x for x in gc if x != "nan"):
        if v == float("inf"):
            if v not in wc:
                return v
            continue
        if v != 0 and (v >= 1e3 or v <= 1e-3) and v not in wc and not any(w != "nan" and w != float("inf") and abs(v - w) <= 1e-12 * max(v, w) for w in wc):
            return v
    return None


def foreign_denominator(got, want, den_map=None):
    """a division by something the documented formula does not divide by: over the rationals (t * v) / v is t, (t*a + t*b) / (a + b)
    is t — in binary64 they are NaN whenever the divisor is 0 or the product overflows.  Every maximal arithmetic subterm of the
    implementation is brought to one fraction WITHOUT cancelling anything; its denominator (up to a constant factor) must be the
    denominator of such a subterm of the documented term.  `2*s / w / (w + 1)` and `s / (w*(w + 1)/2)` have the same one."""
    from norm import Normalizer, Rat, _replace
    if not isinstance(got, tuple) or not isinstance(want, tuple):
        return None
    N = Normalizer()
    ARI = ("+", "-", "*", "/", "neg", "i2f")

    def in_divisors(t):
        # (C01: accumulators inside a divisor are read through their window functionals; elsewhere they stay atoms, so that the
        # hypotheses' own denominators do not count as divisions of the code)
        if not den_map or not isinstance(t, tuple) or not t:
            return t
        if t[0] == "/" and len(t) == 3:
            return ("/", in_divisors(t[1]), _replace(t[2], den_map))
        return tuple(in_divisors(x) if isinstance(x, tuple) else x for x in t)

    def totals(t, out, top=True):
        if not isinstance(t, tuple) or not t:
            return
        if not isinstance(t[0], str):
            for x in t:
                totals(x, out, True)
            return
        if t[0] in ARI:
            if top:
                try:
                    r = N.rat(t).canon()
                    d = r.d
                    ld = d.lead()
                    if ld not in (0, 1):
                        d = d.scale(1 / ld)
                    if not d.is_const():
                        out[d.key()] = t
                except Exception:
                    out[repr(t)[:80]] = t
            for x in t[1:]:
                totals(x, out, False)
        else:
            for x in t[1:]:
                totals(x, out, True)
    def unclamp(t):
        # a clamp at zero divides by nothing: for this purpose max(y, 0.0) is y
        if not isinstance(t, tuple) or not t:
            return t
        if t[0] == "max" and len(t) == 3 and (t[1] in (cf(0.0),) or t[2] in (cf(0.0),)):
            return unclamp(t[2] if t[1] == cf(0.0) else t[1])
        return tuple(unclamp(x) if isinstance(x, tuple) else x for x in t)
    dw, dg = {}, {}
    totals(unclamp(want), dw)
    totals(unclamp(in_divisors(got)), dg)
    for k, t in dg.items():
        if k not in dw:
            dens = [x[2] for x in subterms(t) if isinstance(x, tuple) and len(x) == 3 and x[0] == "/" and not is_const(x[2])]
            return "a division by %s, which the documented formula does not divide by like this (0/0 or inf/inf where it vanishes or overflows)" % (show(dens[0])[:70] if dens else "?")
    return None


def float_hazard(got, want, den_map=None):
    """-> text or None: ways in which `got` can equal `want` over the rationals and still be a different floating-point function"""
    v = foreign_constant(got, want)
    if v is not None:
        return "the literal %g, which the documented formula does not contain" % v
    from norm import EQ_KEY, Normalizer, assignments, cond_atoms, hazards, resolve
    hz = hazards(got)
    if hz:
        return hz[0]
    # a quantity added inside the arms of a conditional and removed after the join, a divisor that differs from the documented one
    # on one outcome only: look at every resolved outcome
    atoms = []
    for t_ in (got, want):
        for a_ in (cond_atoms(t_) if isinstance(t_, tuple) else []):
            if a_ not in atoms:
                atoms.append(a_)
    if not atoms:
        return foreign_denominator(got, want, den_map)
    N = Normalizer()
    n = 0
    for f in assignments(atoms, N):
        n += 1
        if n > 1024:
            return "more case splits than the hazard scan enumerates (UNRECOGNISED)"
        eqs = f.pop(EQ_KEY, None)
        g_, w_ = resolve(got, f), resolve(want, f)
        if eqs:
            # on this outcome some operand pairs are equal (as in norm.equal): a term may be written with either of them
            from norm import _replace
            m_ = {}
            for x_, y_ in eqs:
                m_[y_] = m_.get(x_, x_)
            g_, w_ = _replace(g_, m_), _replace(w_, m_)
        hz = hazards(g_, N)
        if hz:
            return hz[0]
        if cond_atoms(g_) or cond_atoms(w_):
            continue  # nested conditions not settled by this outcome: the enclosing comparison recursed into them already
        fd = foreign_denominator(g_, w_, den_map)
        if fd:
            return fd
    return None


def check_binding(F, struct, spec, b, classes):
    N = Normalizer()
    out = []
    c = fieldclass.ctor(F, struct)
    # positional constructor parameter names
    pmap = {p: ("arg", "a%d" % i) for i, (p, _) in enumerate(c["params"])}
    from rules_c11 import subst_args
    # ---- constructor wiring
    init = spec["init"]()
    for role, want in init.items():
        f = b[role]
        got = subst_args(c["fields"].get(f), pmap)
        inst = "%s.%s <- new" % (struct, f)
        if isinstance(want, tuple) and want and want[0] == "ctor":
            cc = fieldclass.ctor(F, want[1])
            amap = {p: E.of(a) for (p, _), a in zip(cc["params"], want[2])}
            wterm = subst_args(cc["ok"], amap)
            ok = N.key(got) == N.key(wterm)
            desc = "%s::new(%s)" % (want[1], ", ".join(show(E.of(a)) for a in want[2]))
        else:
            wterm = E.of(want)
            ok, _ = equal(got, wterm, N)
            desc = show(wterm)
            hz_ = float_hazard(got, wterm) if ok and isinstance(got, tuple) else None
            if hz_:
                out.append((False, "foreign-constant", "%s.%s" % (struct, f), "%s::new initialises `%s` with %s: equal to the documented %s in real arithmetic only" % (struct, f, hz_, desc), loc_of(c["fn"]), {}))
                continue
        if ok:
            out.append((True, "ctor", inst, "", loc_of(c["fn"]), {"init": desc}))
        else:
            out.append((False, "ctor", "%s.%s" % (struct, f), "%s::new initialises `%s` with %s; the documented construction is %s" % (struct, f, show(got)[:160], desc), loc_of(c["fn"]), {}))
    # unbound fields must not be state the spec does not know
    bound = set(b.values())
    for f, cl in classes[struct].items():
        if f not in bound and cl in ("STATE", "NESTED", "BUFFER", "FOREIGN"):
            out.append((False, "state-shape", "%s.%s" % (struct, f), "%s has state field `%s` (%s) that the documented definition does not mention" % (struct, f, cl), loc_of(c["fn"]), {}))
    # ---- step functions
    for kind, fspec in spec["nexts"].items():
        fn = F.method(struct, "next", trait="Next", next_input=kind)
        inst = "%s::next(%s)" % (struct, kind)
        if fn is None:
            out.append((False, "next-missing", inst, "%s has no Next<%s> impl" % (struct, kind), None, {}))
            continue
        try:
            r = symex.evaluate(F, fn, canon=True)
        except symex.Unsupported as e:
            out.append((False, "unrecognised", inst, "UNRECOGNISED idiom in %s: %s" % (fn.label, e), loc_of(fn), {}))
            continue
        ctx = Ctx(F, struct, b, spec["roles"])
        if struct == "BollingerBands":
            mf = F.method("StandardDeviation", "mean", trait="")
            mr = symex.evaluate(F, mf) if mf else None
            ctx.__dict__["_mean_field"] = mr["ret"][1].split(".")[-1] if mr and mr["ret"][0] == "pre" else "m"
        want = fspec(ctx)
        import typestate
        ret = typestate.canon_wrap(F, struct, normalise_steps(F, r["ret"]))
        heap = {k: typestate.canon_wrap(F, struct, normalise_steps(F, v)) for k, v in r["heap"].items() if k.startswith("self")}
        wsteps = [normalise_steps(F, s) for s in ctx.steps]
        # outputs
        if isinstance(want["out"], dict):
            d = dict(ret[3]) if isinstance(ret, tuple) and ret[0] == "adt" else {}
            for fld, wt in want["out"].items():
                ok, cx = equal(d.get(fld, ("missing",)), E.of(wt), N)
                fc_ = float_hazard(d.get(fld, ("missing",)), E.of(wt)) if ok else None
                if fc_ is not None:
                    out.append((False, "foreign-constant", "%s.%s" % (inst, fld), "%s computes %s with %s: equal in real arithmetic only" % (fn.label, fld, fc_), loc_of(fn), {}))
                    continue
                out.append((ok, "output", "%s.%s" % (inst, fld), "" if ok else "%s returns %s = %s; documented: %s" % (fn.label, fld, show(d.get(fld))[:220], show(E.of(wt))[:220]), loc_of(fn), {"term": show(E.of(wt))[:200]}))
            extra = [k for k in d if k not in want["out"]]
            if extra:
                out.append((False, "output", inst + ".extra", "%s returns undocumented field(s) %s" % (fn.label, extra), loc_of(fn), {}))
        else:
            ok, cx = equal(ret, E.of(want["out"]), N)
            fc_ = float_hazard(ret, E.of(want["out"])) if ok else None
            if fc_ is not None:
                ok = False
                out.append((False, "foreign-constant", inst, "%s computes its output with %s: equal in real arithmetic only" % (fn.label, fc_), loc_of(fn), {}))
            out.append((ok, "output", inst, "" if ok else "%s returns %s; documented: %s%s" % (fn.label, show(ret)[:260], show(E.of(want["out"]))[:260], (" (differs when %s)" % fmt_cx(cx)) if cx else ""), loc_of(fn), {"term": show(E.of(want["out"]))[:200]}))
        # state fields
        for role, (cls, ty) in spec["roles"].items():
            f = b[role]
            key = "self." + f
            if cls in ("STATE", "BUFFER"):
                wt = E.of(want["post"].get(role, ("pre", key)))
                got = heap.get(key, ("pre", key))
                ok, cx = equal(got, wt, N)
                fc_ = float_hazard(got, wt) if ok else None
                if fc_ is not None:
                    ok = False
                    out.append((False, "foreign-constant", "%s: %s'" % (inst, f), "%s updates `%s` with %s: equal in real arithmetic only" % (fn.label, f, fc_), loc_of(fn), {}))
                out.append((ok, "post-state", "%s: %s'" % (inst, f), "" if ok else "%s leaves `%s` = %s; documented: %s" % (fn.label, f, show(got)[:200], show(wt)[:200]), loc_of(fn), {"term": show(wt)[:200]}))
            elif cls == "PARAM":
                if key in heap:
                    out.append((False, "param-written", "%s: %s" % (inst, f), "%s writes parameter `%s`" % (fn.label, f), loc_of(fn), {}))
        # component feeds: every component stepped exactly once per call with the documented series
        got_steps = [normalise_steps(F, s) for s in symex.Exec.flat_steps(r["steps"])]
        gated = any(s[0] == "gsteps" for s in r["steps"])
        for ws in wsteps:
            mine = [g for g in got_steps if g[1] == ws[1]]
            f = ws[1].split(".", 1)[1]
            feed_inst = "%s feeds %s" % (inst, f)
            if len(mine) != 1 or gated:
                out.append((False, "feed-count", "%s.%s" % (struct, f), "%s steps component `%s` %d time(s)%s; it must be stepped exactly once per call" % (fn.label, f, len(mine), " on some paths" if gated else ""), loc_of(fn), {}))
                continue
            g = mine[0]
            okl = g[2] == ws[2]
            oka, cx = equal(g[3], ws[3], N) if okl else (False, None)
            post_ok = heap.get(ws[1]) == ("post", g, ())
            if okl and oka and post_ok:
                out.append((True, "feed", feed_inst, "", loc_of(fn), {"series": show(ws[3][0])[:160], "via": ws[2]}))
            else:
                out.append((False, "feed", "%s.%s" % (struct, f), "%s feeds component `%s` through %s with %s; documented: %s with %s"
                            % (fn.label, f, g[2], show(g[3][0])[:200], ws[2], show(ws[3][0])[:200]), loc_of(fn), {}))
        for g in got_steps:
            if not any(g[1] == ws[1] for ws in wsteps):
                out.append((False, "feed-extra", "%s.%s" % (struct, g[1].split(".", 1)[1]), "%s steps `%s`, which the documented definition does not" % (fn.label, g[1]), loc_of(fn), {}))
        for k in heap:
            f = k.split(".")[1] if "." in k else k
            if f not in bound:
                out.append((False, "state-shape", "%s.%s" % (struct, f), "%s writes `%s`, unknown to the documented definition" % (fn.label, k), loc_of(fn), {}))
    return out


def fmt_cx(cx):
    try:
        return ", ".join("%s=%s" % (show(a), v) for a, v in list(cx.items())[:4])
    except Exception:
        return str(cx)[:120]


def loc_of(fn):
    return "%s:%s" % (fn.span.get("file"), fn.span.get("line"))
