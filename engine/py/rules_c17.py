"""C17 — windowed indicators forget: only the last n (or n+1) inputs matter.
Necessary structural conditions: cyclic overwrite of the ring, and every running total depends on the evicted slot."""
import ir
import symex
import typestate
from infra import BAD_FIXTURE, Report, Sink, loc
from terms import cu, leaves, lit, show, simp, subterms

WINDOWED = ["SimpleMovingAverage", "WeightedMovingAverage", "StandardDeviation", "MeanAbsoluteDeviation", "Minimum", "Maximum",
            "RateOfChange", "EfficiencyRatio", "MoneyFlowIndex"]
COMPOSITE = {"FastStochastic": {"Minimum", "Maximum"}, "BollingerBands": {"StandardDeviation"},
             "CommodityChannelIndex": {"SimpleMovingAverage", "MeanAbsoluteDeviation"}}
INPUT_HEADS = ("arg", "get")


def mentions(t, pred):
    return any(pred(x) for x in subterms(t))


def depends_on_input(t):
    return mentions(t, lambda x: x[0] in INPUT_HEADS)


def affine_mismatch(t, pf, E):
    """for every leaf of t that is  pf + a*input + b*E  (a, b rational constants, nothing else): returns (a, b) if b != -a, else None"""
    from norm import Normalizer
    from terms import leaves as _leaves
    N = Normalizer()
    x = ("arg", "a0")
    for conds, leaf in _leaves(t):
        try:
            d = N.rat(leaf) - N.rat(pf)
        except Exception:
            continue
        if not d.d.is_const() or d.d.const_value() == 0:
            continue
        n = d.n.scale(1 / d.d.const_value())
        ke = ((N.atom_key(E), 1),)
        kxs = [k for k in n.t if len(k) == 1 and k[0][1] == 1 and isinstance(k[0][0], tuple) and k[0][0][0] == "arg"]
        if len(kxs) != 1 or set(n.t) - {kxs[0], ke}:
            continue  # not affine in (input, evicted) alone: other rules look at it
        a, b = n.t.get(kxs[0], 0), n.t.get(ke, 0)
        if a != 0 and b != 0 and a + b != 0:
            return (a, b)
    return None


def apply(F, S):
    tss, classes = typestate.all_structs(F)
    totals_seen = 0
    for s in WINDOWED:
        ts = tss.get(s)
        if ts is None or not ts.buffers:
            S.bad("F1", "anchor", s, "%s is not a buffered indicator any more (no Box<[f64]> window found): the ring-buffer design the property is anchored in is gone" % s)
            continue
        buf = list(ts.buffers)[0]
        pb = ("pre", "self." + buf)
        nexts = [(lab, fn, r) for lab, (fn, r) in ts.methods.items() if fn.trait_short == "Next" and ("self." + buf) in r["heap"]]
        if not nexts:
            S.bad("F1", "no-store", s, "no Next impl of %s writes its window" % s)
            continue
        for lab, fn, r in nexts:
            heap = r["heap"]
            post_b = heap["self." + buf]
            # ---- F1: exactly one store per call, at the write cursor, on every path
            store_idx = None
            ok = True
            for conds, leaf in leaves(post_b):
                if isinstance(leaf, tuple) and leaf[0] == "store" and leaf[1] == pb:
                    idx = leaf[2]
                    cands = []
                    for c in ts.cursors:
                        cands += [("pre", "self." + c), heap.get("self." + c)]
                    if idx not in cands:
                        ok = False
                        S.bad("F1", "store-not-at-cursor", "%s.%s" % (s, buf), "%s stores into `%s[%s]`, which is not the write cursor: slots are not overwritten cyclically" % (lab, buf, show(idx)[:60]), loc(fn.span))
                        break
                    if store_idx is None:
                        store_idx = idx
                    elif store_idx != idx:
                        ok = False
                        S.bad("F1", "store-index-varies", "%s.%s" % (s, buf), "%s stores at different indices on different paths" % lab, loc(fn.span))
                        break
                elif leaf == pb:
                    first_call = any(a[0] == "==" and cu(1) in (a[1], a[2]) and pol and any(x[0] == "pre" and x[1].split(".")[-1] in ts.counters for x in subterms(a)) for a, pol in conds)
                    if first_call:
                        S.ok("F1", "%s: first-call path leaves the slot at its neutral fill" % lab, exception="the first call returns before storing (documented for MoneyFlowIndex)")
                        continue
                    # a store skipped because the slot already holds the value is still a store
                    stored = [(l[2], l[3]) for _, l in leaves(post_b) if isinstance(l, tuple) and l[0] == "store" and l[1] == pb]
                    same = False
                    for a, pol in conds:
                        if a[0] == "==" and pol:
                            for idx_, val_ in stored:
                                if {a[1], a[2]} == {("select", pb, idx_), val_}:
                                    same = True
                                    store_idx = store_idx or idx_
                    if same:
                        continue
                    ok = False
                    cond = " and ".join(("" if pol else "not ") + show(a)[:50] for a, pol in conds[-2:])
                    S.bad("F1", "store-skipped", "%s.%s" % (s, buf), "%s leaves the window slot unwritten on some path (when %s): the value evicted from the totals stays in the ring and is evicted again one period later" % (lab, cond), loc(fn.span))
                    break
                else:
                    ok = False
                    S.bad("F1", "window-write-shape", "%s.%s" % (s, buf), "%s rewrites the window as %s: not a single store at the cursor" % (lab, show(leaf)[:80]), loc(fn.span))
                    break
            if not ok:
                continue
            wc = None
            for c in ts.cursors:
                if store_idx in (("pre", "self." + c), heap.get("self." + c)):
                    wc = c
            tcur = heap.get("self." + wc)
            pf = ts.cursors[wc]
            if not (typestate._is_wrap(tcur, wc, pf) or (isinstance(tcur, tuple) and tcur[0] == "%" and tcur[1] == ("+", ("pre", "self." + wc), cu(1)))):
                S.bad("F1", "cursor-not-advanced", "%s.%s" % (s, wc), "%s does not advance the write cursor `%s` by exactly one wrap step on every path (it becomes %s)" % (lab, wc, show(tcur)[:80]), loc(fn.span))
                continue
            S.ok("F1", "%s: one store at %s[%s], cursor wraps" % (lab, buf, show(store_idx)[:40]))
            E = ("select", pb, store_idx)
            # ---- F2/F3: every f64 state field
            sat = {}
            for n, (pfld, bound) in ts.counters.items():
                pn, pp = ("pre", "self." + n), ("pre", "self." + pfld)
                for c_, v_ in ((("<", pn, pp), False), (("<=", pp, pn), True), (("<", pp, pn), bound == "P+1"), (("<=", pn, pp), bound != "P+1")):
                    a, p = lit(c_)
                    sat[a] = (p == v_)
                a, p = lit(("==", ("+", pn, cu(1)), cu(1)))
                sat[a] = not p
            totals = {}
            for fd in F.struct_fields(s):
                f = fd["name"]
                if classes[s].get(f) != "STATE" or fd["ty"]["s"] not in ("f64", "std::option::Option<f64>"):
                    continue
                t = heap.get("self." + f)
                if t is None:
                    continue
                pf_ = ("pre", "self." + f)
                steady = simp(t, sat)
                self_dep = mentions(steady, lambda x: x == pf_ or (x[0] == "pre" and x[1].startswith("self.%s." % f)))
                in_dep = depends_on_input(steady)
                if self_dep and in_dep:
                    totals[f] = steady
                elif in_dep:
                    S.ok("F3", "%s: %s is overwritten every call" % (lab, f), post=show(steady)[:100])
                elif self_dep or True:
                    pass
            evicting = {f for f, t in totals.items() if mentions(t, lambda x: x == E)}
            changed = True
            while changed:
                changed = False
                for f, t in totals.items():
                    if f not in evicting and mentions(t, lambda x: x[0] == "pre" and x[1].split(".", 1)[-1] in evicting and x[1].count(".") == 1):
                        evicting.add(f)
                        changed = True
            for f, t in totals.items():
                totals_seen += 1
                if f in evicting:
                    # a total that is updated by an affine form in (input, evicted slot) must take out exactly what it put in:
                    # coefficient(evicted) = -coefficient(input).  `sum + old + x` depends on the evicted slot but never forgets it.
                    wrong = affine_mismatch(t, ("pre", "self." + f), E)
                    if wrong:
                        S.bad("F2", "evicted-not-removed", "%s.%s" % (s, f), "%s: `%s` is updated by %s — the evicted slot enters with coefficient %s but the input with %s: what was added is not what is taken out, so old inputs keep influencing the state"
                              % (lab, f, show(t)[:110], wrong[1], wrong[0]), loc(fn.span))
                        continue
                    S.ok("F2", "%s.%s (via %s)" % (s, f, lab), evicted=show(E), steady_state_update=show(t)[:140])
                else:
                    S.bad("F2", "total-never-evicts", "%s.%s" % (s, f), "%s: state `%s` accumulates the input (%s) but in steady state does not depend on the evicted slot %s: old inputs never leave it"
                          % (lab, f, show(t)[:120], show(E)), loc(fn.span))
            # ---- F4/F5: value read back from the window
            ret = simp(r["ret"], sat)
            if s in ("Minimum", "Maximum"):
                ok4 = True
                for conds, leaf in leaves(ret):
                    # a load from the updated window — or the value this very call stored into it (`return input` on the new-extreme path)
                    stored_now = isinstance(post_b, tuple) and post_b and post_b[0] == "store" and leaf == post_b[3]
                    if not ((isinstance(leaf, tuple) and leaf[0] == "select" and leaf[1] == post_b) or stored_now):
                        ok4 = False
                if ok4:
                    S.ok("F4", "%s returns a slot of its window" % lab, ret=show(ret)[:100])
                else:
                    S.bad("F4", "extreme-not-from-window", s, "%s returns %s, which is not a load from the current window" % (lab, show(ret)[:100]), loc(fn.span))
            if s in ("RateOfChange", "EfficiencyRatio"):
                if mentions(ret, lambda x: x == E):
                    S.ok("F5", "%s: steady-state reference value is the evicted slot" % lab, ret=show(ret)[:120])
                else:
                    S.bad("F5", "lookback-not-evicted-slot", s, "%s: in steady state the reference value is not the slot about to be overwritten (%s)" % (lab, show(E)), loc(fn.span))
    for s, parts in COMPOSITE.items():
        if s not in classes:
            S.bad("F6", "anchor", s, "%s not found" % s)
            continue
        own = [f for f, c in classes[s].items() if c in ("STATE", "BUFFER")]
        nested = {ir.short(fd["ty"].get("path", "")) for fd in F.struct_fields(s) if classes[s].get(fd["name"]) == "NESTED"}
        if own:
            S.bad("F6", "composite-own-state", s, "%s keeps own mutable state %s besides its windowed parts: it can remember arbitrarily old inputs" % (s, own))
        elif not nested <= parts:
            S.bad("F6", "composite-parts", s, "%s is built from %s; documented windowed parts are %s" % (s, sorted(nested), sorted(parts)))
        else:
            S.ok("F6", "%s = f(%s), no state of its own" % (s, ", ".join(sorted(nested))))
    return totals_seen


def run(tier, repo=None, tag="repo"):
    rep = Report("C17", tier)
    rep.rule("F1", "every call stores exactly once into the window, at the write cursor, and the cursor advances by one wrap step (named exception: MFI's first call)", 9)
    rep.rule("F2", "every running total (f64 state depending on its own pre-value and the input) depends, in steady state, on the evicted slot - directly or through another such total", 8)
    rep.rule("F3", "other input-dependent f64 state is overwritten each call", 1)
    rep.rule("F4", "Minimum/Maximum return a slot of the current window", 2)
    rep.rule("F5", "RateOfChange/EfficiencyRatio difference against the slot about to be overwritten", 2)
    rep.rule("F6", "FastStochastic, BollingerBands, CCI have no mutable state beyond their windowed parts", 3)
    F = ir.load("default", repo, tag)
    try:
        apply(F, Sink(rep))
    except symex.Unsupported as e:
        rep.violation("C17:unrecognised", "F1", "UNRECOGNISED idiom: %s" % e)
    rep.configs = ["default"]
    rep.functions.update(f.path for f in F.fns if f.self_struct in WINDOWED)
    rep.explanation = ("necessary conditions of finite memory read off the gated terms of every Next impl of the 9 buffered indicators: the ring is overwritten "
                       "cyclically (one store per call at the wrapping cursor) and whatever accumulates inputs also consumes the slot being evicted. NOT decided: "
                       "that the totals equal a fresh run's (signs/coefficients of the eviction), the tau-bounded residue, exactness of the cached extreme")
    rep.assumptions = ["cursor typestate (C12): the write cursor visits every slot once per period", "state fields outside the grammar are excluded by C05/C18"]
    return rep
