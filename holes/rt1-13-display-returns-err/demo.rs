// C11: Display is faithful ("SMA(<period>)" for every valid period); C12: Display returns normally for every valid configuration.
use ta::indicators::SimpleMovingAverage;

fn main() {
    let r = std::panic::catch_unwind(|| {
        let sma = SimpleMovingAverage::new(5000).unwrap();
        format!("{}", sma)
    });
    match r {
        Ok(s) if s == "SMA(5000)" => {}
        Ok(s) => {
            eprintln!("C11 violated: Display of SMA(5000) is {:?}", s);
            std::process::exit(1);
        }
        Err(_) => {
            eprintln!("C11/C12 violated: formatting SimpleMovingAverage::new(5000) with Display panicked (fmt returned Err)");
            std::process::exit(1);
        }
    }
}
