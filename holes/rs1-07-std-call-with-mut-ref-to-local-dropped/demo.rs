// C02 / C15: MACD line = EMA_fast - EMA_slow, signal = EMA(MACD), histogram = MACD - signal, on any stream.
use ta::indicators::{ExponentialMovingAverage as Ema, MovingAverageConvergenceDivergence as Macd};
use ta::Next;

fn main() {
    let mut macd = Macd::new(3, 6, 4).unwrap();
    let (mut fast, mut slow, mut sig) = (Ema::new(3).unwrap(), Ema::new(6).unwrap(), Ema::new(4).unwrap());
    let stream = [10.0, 11.0, 12.5, 2.0e9, 12.0, 13.0, 12.0];
    let mut bad = 0;
    for (t, &x) in stream.iter().enumerate() {
        let got = macd.next(x);
        let line = fast.next(x) - slow.next(x);
        let signal = sig.next(line);
        let tol = (1e-12 + 1e-15 * ((t + 1) as f64).powf(1.5)) * 2.0e9;
        if (got.macd - line).abs() > tol || (got.signal - signal).abs() > tol {
            eprintln!("C02/C15 violated at t={}: MACD line/signal = {}/{} but three standalone EMAs give {}/{}", t, got.macd, got.signal, line, signal);
            bad += 1;
        }
    }
    if bad > 0 {
        std::process::exit(1);
    }
}
