// C12: next() must return normally for every input, including NaN.
use ta::indicators::SimpleMovingAverage;
use ta::Next;

fn main() {
    let r = std::panic::catch_unwind(|| {
        let mut sma = SimpleMovingAverage::new(3).unwrap();
        sma.next(1.0);
        sma.next(f64::NAN);
        sma.next(2.0);
    });
    if r.is_err() {
        eprintln!("C12 violated: SimpleMovingAverage::next panicked on a NaN input");
        std::process::exit(1);
    }
}
