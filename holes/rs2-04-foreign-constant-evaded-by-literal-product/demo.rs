// C02 / C15: MACD line = EMA_fast - EMA_slow, agreeing with a from-scratch evaluation within
// tau(t) = 1e-12 + 1e-15*t^1.5 times the largest input magnitude.
use ta::indicators::{ExponentialMovingAverage, MovingAverageConvergenceDivergence};
use ta::Next;

fn main() {
    let mut macd = MovingAverageConvergenceDivergence::new(12, 26, 9).unwrap();
    let mut fast = ExponentialMovingAverage::new(12).unwrap();
    let mut slow = ExponentialMovingAverage::new(26).unwrap();
    let mut maxmag = 0.0f64;
    let mut worst = 0.0f64; // worst error in units of tau(t) * max magnitude
    let mut x = 4000.0f64;
    for t in 1..=500u32 {
        // deterministic wandering price around 4000
        x += ((t * 37 % 101) as f64 - 50.0) * 0.37;
        maxmag = maxmag.max(x.abs());
        let got = macd.next(x).macd;
        let want = fast.next(x) - slow.next(x);
        let tau = 1e-12 + 1e-15 * (t as f64).powf(1.5);
        let ratio = (got - want).abs() / (tau * maxmag);
        if ratio > worst { worst = ratio; }
        if t % 100 == 0 {
            println!("t={:>3} macd={:.9} hand-wired={:.9} |diff|={:.3e} allowed={:.3e}", t, got, want, (got - want).abs(), tau * maxmag);
        }
    }
    println!("worst error = {:.1} x the allowed tolerance", worst);
    if worst > 1.0 {
        eprintln!("C02/C15 violated: MACD line disagrees with EMA_fast - EMA_slow beyond tau(t)");
        std::process::exit(1);
    }
}
