"""Symbolic terms (hash-consable tuples), constructors, simplification under
path facts, pretty printing."""
from fractions import Fraction
import math

CMP = ("<", "<=", "==", "!=", ">", ">=")
ARITH = ("+", "-", "*", "/")


def C(ty, v):
    return ("c", ty, v)


NAN = float("nan")   # the one NaN object: tuple equality tests identity before ==, so terms holding *this* NaN compare equal to themselves


def cf(v):
    v = float(v)
    return ("c", "f64", NAN if v != v else v)


def cu(v):
    return ("c", "int", int(v))


TRUE = ("c", "bool", 1)
FALSE = ("c", "bool", 0)
UNIT = ("c", "unit", 0)
BOT = ("bot",)  # value on a path that does not reach here


def is_const(t):
    return isinstance(t, tuple) and t and t[0] == "c"


def const_val(t):
    return t[2]


TWO_VARIANT = set()  # terms known to be of a two-variant enum type (registered by the evaluator at discriminant reads)


def lit(c):
    """normalise a boolean term into (atom, polarity)"""
    if c[0] == "not":
        a, p = lit(c[1])
        return a, (not p)
    if c[0] == ">":
        return lit(("<", c[2], c[1]))
    if c[0] == ">=":
        return lit(("<=", c[2], c[1]))
    if c[0] in ("<", "<=") and len(c) == 3:
        # integer comparisons: x + 1 <= y  is  x < y;  x < y + 1  is  x <= y;  x <= y - 1  is  x < y;  x - 1 < y  is  x <= y
        one = ("c", "int", 1)
        a, b = c[1], c[2]
        if c[0] == "<=" and isinstance(a, tuple) and a[0] == "+" and a[2] == one:
            return ("<", a[1], b), True
        if c[0] == "<" and isinstance(b, tuple) and b[0] == "+" and b[2] == one:
            return ("<=", a, b[1]), True
        if c[0] == "<=" and isinstance(b, tuple) and b[0] == "-" and b[2] == one:
            return ("<", a, b[1]), True
        if c[0] == "<" and isinstance(a, tuple) and a[0] == "-" and a[2] == one:
            return ("<=", a[1], b), True
    if c[0] == "!=":
        a, b = sorted([c[1], c[2]], key=repr)
        return ("==", a, b), False
    if c[0] == "==":
        a, b = sorted([c[1], c[2]], key=repr)
        # discriminant of a two-variant enum (Option / Result): `discr == 1` is `not (discr == 0)`
        for x, y in ((a, b), (b, a)):
            if isinstance(x, tuple) and x[0] == "discr" and x[1] in TWO_VARIANT and is_const(y) and y[2] == 1 and y[1] == "int":
                a0, b0 = sorted([x, ("c", "int", 0)], key=repr)
                return ("==", a0, b0), False
        # (bool_term == true/false) -> the term itself
        for x, y in ((a, b), (b, a)):
            if is_const(x) and x[1] == "bool":
                at, p = lit(y)
                return at, (p if x[2] else not p)
        return ("==", a, b), True
    return c, True


def eval_lit(c, facts):
    """True / False / None under the known facts"""
    if is_const(c):
        return bool(c[2])
    a, p = lit(c)
    if is_const(a):
        return bool(a[2]) == p
    if a in facts:
        return facts[a] == p
    # constant folding of comparisons
    if a[0] in CMP and is_const(a[1]) and is_const(a[2]):
        x, y = a[1][2], a[2][2]
        r = {"<": x < y, "<=": x <= y, "==": x == y}[a[0]]
        return r == p
    # usize facts: (== x 0) False together with other equalities are independent; no further reasoning
    return None


def mk_not(c):
    if is_const(c):
        return FALSE if c[2] else TRUE
    if c[0] == "not":
        return c[1]
    return ("not", c)


def mk_gamma(c, a, b):
    if a == b:
        return a
    if a == BOT:
        return b
    if b == BOT:
        return a
    if is_const(c):
        return a if c[2] else b
    if c[0] == "gamma":
        # a conditional used as a condition: gamma(gamma(c1, x, y), a, b) = gamma(c1, gamma(x, a, b), gamma(y, a, b))
        return mk_gamma(c[1], mk_gamma(c[2], a, b), mk_gamma(c[3], a, b))
    if c[0] == "and":
        return mk_gamma(c[1], mk_gamma(c[2], a, b), b)
    at, p = lit(c)
    if not p:
        return ("gamma", at, b, a)
    return ("gamma", at, a, b)


def simp(t, facts, memo=None):
    """rewrite t resolving gammas whose condition is decided by facts"""
    if not facts or not isinstance(t, tuple):
        return t
    if memo is None:
        memo = {}
    k = id(t)
    if k in memo:
        return memo[k][1]
    if not t:
        return t
    h = t[0]
    if not isinstance(h, str):
        r = tuple(simp(z, facts, memo) if isinstance(z, tuple) else z for z in t)
        memo[k] = (t, r)
        return r
    if h in ("c", "arg", "pre", "bot"):
        r = t
    elif h == "gamma":
        v = eval_lit(t[1], facts)
        if v is True:
            r = simp(t[2], facts, memo)
        elif v is False:
            r = simp(t[3], facts, memo)
        else:
            r = mk_gamma(simp(t[1], facts, memo), simp(t[2], facts, memo), simp(t[3], facts, memo))
    else:
        changed = False
        out = [h]
        for x in t[1:]:
            if isinstance(x, tuple):
                y = simp(x, facts, memo) if (x and isinstance(x[0], str)) else tuple(
                    (simp(z, facts, memo) if isinstance(z, tuple) else z) for z in x)
                changed = changed or (y is not x and y != x)
                out.append(y)
            else:
                out.append(x)
        r = tuple(out) if changed else t
    memo[k] = (t, r)
    return r


def map_leaves(t, f):
    """apply f to the non-gamma leaves of a gamma tree"""
    if isinstance(t, tuple) and t and t[0] == "gamma":
        return mk_gamma(t[1], map_leaves(t[2], f), map_leaves(t[3], f))
    if t == BOT:
        return BOT
    return f(t)


def leaves(t, conds=()):
    """[(path-condition literals, leaf)] of a gamma tree"""
    if isinstance(t, tuple) and t and t[0] == "gamma":
        return leaves(t[2], conds + ((t[1], True),)) + leaves(t[3], conds + ((t[1], False),))
    return [(conds, t)]


def subterms(t):
    seen = set()
    stack = [t]
    while stack:
        x = stack.pop()
        if not isinstance(x, tuple) or id(x) in seen:
            continue
        seen.add(id(x))
        if x and isinstance(x[0], str):
            yield x
        for y in x[1:] if (x and isinstance(x[0], str)) else x:
            if isinstance(y, tuple):
                stack.append(y)


def fmt_f(v):
    if isinstance(v, float):
        if math.isinf(v):
            return "inf" if v > 0 else "-inf"
        if math.isnan(v):
            return "NaN"
        if v == int(v) and abs(v) < 1e15:
            return "%d.0" % int(v)
        return repr(v)
    return str(v)


def show(t, depth=0):
    if not isinstance(t, tuple):
        return str(t)
    if depth > 12:
        return "…"
    if not t:
        return "()"
    h = t[0]
    if not isinstance(h, str):
        return "(" + ", ".join(show(a, depth + 1) for a in t) + ")"
    d = depth + 1
    if h == "c":
        if t[1] == "bool":
            return "true" if t[2] else "false"
        if t[1] == "unit":
            return "()"
        return fmt_f(t[2])
    if h == "arg":
        return t[1]
    if h == "pre":
        return "pre(%s)" % t[1]
    if h == "get":
        return "%s.%s()" % (show(t[2], d), t[1])
    if h in ARITH or h in CMP:
        return "(%s %s %s)" % (show(t[1], d), h, show(t[2], d))
    if h == "gamma":
        return "γ(%s, %s, %s)" % (show(t[1], d), show(t[2], d), show(t[3], d))
    if h == "adt":
        nm = str(t[1]).split("::")[-1]
        vn = t[2][1] if isinstance(t[2], tuple) else t[2]
        fs = ", ".join("%s: %s" % (n, show(v, d)) for n, v in t[3])
        return "%s%s{%s}" % (nm, ("::" + vn) if vn else "", fs)
    if h == "step":
        return "step#%d[%s.%s](%s)" % (t[4], t[1], t[2], ", ".join(show(a, d) for a in t[3]))
    if h == "post":
        return "post(%s%s)" % (show(t[1], d), "".join("." + str(x) for x in t[2]))
    if h == "bot":
        return "⊥"
    return "%s(%s)" % (h, ", ".join(show(a, d) if isinstance(a, tuple) else str(a) for a in t[1:]))


def renumber_loops(t):
    """loop identifiers (`ivar`, `lv`, `accum`, `pick`, `havoc`) renumbered by first appearance, so that two evaluations that met the
    same loops in a different order produce comparable terms"""
    m = {}

    def lid(n):
        if n not in m:
            m[n] = len(m) + 1
        return m[n]

    def go(x):
        if not isinstance(x, tuple) or not x:
            return x
        h = x[0]
        if h == "ivar" and len(x) == 2 and isinstance(x[1], int):
            return ("ivar", lid(x[1]))
        if h == "lv" and len(x) == 3 and isinstance(x[1], int):
            return ("lv", lid(x[1]), x[2])
        if h == "accum" and len(x) == 4 and isinstance(x[3], int):
            return ("accum", go(x[1]), go(x[2]), lid(x[3]))
        if h == "pick" and len(x) >= 4 and isinstance(x[3], int):
            return ("pick", go(x[1]), go(x[2]), lid(x[3])) + tuple(go(y) for y in x[4:])
        if h == "havoc" and len(x) == 3 and isinstance(x[1], int):
            return ("havoc", lid(x[1]), x[2])
        return tuple(go(y) if isinstance(y, tuple) else y for y in x)
    return go(t)
