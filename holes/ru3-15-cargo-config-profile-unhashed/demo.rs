// C11: every constructor returns Ok without panicking for every positive period up to usize::MAX
// (indicators that allocate no window), and the EMA built that way is a valid EMA (C02: k = 2/(n+1) in (0, 1]).
// Plain `cargo run` (dev profile of the *user's* workspace: overflow checks on) panics inside `new`;
// `cargo run --release` gets k = 2/0 = inf and a NaN on the second input.
use ta::indicators::ExponentialMovingAverage;
use ta::Next;

fn main() {
    let r = std::panic::catch_unwind(|| {
        let mut ema = ExponentialMovingAverage::new(usize::MAX).expect("positive period must be accepted");
        let a = ema.next(10.0);
        let b = ema.next(10.0);
        (a, b)
    });
    match r {
        Ok((a, b)) if a == 10.0 && b == 10.0 => std::process::exit(0),
        Ok((a, b)) => {
            eprintln!("EMA(usize::MAX) fed 10, 10 returned {}, {}", a, b);
            std::process::exit(1)
        }
        Err(_) => {
            eprintln!("ExponentialMovingAverage::new(usize::MAX) panicked");
            std::process::exit(2)
        }
    }
}
