#!/usr/bin/env python3
"""./check <ID> [--tier quick|thorough]   — decide one property from /repo's current source."""
import argparse
import importlib
import os
import sys
import traceback

sys.path.insert(0, os.path.dirname(os.path.abspath(__file__)))

PROPS = ["C01", "C02", "C03", "C04", "C05", "C06", "C07", "C08", "C09", "C10", "C11", "C12", "C13", "C14", "C15", "C16", "C17", "C18", "C19"]


# properties whose rules read symbolically evaluated terms: they share the premise "no code is left unexecuted by the evaluator"
EVALUATED = {"C01", "C02", "C03", "C04", "C07", "C08", "C09", "C10", "C13", "C14", "C15", "C17"}


def main():
    ap = argparse.ArgumentParser()
    ap.add_argument("prop")
    ap.add_argument("--tier", default=os.environ.get("VERIF_TIER", "quick"), choices=["quick", "thorough"])
    ap.add_argument("--repo", default=None, help="analyse this crate directory instead of /repo (self-validation)")
    ap.add_argument("--tag", default="repo")
    ap.add_argument("--no-evidence", action="store_true", help="self-validation runs: do not touch evidence/")
    a = ap.parse_args()
    prop = a.prop.upper()
    seed = int(os.environ.get("VERIF_SEED", "0") or 0)
    try:
        mod = importlib.import_module("rules_" + prop.lower())
    except ImportError as e:
        print("no check for %s: %s" % (prop, e))
        return 2
    try:
        kw = {}
        if a.repo:
            kw = {"repo": a.repo, "tag": a.tag}
        rep = mod.run(a.tier, **kw)
        # every rule finds "the struct called X" by its short name: two crate types with one name make that lookup ambiguous
        import ir as _ir
        from ir import short as ir_short
        F0 = _ir.load("default", a.repo, a.tag) if a.repo else _ir.load("default")
        seen_names = {}
        for adt in F0.d["adts"]:
            if adt["name"].startswith("__"):
                continue  # (serde_derive's private helper types, one set per derived impl)
            seen_names.setdefault(adt["name"], set()).add(adt["path"])
        rep.rule("NAM", "type names are unambiguous: no two types of the crate share a name (the rules look types up by name)", 25)
        for nm, paths in sorted(seen_names.items()):
            if len(paths) > 1:
                rep.violation("%s:ambiguous-name:%s" % (prop, nm), "NAM", "the crate defines %d types called %s (%s): which one a rule means is not decided by its name" % (len(paths), nm, ", ".join(sorted(paths))))
            else:
                rep.rules["NAM"].ok(nm)
        # ... the same for traits (rules ask for "the Next impl of X") and for functions: two block-local `fn blend` share one
        # definition path, and everything keyed by path (bodies, call graph, coverage) would silently use the first
        tr_names = {}
        for tr in F0.d.get("traits", []):
            tr_names.setdefault(ir_short(tr["path"]), set()).add(tr["path"])
        # a crate trait that carries the name of a foreign trait the crate's types implement (`trait Default<P = usize>`,
        # `trait Display<Sink = ()>`) is mistaken for it by every "the Default / Display impl of X" lookup
        foreign_tr = {ir_short(i_["trait"]) for i_ in F0.impls if i_.get("of_trait") and i_.get("trait") and i_.get("trait_krate") != F0.d["crate"]}
        foreign_tr |= {"Default", "Display", "Debug", "Clone", "Copy", "Drop", "From", "Into", "TryFrom", "TryInto", "Iterator", "PartialEq", "Eq", "PartialOrd", "Ord", "Hash", "Send", "Sync",
                       "Serialize", "Deserialize", "Error", "AsRef", "AsMut", "Deref", "DerefMut", "Fn", "FnMut", "FnOnce", "ToString", "ToOwned", "Borrow"}
        for nm, paths in sorted(tr_names.items()):
            if nm in foreign_tr:
                rep.violation("%s:ambiguous-name:trait %s" % (prop, nm), "NAM", "the crate defines a trait called %s (%s), the name of a std / serde trait its types implement" % (nm, ", ".join(sorted(paths))))
        # a public name may not be re-bound: `pub use momentum::Momentum as RateOfChange` makes the documented path mean another type
        import os as _os
        import rustlex as _lex
        from extract import REPO as _REPO
        src_root = _os.path.join(_os.path.abspath(a.repo) if a.repo else _REPO, "src")
        for root_, dirs_, files_ in _os.walk(src_root):
            dirs_.sort()
            for fn_ in sorted(files_):
                try:
                    toks_ = _lex.tokens(open(_os.path.join(root_, fn_), encoding="utf-8", errors="replace").read())
                except Exception:
                    continue
                for i_, (k_, t_, ln_) in enumerate(toks_):
                    if k_ == "ident" and t_ == "use" and i_ > 0 and toks_[i_ - 1][1] in ("pub", ")"):
                        j_ = i_
                        while j_ < len(toks_) and toks_[j_][1] != ";":
                            if toks_[j_][0] == "ident" and toks_[j_][1] == "as" and j_ + 1 < len(toks_) and toks_[j_ + 1][1] != "_":
                                rep.violation("%s:ambiguous-name:re-export as %s" % (prop, toks_[j_ + 1][1]), "NAM", "%s:%d: a public re-export renames an item to `%s`: the documented path need not be the type the rules analyse under that name" % (_os.path.relpath(_os.path.join(root_, fn_), _os.path.dirname(src_root)), ln_, toks_[j_ + 1][1]))
                            j_ += 1
        for nm, paths in sorted(tr_names.items()):
            if len(paths) > 1:
                rep.violation("%s:ambiguous-name:trait %s" % (prop, nm), "NAM", "the crate defines %d traits called %s (%s)" % (len(paths), nm, ", ".join(sorted(paths))))
        seen_paths, seen_labels = {}, {}
        for f in F0.fns:
            seen_paths[f.path] = seen_paths.get(f.path, 0) + 1
            if not f.derived:
                seen_labels[f.label] = seen_labels.get(f.label, 0) + 1
        for pth, k_ in sorted(seen_paths.items()):
            if k_ > 1:
                rep.violation("%s:ambiguous-name:fn %s" % (prop, pth), "NAM", "%d functions share the definition path %s (block-local items of the same name): the analysis cannot tell them apart" % (k_, pth))
        for lab, k_ in sorted(seen_labels.items()):
            if k_ > 1 and seen_paths.get(lab, 0) <= 1:
                rep.violation("%s:ambiguous-name:fn %s" % (prop, lab), "NAM", "%d hand-written functions are labelled %s" % (k_, lab))
        # enums are matched by variant index: explicit discriminants (`Seed = 1, Run = 0`) would swap the arms
        for adt in F0.d["adts"]:
            if any(v.get("discr_explicit") for v in adt.get("variants", [])):
                rep.violation("%s:explicit-discriminant:%s" % (prop, adt["name"]), "NAM", "enum %s gives its variants explicit discriminants: the evaluator reads a discriminant as the variant index (UNRECOGNISED)" % adt["name"])
        # every rule reasons about states reached through new / default / clone / next / reset: that holds only while the fields of
        # the state structs (and of the bar builder) cannot be written from outside the crate
        import grammar as _gr
        for nm_ in list(_gr.state_structs(F0)) + ["DataItemBuilder"]:
            adt_ = F0.adt_by_short.get(nm_)
            for v_ in (adt_ or {}).get("variants", []):
                for fd_ in v_.get("fields", []):
                    if fd_.get("public") or str(fd_.get("vis", "")).startswith("Public"):
                        rep.violation("%s:public-state-field:%s.%s" % (prop, nm_, fd_["name"]), "NAM", "field %s.%s is public: client code can put the value into states no constructor or method produces" % (nm_, fd_["name"]))
        # drop glue is code no evaluation executes: a hand-written Drop impl can do anything at scope end
        for imp in F0.impls:
            if imp.get("of_trait") and ir_short(imp.get("trait") or "") == "Drop" and not (imp.get("derive") or {}):
                rep.violation("%s:drop-glue:%s" % (prop, (imp.get("self_ty") or {}).get("s", "?")), "NAM", "hand-written `impl Drop for %s`: its body runs at scope ends the evaluator steps over (UNRECOGNISED)" % (imp.get("self_ty") or {}).get("s", "?"))
        if prop in EVALUATED or prop in ("C12", "C18"):
            import coverage
            import ir
            coverage.report(rep, ir.load("default", a.repo, a.tag) if a.repo else ir.load("default"), cov=prop in EVALUATED)
        if a.tier == "thorough" and not a.repo and not os.environ.get("VERIF_SELFVAL"):
            try:
                import thorough
                thorough.extras(prop, rep)
            except Exception as e:
                rep.notes.append("thorough extras failed: %r" % (e,))
        return rep.finish(seed, write=not a.no_evidence)
    except Exception as e:
        # fail closed: an analysis that cannot digest the tree gives no assurance. On the pinned tree this never happens
        # (vp check runs every quick command); on an edited tree it is reported like any unrecognised idiom.
        traceback.print_exc()
        from infra import Report
        rep = Report(prop, a.tier)
        rep.rule("X0", "the analysis completes on the tree", 0)
        rep.explanation = "the checker could not analyse the tree"
        rep.violation("%s:analysis-failed" % prop, "X0", "UNRECOGNISED shape: the analysis stopped with %s: %s — no verdict can be given for this tree" % (type(e).__name__, str(e)[:200]), where="(see traceback above)")
        return rep.finish(seed, write=not a.no_evidence)


if __name__ == "__main__":
    sys.exit(main())
