// C01 / C13 (hole 08): WeightedMovingAverage(n) = sum_i i*x_i / (k(k+1)/2) over exactly the last min(t, n) inputs (newest heaviest),
// within tau(t) = 1e-12 + 1e-15 * t^1.5 times the largest magnitude fed so far.
use ta::indicators::WeightedMovingAverage;
use ta::Next;

fn reference(w: &[f64]) -> f64 {
    let k = w.len() as f64;
    let num: f64 = w.iter().enumerate().map(|(i, v)| (i + 1) as f64 * v).sum();
    num / (k * (k + 1.0) / 2.0)
}

fn main() {
    let n = 10;
    let mut wma = WeightedMovingAverage::new(n).unwrap();
    let mut hist: Vec<f64> = vec![];
    let mut worst = 0.0f64;
    let mut worst_abs = 0.0f64;
    let mut maxmag = 0.0f64;
    for t in 0..5000usize {
        let x = 1000.0 + ((t * 7919) % 1013) as f64 * 0.37; // positive prices ~1000..1375
        hist.push(x);
        maxmag = maxmag.max(x.abs());
        let got = wma.next(x);
        let start = hist.len().saturating_sub(n);
        let want = reference(&hist[start..]);
        let tau = 1e-12 + 1e-15 * ((t + 1) as f64).powf(1.5);
        let err = (got - want).abs() / (tau * maxmag);
        worst = worst.max(err);
        worst_abs = worst_abs.max((got - want).abs());
    }
    println!("worst |WMA - reference| = {:.3e}  = {:.3e} x tau(t)*max|x|", worst_abs, worst);
    if worst > 1.0 {
        println!("VIOLATED");
        std::process::exit(1);
    }
    println!("ok");
}
