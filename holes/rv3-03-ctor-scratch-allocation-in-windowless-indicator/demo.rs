// C11: constructors return Ok without panicking for every positive period up to usize::MAX for indicators that
// allocate no window (EMA and everything built from EMAs only).  Exits 1 if a constructor panics or errs.
use std::panic;
use ta::indicators::{
    AverageTrueRange, ExponentialMovingAverage, MovingAverageConvergenceDivergence, RelativeStrengthIndex,
};

fn fine<F: FnOnce() -> bool + panic::UnwindSafe>(what: &str, f: F) -> usize {
    match panic::catch_unwind(f) {
        Ok(true) => 0,
        Ok(false) => {
            println!("{} returned Err", what);
            1
        }
        Err(_) => {
            println!("{} panicked", what);
            1
        }
    }
}

fn main() {
    panic::set_hook(Box::new(|_| {}));
    let mut bad = 0;
    for &p in &[1usize, 1 << 20, usize::MAX - 1, usize::MAX] {
        bad += fine(&format!("ExponentialMovingAverage::new({})", p), move || ExponentialMovingAverage::new(p).is_ok());
    }
    let p = usize::MAX;
    bad += fine("RelativeStrengthIndex::new(usize::MAX)", move || RelativeStrengthIndex::new(p).is_ok());
    bad += fine("AverageTrueRange::new(usize::MAX)", move || AverageTrueRange::new(p).is_ok());
    bad += fine("MACD::new(usize::MAX, usize::MAX, usize::MAX)", move || MovingAverageConvergenceDivergence::new(p, p, p).is_ok());
    std::process::exit(if bad > 0 { 1 } else { 0 });
}
