"""C11 — constructors reject exactly period 0; accessors, Display, Default are faithful."""
import itertools

import callees
import callgraph
import fieldclass
import ir
import re
import symex
from infra import BAD_FIXTURE, Report, Sink, loc
from ir import short
from terms import cu, cf, eval_lit, is_const, leaves, lit, show, simp, subterms

NAMES = {
    "ExponentialMovingAverage": "EMA", "SimpleMovingAverage": "SMA", "WeightedMovingAverage": "WMA", "StandardDeviation": "SD",
    "MeanAbsoluteDeviation": "MAD", "RelativeStrengthIndex": "RSI", "Minimum": "MIN", "Maximum": "MAX", "FastStochastic": "FAST_STOCH",
    "SlowStochastic": "SLOW_STOCH", "AverageTrueRange": "ATR", "MovingAverageConvergenceDivergence": "MACD",
    "PercentagePriceOscillator": "PPO", "CommodityChannelIndex": "CCI", "EfficiencyRatio": "ER", "BollingerBands": "BB",
    "ChandelierExit": "CE", "KeltnerChannel": "KC", "RateOfChange": "ROC", "MoneyFlowIndex": "MFI", "TrueRange": "TRUE_RANGE",
    "OnBalanceVolume": "OBV",
}
DEFAULTS = {
    "ExponentialMovingAverage": [9], "SimpleMovingAverage": [9], "WeightedMovingAverage": [9], "StandardDeviation": [9],
    "MeanAbsoluteDeviation": [9], "RateOfChange": [9], "RelativeStrengthIndex": [14], "AverageTrueRange": [14], "EfficiencyRatio": [14],
    "MoneyFlowIndex": [14], "Minimum": [14], "Maximum": [14], "FastStochastic": [14], "SlowStochastic": [14, 3],
    "MovingAverageConvergenceDivergence": [12, 26, 9], "PercentagePriceOscillator": [12, 26, 9], "CommodityChannelIndex": [20],
    "BollingerBands": [9, 2.0], "KeltnerChannel": [10, 2.0], "ChandelierExit": [22, 3.0], "TrueRange": [], "OnBalanceVolume": [],
}


def subst_args(t, mapping):
    if not isinstance(t, tuple):
        return t
    if t and t[0] == "arg" and t[1] in mapping:
        return mapping[t[1]]
    return tuple(subst_args(x, mapping) for x in t)


def refold(t):
    """constant-fold after substitution"""
    if not isinstance(t, tuple) or not t or not isinstance(t[0], str):
        return tuple(refold(x) for x in t) if isinstance(t, tuple) else t
    h = t[0]
    if h in ("c", "arg", "pre"):
        return t
    xs = tuple(refold(x) if isinstance(x, tuple) else x for x in t[1:])
    if h in ("+", "-", "*", "/") + symex.CMP and len(xs) == 2:
        return symex.fold(h, xs[0], xs[1])
    if h == "i2f" and is_const(xs[0]):
        return cf(float(xs[0][2]))
    return (h,) + xs


def flatten_adt(t, prefix, out):
    if isinstance(t, tuple) and t and t[0] == "adt":
        for n, v in t[3]:
            flatten_adt(v, prefix + "." + n, out)
    out[prefix] = t
    return out


def subst_pre_map(t, mapping):
    if not isinstance(t, tuple):
        return t
    if t and t[0] == "pre" and t[1] in mapping:
        return mapping[t[1]]
    return tuple(subst_pre_map(x, mapping) for x in t)


def k1_zero_check(F, S, s, c):
    fn = c["fn"]
    usize_params = [p for p, ty in c["params"] if ty == "usize"]
    ret = c["ret"]
    atoms = set()
    for conds, leaf in leaves(ret):
        for a, pol in conds:
            atoms.add(a)
    expected_atoms = {}
    for p in usize_params:
        a, _ = lit(("==", ("arg", p), cu(0)))
        expected_atoms[a] = p
    extra = [a for a in atoms if a not in expected_atoms]
    if extra:
        S.bad("K1", "ctor-branches-on", "%s::new" % s, "%s::new branches on %s: constructors must reject exactly period 0 and accept multipliers as given" % (s, "; ".join(show(a) for a in extra)), loc(fn.span))
        return
    ok_all = True
    for vals in itertools.product([False, True], repeat=len(usize_params)):
        facts = {a: vals[usize_params.index(p)] for a, p in expected_atoms.items()}
        leaf = simp(ret, facts)
        any_zero = any(vals)
        is_err = isinstance(leaf, tuple) and leaf[0] == "adt" and leaf[2][1] == "Err"
        is_ok = isinstance(leaf, tuple) and leaf[0] == "adt" and (leaf[2][1] == "Ok" or short(str(leaf[1])) == s)
        desc = ", ".join("%s%s0" % (p, "==" if v else "!=") for p, v in zip(usize_params, vals)) or "(no parameters)"
        if any_zero:
            if not is_err:
                ok_all = False
                S.bad("K1", "zero-accepted", "%s::new" % s, "%s::new does not return Err when %s (returns %s)" % (s, desc, show(leaf)[:80]), loc(fn.span))
            else:
                e = leaf[3][0][1]
                if not (isinstance(e, tuple) and e[0] == "adt" and e[2][1] == "InvalidParameter"):
                    ok_all = False
                    S.bad("K1", "wrong-error", "%s::new" % s, "%s::new returns %s instead of Err(InvalidParameter) when %s" % (s, show(leaf), desc), loc(fn.span))
        else:
            if not is_ok:
                ok_all = False
                S.bad("K1", "nonzero-rejected", "%s::new" % s, "%s::new does not return Ok when %s (returns %s)" % (s, desc, show(leaf)[:80]), loc(fn.span))
    if ok_all:
        S.ok("K1", "%s::new" % s, params=[p for p, _ in c["params"]], cases=2 ** len(usize_params), result=show(ret)[:160])


def k2_no_panic(F, S, s, c):
    fn = c["fn"]
    seen = set()
    for (lab, kind, line) in c["asserts"]:
        key = "%s:%s" % (lab, kind)
        if key in seen:
            continue
        seen.add(key)
        g = [x for x in F.fns if x.label == lab]
        S.bad("K2", "panic-in-new", key, "%s contains a checked operation that can panic: MIR Assert %s at line %s — a constructor must return Ok/Err, never panic (reached from every constructor that builds one)"
              % (lab, kind, line), "%s:%s" % (g[0].span["file"] if g else "?", line))
    sites, chains = callgraph.external_sites(F, [fn])
    bad = False
    fresh = {}   # struct -> number of `vec![v; n]` allocations made by its constructor
    for f, t, cls, fam, chain in sites:
        name = callees.callee_name(t["callee"])
        if cls == "allocates" and fam == "nopanic":
            # allocation panics for huge sizes (capacity overflow): a constructor may allocate its WINDOW — one `vec![v; period]` per
            # Box<[f64]> field of the struct it builds — and nothing else; an indicator without a window allocates nothing
            owner_fn = f
            while owner_fn is not None and owner_fn.kind == "Closure":
                owner_fn = F.fn_by_path.get(owner_fn.d.get("parent") or "")
            st_ = owner_fn.self_struct if owner_fn is not None else None
            nbuf = sum(1 for x_ in (F.struct_fields(st_) or []) if x_["ty"]["s"].startswith("std::boxed::Box<[")) if st_ else 0
            if "from_elem" in name or "with_capacity" in name or "Box::new" in name or "collect" in name:
                fresh[st_] = fresh.get(st_, 0) + 1
                if not (owner_fn is not None and owner_fn.is_ctor and fresh[st_] <= nbuf):
                    bad = True
                    S.bad("K2", "alloc-in-new", "%s->%s" % (f.label, callees.strip_turbofish(name)), "%s allocates (%s) beyond the window buffers of the struct it builds (%d Box<[f64]> field(s)): for a huge period the allocation panics with capacity overflow" % (f.label, callees.strip_turbofish(name), nbuf), loc(t["span"]))
            continue
        if cls in ("pure", "user"):
            continue
        bad = True
        S.bad("K2", "panic-in-new", "%s->%s" % (f.label, name), "%s calls %s (%s/%s), which may panic, on the way from %s::new" % (f.label, name, cls, fam, s), loc(t["span"]))
    if not seen and not bad:
        S.ok("K2", "%s::new" % s, reachable_fns=len(chains), asserts=0)


def k3_accessors(F, S, s, c):
    mapping = flatten_adt(c["ok"], "self", {})
    pol = symex.Policy(F, modular=False)
    usize_params = [p for p, ty in c["params"] if ty == "usize"]
    f64_params = [p for p, ty in c["params"] if ty == "f64"]
    per = F.method(s, "period", trait="Period")
    if per is not None:
        r = symex.evaluate(F, per, pol)
        v = subst_pre_map(r["ret"], mapping)
        if len(usize_params) == 1 and v == ("arg", usize_params[0]):
            S.ok("K3", "%s::period" % s, returns=show(r["ret"]), is_param=usize_params[0])
        else:
            S.bad("K3", "accessor", "%s::period" % s, "%s::period() returns %s (= %s at construction), not the constructor's period argument" % (s, show(r["ret"]), show(v)), loc(per.span))
    mul = F.method(s, "multiplier", trait="")
    if mul is not None:
        r = symex.evaluate(F, mul, pol)
        v = subst_pre_map(r["ret"], mapping)
        if len(f64_params) == 1 and v == ("arg", f64_params[0]):
            S.ok("K3", "%s::multiplier" % s, returns=show(r["ret"]), is_param=f64_params[0])
        else:
            S.bad("K3", "accessor", "%s::multiplier" % s, "%s::multiplier() returns %s, not the constructor's multiplier argument" % (s, show(v)), loc(mul.span))
    elif f64_params:
        S.bad("K3", "accessor-missing", "%s::multiplier" % s, "%s takes a multiplier but has no multiplier() accessor" % s)


def fmt_args_in_order(t):
    """fmtarg nodes in evaluation (array) order"""
    out = []

    def walk(x):
        if not isinstance(x, tuple):
            return
        if x and x[0] == "fmtarg":
            out.append(x)
            return
        for y in x:
            walk(y)
    walk(t)
    return out


def k4_display(F, S, s, c):
    fn = F.method(s, "fmt", trait="Display")
    if fn is None:
        S.bad("K4", "display-missing", s, "no Display impl for %s" % s)
        return
    entries = [e for e in F.ast["fmt"] if e["ctx"]["impl_self"] == s and (e["ctx"]["impl_trait"] or "").endswith("Display")]
    if not entries and not c["params"]:
        # a parameterless indicator may write its fixed name directly: `f.write_str("OBV")` — one sink, unconditional, a literal
        try:
            r0 = symex.evaluate(F, fn, symex.Policy(F, modular=False))
        except symex.Unsupported as e:
            S.bad("K4", "display-shape", s, "UNRECOGNISED Display::fmt of %s: %s" % (s, e), loc(fn.span))
            return
        calls_ = [t_ for g_ in [fn] + [h_ for h_ in F.fns if h_.kind == "Closure" and h_.path.startswith(fn.path)] for b_, t_ in g_.calls()
                  if any("Formatter" in ((a_.get("place") or {}).get("ty") or "") for a_ in t_["args"])]
        lv0 = leaves(r0["ret"])
        v0 = lv0[0][1] if len(lv0) == 1 and not lv0[0][0] else None
        lits_ = [x for x in subterms(v0) if x[0] == "constval" and x[1] == "&str"] if isinstance(v0, tuple) else []
        for x in (subterms(v0) if isinstance(v0, tuple) else ()):
            # a `&str` literal reached through a reborrow shows up as a reference to the opaque pointee of that constant
            if x[0] == "ref" and isinstance(x[1], tuple) and len(x[1]) == 1 and isinstance(x[1][0], str) and x[1][0].startswith("X:constval(&str, ") and x[1][0].endswith(")"):
                lits_.append(("constval", "&str", x[1][0][len("X:constval(&str, "):-1]))
        import callees as _cal0
        if len(calls_) == 1 and re.search(r"fmt::Formatter(<[^>]*>)?::write_str$", _cal0.strip_all_turbofish(_cal0.callee_name(calls_[0]["callee"]))) \
                and isinstance(v0, tuple) and v0[0] == "ucall" and len(lits_) == 1 and lits_[0][2] == '"%s"' % NAMES.get(s):
            S.ok("K4", s, text=NAMES.get(s), args=[])
        else:
            S.bad("K4", "display-text", s, "Display of %s does not write exactly the documented text \"%s\" (one unconditional write of that literal)" % (s, NAMES.get(s)), loc(fn.span))
        return
    if len(entries) != 1:
        S.bad("K4", "display-shape", s, "expected exactly one format_args! in Display::fmt of %s, found %d" % (s, len(entries)), loc(fn.span))
        return
    e = entries[0]
    nparams = len(c["params"])
    name = NAMES.get(s)
    want = name if s == "OnBalanceVolume" else "%s(%s)" % (name, ", ".join(["{}"] * nparams))
    got = ""
    ph = []
    for p in e["pieces"]:
        if "lit" in p:
            got += p["lit"]
        else:
            got += "{}"
            ph.append(p)
    where = loc(e["span"])
    if got != want:
        S.bad("K4", "display-text", s, "Display of %s renders \"%s\" but the documented form is \"%s\"" % (s, got, want), where)
        return
    for i, p in enumerate(ph):
        if p["trait"] != "Display" or not p["plain"]:
            S.bad("K4", "display-format-spec", "%s:%d" % (s, i), "placeholder %d of %s's Display is not a plain {} (%s %s): parameters must be rendered as given" % (i, s, p["trait"], p["opts"]), where)
            return
        if p["arg"] != i:
            S.bad("K4", "display-arg-order", "%s:%d" % (s, i), "placeholder %d of %s's Display refers to argument %s" % (i, s, p["arg"]), where)
            return
    # the Formatter is written exactly once, by that format_args!: nothing else in fmt (or in a crate function it hands the
    # formatter to) may receive it — `let _ = f.write_str("~")` changes the text without touching the returned Result
    import callees as _cal
    sinks = []
    todo, seen_ = [fn] + [g_ for g_ in F.fns if g_.kind == "Closure" and g_.path.startswith(fn.path)], set()
    while todo:
        g = todo.pop()
        if g.path in seen_:
            continue
        seen_.add(g.path)
        for b_, t_ in g.calls():
            if not any("Formatter" in ((a_.get("place") or {}).get("ty") or "") for a_ in t_["args"]):
                continue
            tgt = F.fn_by_path.get(t_["callee"].get("resolved") or t_["callee"].get("path"))
            if tgt is not None and (t_["callee"].get("local") or t_["callee"].get("resolved_local")):
                todo.append(tgt)
            else:
                sinks.append(_cal.strip_all_turbofish(_cal.callee_name(t_["callee"])))
    if len(sinks) != 1 or not re.search(r"fmt::Formatter(<[^>]*>)?::write_fmt$", sinks[0]):
        S.bad("K4", "display-extra-write", s, "Display of %s hands its Formatter to %s; the documented text is one write of the format string and nothing else" % (s, ", ".join(sinks) or "nothing"), where)
        return
    # resolve the arguments in MIR
    r = symex.evaluate(F, fn, symex.Policy(F, modular=False))
    # the text must be written unconditionally: one path, ending in the formatter's own result (no early `return Ok(())`, no `Err`)
    lv_ = leaves(r["ret"])
    if len(lv_) != 1 or lv_[0][0]:
        S.bad("K4", "display-conditional", s, "Display of %s writes its text only on some paths (%d outcomes; first condition %s): the documented text must be produced for every parameter value"
              % (s, len(lv_), show(lv_[0][0][0][0])[:80] if lv_ and lv_[0][0] else "-"), where)
        return
    if isinstance(lv_[0][1], tuple) and lv_[0][1][0] == "adt":
        S.bad("K4", "display-constant-result", s, "Display of %s returns a constant %s instead of the formatter's result" % (s, show(lv_[0][1])[:60]), where)
        return
    fa = fmt_args_in_order(r["ret"])
    mapping = flatten_adt(c["ok"], "self", {})
    if len(fa) != nparams:
        S.bad("K4", "display-args", s, "Display of %s formats %d value(s), constructor has %d parameter(s)" % (s, len(fa), nparams), where)
        return
    for i, (a, (pname, pty)) in enumerate(zip(fa, c["params"])):
        v = subst_pre_map(a[2], mapping)
        if a[1] != "display" or v != ("arg", pname):
            S.bad("K4", "display-arg", "%s:%d" % (s, i), "argument %d of %s's Display is %s (= %s), not the constructor parameter `%s`" % (i, s, show(a[2]), show(v), pname), where)
            return
    S.ok("K4", s, text=got, args=[show(a[2]) for a in fa])


def k5_default(F, S, s, c):
    fn = F.method(s, "default", trait="Default")
    if fn is None:
        S.bad("K5", "default-missing", s, "no Default impl for %s" % s)
        return
    want_consts = DEFAULTS.get(s)
    r = symex.evaluate(F, fn, symex.Policy(F, modular=False))
    got = r["ret"]
    mapping = {}
    for (p, ty), v in zip(c["params"], want_consts):
        mapping[p] = cu(v) if ty == "usize" else cf(v)
    if len(want_consts) != len(c["params"]):
        S.bad("K5", "default-arity", s, "%s::new takes %d parameters, the documented default has %d" % (s, len(c["params"]), len(want_consts)), loc(fn.span))
        return
    want = refold(subst_args(c["ok"], mapping))
    got = refold(got)
    if got == want:
        S.ok("K5", s, default=want_consts, value=show(got)[:160])
    else:
        S.bad("K5", "default-value", s, "%s::default() is %s but new(%s) is %s" % (s, show(got)[:200], ", ".join(map(str, want_consts)), show(want)[:200]), loc(fn.span))


RULES = [
    ("K6", "an indicator value is assembled only inside its own `new` (no second, unvalidated constructor)", 1),
    ("K1", "each `new` returns Err(InvalidParameter) iff some usize parameter is 0, Ok otherwise, and branches on nothing else", 22),
    ("K2", "no panic site (MIR Assert / panicking callee) is reachable from any `new`", 22),
    ("K3", "period()/multiplier() return the field initialised from the constructor argument", 20),
    ("K4", "Display renders NAME(params): literal pieces, plain {} placeholders, arguments = constructor parameters in order", 22),
    ("K5", "Default::default() equals new(<documented defaults>)", 22),
]


def k6_single_constructor(F, S):
    """K1/K2 speak about `new`.  Any other function that builds an indicator value itself (a struct aggregate outside `new`,
    `Default`, `Clone`, serde) would be a second, unvalidated way in: period 0, a window of another length, ..."""
    inds = set(F.indicators())
    n = 0
    for f in F.fns:
        if f.derived or f.kind == "Closure" and False:
            continue
        owner = f.self_struct
        if f.name == "new" and owner in inds and not f.d.get("impl_trait"):
            continue
        par_ = F.fn_by_path.get(f.d.get("parent") or "") if f.kind == "Closure" else None
        par_ctor_of = par_.self_struct if (par_ is not None and par_.is_ctor and par_.self_struct in inds) else None
        for b in f.blocks:
            for st in b["stmts"]:
                rv = st.get("rv") or {}
                if st["k"] == "assign" and rv.get("k") == "aggregate" and rv.get("agg") == "adt" and not rv.get("is_enum") and short(rv["path"]) in inds:
                    if par_ctor_of == short(rv["path"]):
                        continue  # a closure inside the `new` of that very indicator
                    n += 1
                    S.bad("K6", "second-constructor", "%s:%s" % (f.label, short(rv["path"])), "%s builds a %s itself: every indicator value must come from its validated `new` (or from Clone / Default / deserialisation of one that did)"
                          % (f.label, short(rv["path"])), loc(st["span"]))
    # ... and no other hand-written function hands out an indicator: `impl From<usize> for Sma { Self::new(p).unwrap_or_default() }`
    # is a constructor that accepts 0 without assembling anything itself
    for f in F.fns:
        if f.derived or f.kind == "Closure" or (f.is_ctor and f.self_struct in inds):
            continue
        if f.name == "default" and f.impl_trait in ("std::default::Default", "core::default::Default"):
            continue
        if f.path in F.helpers() and F.only_from_constructors(f.path):
            continue
        rt = f.locals[0]["ty"] if f.locals else {}

        def mentions_ind(ty_):
            if not isinstance(ty_, dict):
                return None
            if ty_.get("k") == "adt" and ty_.get("krate") == F.d["crate"] and short(ty_.get("path", "")) in inds:
                return short(ty_["path"])
            for x_ in (ty_.get("args") or []) + (ty_.get("elems") or []):
                r_ = mentions_ind(x_)
                if r_:
                    return r_
            return None   # (references to an indicator are not new values)
        who = mentions_ind(rt)
        if who:
            n += 1
            S.bad("K6", "second-constructor", "%s:%s" % (f.label, who), "%s returns a %s: besides `new`, `Default`, `Clone` and deserialisation nothing may hand out indicator values (its validation of the period is not K1's subject)" % (f.label, who), loc(f.span))
    if not n:
        S.ok("K6", "indicator values are built only in their `new`", indicators=len(inds))


def apply(F, S):
    k6_single_constructor(F, S)
    for s in F.indicators():
        if s not in NAMES:
            # an indicator the property does not name (added later): no documented parameters, Display text or defaults to compare with
            S.ok("K4", "%s: not one of the indicators the property names — outside its scope" % s)
            continue
        c = fieldclass.ctor(F, s)
        if c is None or c["ok"] is None:
            S.bad("K1", "anchor", s, "no analysable constructor for %s" % s)
            continue
        k1_zero_check(F, S, s, c)
        k2_no_panic(F, S, s, c)
        k3_accessors(F, S, s, c)
        k4_display(F, S, s, c)
        k5_default(F, S, s, c)


def run(tier, repo=None, tag="repo"):
    rep = Report("C11", tier)
    for rid, text, floor in RULES:
        rep.rule(rid, text, floor)
    F = ir.load("default", repo, tag)
    try:
        apply(F, Sink(rep))
    except symex.Unsupported as e:
        rep.violation("C11:unrecognised", "K1", "UNRECOGNISED idiom: %s" % e)
    B = ir.load("default", BAD_FIXTURE, "bad")
    C = Sink(None, "C11")
    cb = fieldclass.ctor(B, "BadShared")
    k2_no_panic(B, C, "BadShared", cb)
    rep.control("K2 checked add in a constructor", C.fired("panic-in-new", "BadShared::new:Overflow"))
    rep.configs = ["default"]
    rep.functions.update(f.path for f in F.fns if f.name in ("new", "default", "fmt", "period", "multiplier"))
    rep.explanation = ("symbolic evaluation of all 22 constructors (nested constructors inlined, `?` resolved through gamma terms), accessors, "
                       "Default impls and Display impls; AST format_args! nodes for the literal pieces and format specs")
    rep.assumptions = ["allocation failure for very large windows is outside the property (memory limits)"]
    return rep
