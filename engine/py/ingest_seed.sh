#!/bin/sh
# ingest_seed.sh <PROP> <name>: copy a sub-agent's seed from /tmp/wt_<PROP>/seed into /verif/seeded/<PROP>-<name>, verify and run checks
set -e
P=$1; N=$2; W=${3:-/tmp/wt_$P}; D=/verif/seeded/$P-$N
mkdir -p $D
cp $W/seed/patch.diff $W/seed/demo.rs $W/seed/meta.json $D/
# keep the demo's Cargo.toml if it needs extra deps (serde/bincode)
if grep -q "serde\|bincode" $W/seed/demo/Cargo.toml 2>/dev/null; then sed 's#path = "../.."#path = ".."#' $W/seed/demo/Cargo.toml > $D/demo.Cargo.toml; fi
python3 /verif/engine/py/seedcheck.py verify $P-$N > $D/verify.json 2>&1 || true
grep -E '"confirmed"|demo_with|demo_without' -A1 $D/verify.json | grep -E 'confirmed|PASS|FAIL'
python3 /verif/engine/py/seedcheck.py run $P-$N 2>&1 | tee $D/checks.txt | cut -c1-220
