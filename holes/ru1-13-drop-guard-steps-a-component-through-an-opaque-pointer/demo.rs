// C03: FastStochastic(n) = 100 * (x - low_n) / (high_n - low_n), 50 when high_n = low_n (scalar input: both over x).
use ta::indicators::FastStochastic;
use ta::Next;

fn main() {
    let n = 100usize;
    let mut fs = FastStochastic::new(n).unwrap();
    let xs: Vec<f64> = (0..300).map(|i| 50.0 + ((i * 29) % 43) as f64).collect();
    let mut worst = 0.0f64;
    for t in 0..xs.len() {
        let got = fs.next(xs[t]);
        let lo_i = if t + 1 > n { t + 1 - n } else { 0 };
        let w = &xs[lo_i..=t];
        let lo = w.iter().cloned().fold(f64::INFINITY, f64::min);
        let hi = w.iter().cloned().fold(f64::NEG_INFINITY, f64::max);
        let want = if hi == lo { 50.0 } else { (xs[t] - lo) / (hi - lo) * 100.0 };
        worst = worst.max((got - want).abs());
    }
    if worst > 1e-9 {
        eprintln!("C03 violated: FastStochastic(100) deviates from its documented formula by {}", worst);
        std::process::exit(1);
    }
}
