"""C08 — flat or zero-flow windows give finite, neutral outputs.
Necessary condition: no f64 division by a possibly-zero, data-derived denominator without a dominating zero guard;
guarded arms return the documented neutral constants; sqrt operands are non-negative."""
import invariants
import ir
import signs
import specs
import srcnames
import symex
from infra import BAD_FIXTURE, Report, Sink, loc
from terms import show

# named exceptions: (function label, denominator name) -> reason.  An exception that no longer matches a site is reported as stale.
EXCEPTIONS = {
    ("RateOfChange::<Next<f64>>::next", "previous"):
        "a price level: slot i of the ring is read only after it was written (count gating; the first call uses the input itself), so it is zero only if a zero price was fed, outside the premise",
    ("WeightedMovingAverage::<Next<f64>>::next", "weight*weight+1.0/2.0"):
        "weight = count as f64 after the first call's increment (the first call always takes the `count < period` branch because period >= 1; reset zeroes count and weight together), hence weight >= 1 and the denominator >= 1",
}
NEUTRAL = {"FastStochastic": 50.0, "CommodityChannelIndex": 0.0}


def apply(F, S, exceptions=EXCEPTIONS):
    sites = {}
    sq = {}
    for s in F.indicators():
        try:
            a = invariants.analysis(F, s, "positive")
        except (symex.Unsupported, KeyError, TypeError, AttributeError) as e:
            S.bad("V1", "unrecognised", s, "UNRECOGNISED idiom while analysing %s: %r" % (s, e))
            continue
        for e in a.errors:
            S.bad("V1", "unrecognised", s, "UNRECOGNISED idiom: %s" % e)
        for lab, (fn, r) in a.methods.items():
            for site in r["exec"].sites:
                if site["what"] == "fdiv":
                    env = a.site_env(site)
                    den = signs.evaluate(site["operands"]["den"], env)
                    g = F.fn_by_path[site["path"]]
                    nm = srcnames.div_names(g, site["block"], site["stmt"])
                    key = (site["fn"], site["block"], site["stmt"])
                    rec = sites.setdefault(key, {"fn": site["fn"], "den": nm[1], "num": nm[0], "span": site["span"], "visits": []})
                    rec["visits"].append((s, den, show(site["operands"]["den"])[:120]))
                elif site["what"] == "sqrt":
                    env = a.site_env(site)
                    arg = signs.evaluate(site["operands"]["arg"], env)
                    key = (site["fn"], site["span"]["line"], site["span"]["col"])
                    rec = sq.setdefault(key, {"fn": site["fn"], "span": site["span"], "visits": []})
                    rec["visits"].append((s, arg, show(site["operands"]["arg"])[:120]))
    used_exc = set()
    ordinal = {}
    for key in sorted(sites, key=lambda k: (k[0], k[1], k[2])):
        rec = sites[key]
        base = (rec["fn"], rec["den"])
        ordinal[base] = ordinal.get(base, 0) + 1
        inst = "%s: %s / %s%s" % (rec["fn"], rec["num"], rec["den"], "" if ordinal[base] == 1 else " #%d" % ordinal[base])
        unsafe = [(s, d, t) for (s, d, t) in rec["visits"] if d.contains_zero() or d.is_bot() and False]
        if not unsafe:
            S.ok("V1", inst, denominator=str(rec["visits"][0][1]), contexts=sorted({v[0] for v in rec["visits"]}))
            continue
        if base in exceptions:
            used_exc.add(base)
            S.ok("V1", inst, named_exception=exceptions[base], denominator=str(unsafe[0][1]))
            continue
        S.bad("V1", "div-unguarded", "%s:%s" % (rec["fn"], rec["den"]),
              "%s divides by `%s` (= %s, interval %s in the context of %s) without a dominating zero guard: on a flat / zero-flow window this is 0/0 = NaN"
              % (rec["fn"], rec["den"], unsafe[0][2], unsafe[0][1], ", ".join(sorted({u[0] for u in unsafe}))), loc(rec["span"]))
    for base, why in exceptions.items():
        if base not in used_exc:
            S.bad("V1", "stale-exception", "%s:%s" % base, "named exception %s / `%s` no longer matches any unguarded division: remove it" % base)
    # V3 sqrt operands
    for key, rec in sorted(sq.items()):
        bad = [(s, d, t) for (s, d, t) in rec["visits"] if not (d.lo >= 0)]
        inst = "%s: sqrt" % rec["fn"]
        if bad:
            S.bad("V3", "sqrt-negative", rec["fn"], "%s takes the square root of %s (interval %s): a negative rounding residue gives NaN on a flat window" % (rec["fn"], bad[0][2], bad[0][1]), loc(rec["span"]))
        else:
            S.ok("V3", inst, operand=str(rec["visits"][0][1]))
    # V2 neutral constants of the guarded arms (from the gated output terms)
    from terms import leaves, is_const
    for s, want in NEUTRAL.items():
        for fn in F.fns_of(s, "next", trait="Next"):
            try:
                r = symex.evaluate(F, fn, canon=True)
            except symex.Unsupported as e:
                S.bad("V2", "unrecognised", fn.label, "UNRECOGNISED idiom: %s" % e)
                continue
            consts = [l for c, l in leaves(r["ret"]) if is_const(l)]
            if len(consts) == 1 and consts[0][2] == want and len(leaves(r["ret"])) == 2:
                cond = leaves(r["ret"])[0][0]
                S.ok("V2", "%s returns %s on its degenerate arm" % (fn.label, want), guard=show(cond[0][0])[:100] if cond else "")
            else:
                S.bad("V2", "neutral-value", fn.label, "%s: the zero-range/zero-deviation arm must return exactly %s (found constant arms %s)" % (fn.label, want, [c[2] for c in consts]), loc(fn.span))
    return sites


def run(tier, repo=None, tag="repo"):
    rep = Report("C08", tier)
    rep.rule("V1", "every f64 division in a Next/Reset body has a denominator that excludes 0 under the premises (price > 0, volume >= 0, period >= 1), is dominated by a zero guard, or is a named exception", 12)
    rep.rule("V2", "the guarded arms return exactly the documented neutral constants (FastStochastic 50 on both paths, CCI 0)", 3)
    rep.rule("V3", "sqrt operands are non-negative", 1)
    F = ir.load("default", repo, tag)
    apply(F, Sink(rep))
    inv = rep.rule("V0", "all 22 indicators analysed (fully inlined terms, class invariants)", 22)
    for s_ in F.indicators():
        inv.ok(s_)
    rep.configs = ["default"]
    rep.functions.update(f.path for f in F.fns if f.trait_short in ("Next", "Reset"))
    B = ir.load("default", BAD_FIXTURE, "bad")
    C = Sink(None, "C08")
    apply(B, C, exceptions={})
    rep.control("V1 unguarded division", C.fired("div-unguarded", "BadDiv"))
    rep.control("V3 sqrt of a signed value", C.fired("sqrt-negative", "BadDiv"))
    rep.explanation = ("interval/sign evaluation of the fully inlined gated terms of every indicator (class invariants per field path by fixpoint); every f64 Div "
                       "site is visited with its dominating branch facts; the check says 'no unguarded 0/0 is expressible', not 'every degenerate window "
                       "yields the neutral value' (rounding residue, MAD/SD -> 0 within tau, EMA underflow timing are NOT decided)")
    rep.assumptions = ["premises of the property: prices > 0, volume >= 0, valid bars, period >= 1", "no float overflow/underflow for the magnitudes bounded by the property",
                       "named exceptions are listed with their reasons in engine/py/rules_c08.py"]
    return rep
