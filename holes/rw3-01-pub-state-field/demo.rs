// Demo for hole 01: a `pub` state/parameter field lets safe client code break C11 (period() is no longer
// the constructor argument for the indicator's whole life; the Display text changes) and C12 (next() panics
// with an out-of-bounds index) -- no unsafe, no serde, only `new`, a field store, `next`.
// Build as a bin crate with `ta = { path = <crate> }`; exits 1 on the patched crate.
// Field privacy is a compile-time matter, so against the ORIGINAL crate the store in `tamper` does not
// compile (that is the point); build with `--features orig` (declare `[features] orig = []`) to take the
// path without the store, which exits 0.
use std::panic;
use ta::indicators::SimpleMovingAverage;
use ta::{Next, Period};

#[cfg(not(feature = "orig"))]
fn tamper(s: &mut SimpleMovingAverage) {
    s.period = 8; // only compiles when the field is `pub` (patched crate)
}
#[cfg(feature = "orig")]
fn tamper(_s: &mut SimpleMovingAverage) {}

fn main() {
    let mut s = SimpleMovingAverage::new(3).unwrap();
    for x in [1.0, 2.0, 3.0] {
        s.next(x);
    }
    tamper(&mut s);
    let mut bad = false;
    if s.period() != 3 || format!("{}", s) != "SMA(3)" {
        eprintln!("C11 violated: period() = {}, Display = {}", s.period(), s);
        bad = true;
    }
    let r = panic::catch_unwind(move || {
        let mut s = s;
        for x in [4.0, 5.0, 6.0, 7.0] {
            s.next(x);
        }
    });
    if r.is_err() {
        eprintln!("C12 violated: next() panicked (index out of bounds)");
        bad = true;
    }
    std::process::exit(if bad { 1 } else { 0 });
}
