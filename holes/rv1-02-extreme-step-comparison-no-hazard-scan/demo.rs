// C01: Minimum returns EXACTLY the least element of the last n inputs.
// C07: FastStochastic stays in [0, 100] for finite prices whenever max != min.
use ta::indicators::{FastStochastic, Minimum};
use ta::Next;

fn main() {
    let mut bad = 0;
    let inputs = [1.0000000000003, 1.0000000000009, 1.0000000000002, 1.0000000000001, 1.0, 1.0000000000004];
    let mut mn = Minimum::new(3).unwrap();
    let mut fs = FastStochastic::new(3).unwrap();
    let mut hist: Vec<f64> = vec![];
    for (t, &x) in inputs.iter().enumerate() {
        hist.push(x);
        let start = hist.len().saturating_sub(3);
        let want = hist[start..].iter().cloned().fold(f64::INFINITY, f64::min);
        let got = mn.next(x);
        let k = fs.next(x);
        let ok_min = got == want;
        let ok_fs = k >= -1e-9 && k <= 100.0 + 1e-9;
        println!("t={} x={:.16} Minimum={:.16} least={:.16} FastStochastic={} {}{}", t + 1, x, got, want, k,
                 if ok_min { "" } else { "<-- not the least element " }, if ok_fs { "" } else { "<-- outside [0,100]" });
        if !ok_min || !ok_fs {
            bad += 1;
        }
    }
    if bad > 0 {
        println!("VIOLATED: {} steps", bad);
        std::process::exit(1);
    }
    println!("ok");
}
