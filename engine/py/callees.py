"""Classification of callees by *family* (path pattern + self type), shared by
C05-S5 (effect closure), C12-P2 (panicking callees) and C18-G2 (allocation).

classes:
  local      crate-local function with MIR in the fact base (followed)
  user       method of a crate trait called on the user's generic bar type T
  pure       deterministic, non-panicking, non-allocating std function
  may_panic  std function that can panic on some argument (needs a discharge rule)
  allocates  may allocate; does not panic except for allocation failure / capacity overflow
  fmt        formatting machinery (core::fmt); allowed in fmt/Display/Debug contexts
  serde      serde runtime; allowed inside derived serde impls only
  forbidden  shared/hidden/non-deterministic state, raw memory, threads, time, I/O ...
  unknown    not classified  => every rule fails closed
"""
import re

FORBIDDEN = [
    r"\btime::", r"\benv::", r"\bthread::", r"\bsync::", r"\bcell::", r"\brc::", r"\bfs::", r"\bio::", r"\bnet::",
    r"\bprocess::", r"\bhash_map\b", r"\bhash_set\b", r"\bHashMap\b", r"\bHashSet\b", r"\bRandomState\b",
    r"\batomic::", r"\bmem::transmute", r"\bmem::zeroed", r"\bmem::uninitialized", r"\bMaybeUninit\b", r"\bmem::forget",
    r"\bptr::", r"\bany::", r"\bpanic::", r"\bintrinsics::", r"\bos::", r"\bffi::", r"\brandom\b", r"\bLocalKey\b",
    r"\bthread_local\b", r"\barch::", r"\bsimd::", r"\bCell\b", r"\bRefCell\b", r"\bUnsafeCell\b", r"\bRc\b", r"\bArc\b",
    r"\bMutex\b", r"\bRwLock\b", r"\bOnceCell\b", r"\bOnceLock\b", r"\bLazyLock\b", r"\bLazyCell\b", r"\bInstant\b",
    r"\bSystemTime\b", r"\balloc::alloc\b", r"\balloc::dealloc\b", r"\balloc::realloc\b", r"\bGlobalAlloc\b",
    r"\bManuallyDrop\b", r"\bNonNull\b", r"\bBox(::<.*>)?::(leak|from_raw|into_raw)", r"\bVec(::<.*>)?::(from_raw_parts|set_len|as_mut_ptr|as_ptr|leak)",
    r"\bslice::from_raw_parts", r"\bget_unchecked", r"\bunchecked\b", r"\bas_ptr\b", r"\bas_mut_ptr\b", r"\bbacktrace::", r"\bLocation\b",
]
FORBIDDEN_RE = re.compile("|".join(FORBIDDEN))

MAY_PANIC = [
    (r"Result(::<.*>)?::(unwrap|expect|unwrap_err|expect_err)$", "unwrap"),
    (r"Option(::<.*>)?::(unwrap|expect)$", "unwrap"),
    (r"slice::index::<impl (std|core)::ops::Index(Mut)?<.*> for \[[^\]]*\]>::index(_mut)?$", "slice-index"),
    (r"ops::Index(Mut)?<.*>>::index(_mut)?$", "index"),
    (r"ops::Index(Mut)?::index(_mut)?$", "index"),
    (r"<impl \[[^\]]*\]>::(split_at|split_at_mut)$", "slice-index"),
    (r"<impl \[[^\]]*\]>::(swap|copy_from_slice|clone_from_slice|chunks|chunks_exact|chunks_mut|windows|rotate_left|rotate_right|copy_within|select_nth_unstable\w*)$", "slice-arg"),
    (r"<impl f64>::clamp$", "clamp"),
    (r"cmp::Ord::clamp$|cmp::PartialOrd::clamp$", "clamp"),
    (r"<impl (usize|u\d+|i\d+|isize)>::(pow|div_euclid|rem_euclid|next_power_of_two|ilog\w*|div_ceil|next_multiple_of|abs|isqrt|midpoint|strict_\w+)$", "int-arith"),
    (r"<(&)?(usize|u\d+|i\d+|isize) as (std|core)::ops::(Add|Sub|Mul|Div|Rem|Neg|Shl|Shr|AddAssign|SubAssign|MulAssign|DivAssign|RemAssign)(<.*>)?>::\w+$", "int-op"),
    (r"iter::Iterator::(step_by)$", "step_by"),
    (r"iter::(traits::)?(accum::)?(Sum|Product)(<.*>)?.*(usize|u\d+|i\d+|isize)", "int-sum"),
    (r"panicking::|::panic\w*$|assert_failed|unreachable_display|::unreachable$|::todo$|::unimplemented$", "panic"),
    (r"Vec(::<.*>)?::(remove|insert|swap_remove|drain|split_off|truncate|dedup\w*|retain\w*|splice)$", "vec-arg"),
    (r"VecDeque(::<.*>)?::(remove|insert|swap|range|drain|split_off)$", "vecdeque-arg"),
    (r"str::.*(index|split_at)|String::<?.*>?::(remove|insert|drain|split_off|truncate)", "str-arg"),
    (r"char::from_digit|from_u32_unchecked|RangeInclusive|Duration", "misc"),
]
MAY_PANIC_RE = [(re.compile(p), n) for p, n in MAY_PANIC]
CMP_IMPL_RE = re.compile(r"<(std::boxed::Box<\[[^\]]*\]>|\[[^\]]*\]|&?\[[^\]]*\]) as (std|core)::cmp::(PartialEq|PartialOrd|Eq|Ord)(<.*>)?>::(eq|ne|lt|le|gt|ge|partial_cmp|cmp)$"
                         r"|slice::cmp::<impl (std|core)::cmp::(PartialEq|PartialOrd|Eq|Ord)(<.*>)? for \[[^\]]*\]>::(eq|ne|lt|le|gt|ge|partial_cmp|cmp)$")

ALLOCATES = [
    r"\bvec::from_elem\b", r"\bVec(::<.*>)?::", r"\bvec::Vec\b", r"\bboxed::Box\b", r"\bBox(::<.*>)?::new\b", r"\bexchange_malloc\b",
    r"<impl \[[^\]]*\]>::(to_vec|into_vec|concat|join|sort|sort_by|sort_by_key|sort_by_cached_key|repeat)$", r"\bstring::String\b", r"\bString::", r"\bToString::to_string\b",
    r"\bfmt::format\b", r"\bVecDeque\b", r"\bBTreeMap\b", r"\bBTreeSet\b", r"\bBinaryHeap\b", r"\bLinkedList\b",
    r"\bIterator::collect\b", r"\bFromIterator\b", r"\bExtend\b", r"\bToOwned::to_owned\b", r"\bborrow::Cow\b",
    r"<std::boxed::Box<.*> as std::clone::Clone>::clone", r"<std::vec::Vec<.*> as std::clone::Clone>::clone",
    r"<std::boxed::Box<.*> as (std|core)::convert::From<.*>>::from", r"<std::vec::Vec<.*> as (std|core)::convert::From<.*>>::from",
    r"<std::boxed::Box<.*> as (std|core)::default::Default>::default", r"\bslice::hack\b", r"\bRawVec\b",
]
ALLOCATES_RE = re.compile("|".join(ALLOCATES))
# allocating callees known not to panic for any argument (capacity overflow / OOM aside)
ALLOC_NOPANIC_RE = re.compile(r"\bvec::from_elem\b|Vec(::<.*>)?::(into_boxed_slice|new|push|len|is_empty|clear|iter|iter_mut|as_slice|as_mut_slice|pop|first|last|get|get_mut|extend_from_slice|with_capacity)$|<impl \[[^\]]*\]>::(to_vec|into_vec)$|<std::boxed::Box<.*> as std::clone::Clone>::clone|<std::vec::Vec<.*> as std::clone::Clone>::clone|\bfmt::format\b|\bToString::to_string\b|\bIterator::collect\b|\bBox(::<.*>)?::new\b|<std::boxed::Box<.*> as (std|core)::convert::From<.*>>::from")

PURE = [
    r"<impl f64>::\w+$",  # inherent f64 methods (clamp excluded above)
    r"<impl (usize|u\d+|i\d+|isize)>::((?!\w*(div|rem))(saturating_\w+|wrapping_\w+|overflowing_\w+)|checked_\w+|min|max|abs_diff|is_power_of_two|count_\w+|leading_\w+|trailing_\w+|swap_bytes|to_[bl]e|from_[bl]e|signum|is_positive|is_negative|unsigned_abs)$",
    r"<impl bool>::\w+$",
    r"<(&)?f64 as (std|core)::ops::\w+(<.*>)?>::\w+$",
    r"(std|core)::cmp::(PartialOrd|PartialEq|Ord|Eq)(<.*>)?::(lt|le|gt|ge|eq|ne|partial_cmp|cmp|max|min)$",
    r"cmp::impls::<impl (std|core)::cmp::\w+(<.*>)? for [^>]*>::(lt|le|gt|ge|eq|ne|partial_cmp|cmp|max|min)$",
    r"<.* as (std|core)::cmp::(PartialOrd|PartialEq|Ord|Eq)(<.*>)?>::(lt|le|gt|ge|eq|ne|partial_cmp|cmp|max|min)$",
    r"(std|core)::cmp::(max|min|max_by|min_by|max_by_key|min_by_key)$", r"cmp::Ordering::\w+$",
    r"str::traits::<impl (std|core)::cmp::PartialEq for str>::(eq|ne)$",
    r"Option(::<.*>)?::(is_some|is_none|is_some_and|is_none_or|map|map_or|map_or_else|unwrap_or|unwrap_or_default|unwrap_or_else|and|and_then|or|or_else|take|replace|as_ref|as_mut|copied|cloned|filter|ok_or|ok_or_else|zip|xor|get_or_insert|get_or_insert_with|insert|iter|iter_mut|flatten|inspect)$",
    r"Result(::<.*>)?::(is_ok|is_err|ok|err|map|map_err|map_or|map_or_else|and|and_then|or|or_else|unwrap_or|unwrap_or_default|unwrap_or_else|as_ref|as_mut|copied|cloned|iter)$",
    r"ops::Try>::branch$|ops::FromResidual<.*>>::from_residual$|ops::Try>::from_output$",
    r"iter::IntoIterator>::into_iter$|iter::IntoIterator for .*>::into_iter$",
    r"iter::Iterator::(enumerate|zip|skip|take|map|filter|filter_map|copied|cloned|chain|rev|peekable|fuse|inspect|by_ref|take_while|skip_while|scan|flat_map|flatten|sum|product|fold|for_each|all|any|count|max_by|min_by|max_by_key|min_by_key|position|rposition|last|nth|find|find_map|reduce|try_fold|try_for_each|size_hint|eq|lt|le|gt|ge|is_sorted)$",
    r"iter::(traits::)?\w+::\w+::(next|next_back|len|size_hint|fold|nth)$",
    r"<(std|core)::(iter|slice|ops|option|result|array)::[\w:]+(<.*>)? as (std|core)::iter::(Iterator|DoubleEndedIterator|ExactSizeIterator)>::\w+$",
    r"iter::range::<impl (std|core)::iter::(Iterator|DoubleEndedIterator) for (std|core)::ops::Range(Inclusive)?<.*>>::\w+$",
    r"<impl \[[^\]]*\]>::(iter|iter_mut|len|is_empty|first|last|get|get_mut|fill|fill_with|first_mut|last_mut|contains|split_first|split_last|starts_with|ends_with|reverse|binary_search\w*)$",
    r"array::<impl .*>::\w+$",
    r"clone::impls::<impl (std|core)::clone::Clone for (f64|usize|bool|u\d+|i\d+|isize|f32|char)>::clone$",
    r"<(std|core)::option::Option<.*> as (std|core)::clone::Clone>::clone$",
    r"(std|core)::clone::Clone::clone$",  # unresolved generic clone on a Copy-ish param: checked by type grammar
    r"default::Default>::default$|<impl (std|core)::default::Default for (f64|usize|bool|u\d+|i\d+|isize)>::default$",
    r"convert::(From|Into|AsRef|AsMut)<.*>>::(from|into|as_ref|as_mut)$",
    r"convert::num::<impl (std|core)::convert::(From|TryFrom)<.*> for .*>::(from|try_from)$",
    r"convert::num::\w+::<impl (std|core)::convert::(From|TryFrom)<.*> for .*>::(from|try_from)$",
    r"mem::(swap|replace|take|size_of|size_of_val|align_of|drop|discriminant)$",
    r"(std|core)::ops::(Fn|FnMut|FnOnce)(<.*>)?::call(_mut|_once)?$",
    r"ops::(Deref|DerefMut)>::deref(_mut)?$|ops::(Deref|DerefMut)::deref(_mut)?$",
    r"ops::function::impls::<impl .*>::call(_mut|_once)?$",
    r"ops::Range(Inclusive|To|From)?(<.*>)?::(contains|is_empty|len|new|start|end)$",
    r"hint::(black_box|must_use)$", r"marker::",
    r"num::(nonzero::)?NonZero(::<.*>)?::(new|get)$",
    r"f64::consts", r"num::<impl f64>::\w+$", r"num::FpCategory",
    r"(std|core)::borrow::(Borrow|BorrowMut)(<.*>)?::borrow(_mut)?$",
]
PURE_RE = re.compile("|".join(PURE))
FMT_RE = re.compile(r"\bfmt::|\bfmt::rt::")
UNBOUNDED_RE = re.compile(r"iter::(Iterator::cycle|repeat|repeat_with|successors|from_fn|once_with)\b|sources::")


def strip_turbofish(n):
    """drop a trailing `::<...>` generic argument list (method-level turbofish)"""
    if not n or not n.endswith(">"):
        return n
    depth = 0
    for i in range(len(n) - 1, -1, -1):
        ch = n[i]
        if ch == ">" and i > 0 and n[i - 1] == "-":
            continue  # the arrow of a fn type, not a bracket
        if ch == ">":
            depth += 1
        elif ch == "<":
            depth -= 1
            if depth == 0:
                if i >= 2 and n[i - 2:i] == "::":
                    return n[:i - 2]
                return n
    return n


def strip_all_turbofish(n):
    """remove every `::<...>` generic-argument list (types mentioned only as arguments must not decide the family)"""
    if not n:
        return n
    out = []
    i = 0
    while i < len(n):
        if n.startswith("::<", i) and not n.startswith("::<impl ", i):
            depth = 0
            j = i + 2
            while j < len(n):
                if n[j] == "<":
                    depth += 1
                elif n[j] == ">" and n[j - 1] == "-":
                    pass  # `->` in a fn type
                elif n[j] == ">":
                    depth -= 1
                    if depth == 0:
                        break
                j += 1
            i = j + 1
            continue
        out.append(n[i])
        i += 1
    return "".join(out)


def callee_name(c):
    return c.get("resolved_args") or c.get("resolved") or c.get("path_args") or c.get("path") or c.get("ty") or "?"


def classify(callee, crate="ta", local_traits=()):
    """-> (class, family/detail)"""
    if callee.get("indirect"):
        return ("unknown", "indirect call through " + str(callee.get("ty")))
    res_local = callee.get("resolved_local")
    krate = callee.get("resolved_krate") or callee.get("krate")
    name = strip_all_turbofish(callee_name(callee))
    generic_name = strip_all_turbofish(callee.get("path_args") or callee.get("path") or "")
    if res_local or (callee.get("local") and not callee.get("trait")):
        return ("local", name)
    if callee.get("local") and callee.get("trait") and not callee.get("resolved"):
        # crate trait method on a generic parameter (the user's bar type)
        st = callee.get("self_ty") or {}
        if st.get("k") == "param":
            if callee.get("not_getter"):
                return ("unknown", "crate trait method %s called on the type parameter %s: not one of the price getters, its effects are unknown" % (callee["path"], st.get("name")))
            return ("user", "%s on %s" % (callee["path"], st.get("name")))
        if st.get("k") == "adt" and st.get("krate") == crate:
            # a crate trait method on a crate type, generic in the trait's arguments (`TrueRange: Next<I>`): one of this crate's own
            # impls of that trait for that type — all of them are analysed, and the evaluator picks the instance at each call site
            return ("local", name)
        return ("unknown", "unresolved crate trait call on " + str(st.get("s")))
    both = name + " | " + generic_name
    if krate in ("serde", "serde_core", "serde_derive") or "_serde::" in name:
        return ("serde", name)
    if krate not in ("core", "alloc", "std"):
        if re.search(r"rand", krate or ""):
            return ("forbidden", "random-number crate " + str(krate))
        return ("unknown", "external crate %s: %s" % (krate, name))
    if FORBIDDEN_RE.search(both):
        return ("forbidden", name)
    if UNBOUNDED_RE.search(both):
        return ("unknown", "unbounded iterator source " + name)
    # ... or an unbounded source as the *type* something is instantiated at: `(n..).last()`, `repeat(x).count()`
    raw_all = (callee.get("path_args") or "") + " " + str((callee.get("self_ty") or {}).get("s", "")) + " " + " ".join(str(a_.get("s", "")) for a_ in (callee.get("targs") or []))
    if re.search(r"\bRangeFrom\b|\bRepeat\b|\bRepeatWith\b|\bCycle\b|\bSuccessors\b|\bFromFn\b|\bRepeatN\b", raw_all):
        return ("unknown", "a std function instantiated at an unbounded iterator type: " + name)
    raw = callee.get("path_args") or ""
    if re.search(r"Iterator(>)?::(sum|product)::<(usize|u\d+|i\d+|isize)>$", raw) or re.search(r"(Sum|Product)<.*>.*for (usize|u\d+|i\d+|isize)>::(sum|product)", raw):
        return ("may_panic", "int-sum")   # integer sums overflow under overflow checks
    if CMP_IMPL_RE.search(name):
        return ("pure", name)   # comparisons of owned plain data (derived PartialEq reaches Box<[f64]>::eq): no panic, no allocation
    for rx, fam in MAY_PANIC_RE:
        if rx.search(name) or rx.search(generic_name):
            return ("may_panic", fam)
    if ALLOCATES_RE.search(both):
        return ("allocates", "nopanic" if ALLOC_NOPANIC_RE.search(both) else "maypanic")
    if FMT_RE.search(name):
        return ("fmt", name)
    if PURE_RE.search(name) or PURE_RE.search(generic_name):
        return ("pure", name)
    return ("unknown", name)
