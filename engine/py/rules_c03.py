"""C03 — oscillators equal their documented formulas (step-function part)."""
import ir
from infra import Report
from rules_spec import run_units

UNITS = ["RelativeStrengthIndex", "FastStochastic", "SlowStochastic", "PercentagePriceOscillator", "CommodityChannelIndex", "OnBalanceVolume"]
RULE = {"ctor": "O1", "output": "O2", "post-state": "O2", "feed": "O3", "feed-count": "O3", "feed-extra": "O3"}


def run(tier, repo=None, tag="repo"):
    rep = Report("C03", tier)
    rep.rule("O1", "constructor wiring of each oscillator equals the documented construction", 15)
    rep.rule("O2", "output term and state post-terms equal the documented formula (all gamma outcomes, real-arithmetic normal form)", 14)
    rep.rule("O3", "each component is stepped once per call with the documented series (bar-typed calls are followed through the resolved callee's delegation)", 15)
    rep.rule("O0", "state shape / recognised idioms", 0)
    configs = ["default"] + (["release"] if tier == "thorough" else [])
    for cfg in configs:
        F = ir.load(cfg, repo, tag)
        run_units("C03", UNITS, None, rep, F, lambda k: RULE.get(k, "O0"))
    rep.configs = configs
    rep.explanation = ("step-function match for RSI, FastStochastic, SlowStochastic, PPO, CCI and OBV against the documented formulas; NOT decided: "
                       "RateOfChange, EfficiencyRatio, MoneyFlowIndex window semantics (ring contents), tolerances")
    rep.assumptions = ["real-arithmetic equality; components satisfy their own specs (modular)",
                       "RateOfChange / EfficiencyRatio / MoneyFlowIndex formulas refer to ring-buffer contents and are not decided by this check"]
    return rep
