// C01 / C17: SimpleMovingAverage(n) returns the mean of exactly the last min(t, n) inputs.
use ta::indicators::SimpleMovingAverage;
use ta::Next;

fn main() {
    let n = 100usize;
    let mut sma = SimpleMovingAverage::new(n).unwrap();
    let xs: Vec<f64> = (0..400).map(|i| 10.0 + ((i * 37) % 101) as f64 * 0.5).collect();
    let mut worst = 0.0f64;
    for t in 0..xs.len() {
        let got = sma.next(xs[t]);
        let lo = if t + 1 > n { t + 1 - n } else { 0 };
        let w = &xs[lo..=t];
        let want = w.iter().sum::<f64>() / w.len() as f64;
        worst = worst.max((got - want).abs());
    }
    if worst > 1e-9 {
        eprintln!("C01 violated: SMA(100) deviates from the mean of the last 100 inputs by {}", worst);
        std::process::exit(1);
    }
}
