// C16: build() must return Err(DataItemIncomplete) iff any of the five fields was never set.
use ta::errors::TaError;
use ta::DataItem;

fn main() {
    // volume is never set
    let r = DataItem::builder().open(2.0).high(3.0).low(1.0).close(2.5).build();
    match r {
        Err(TaError::DataItemIncomplete) => {
            println!("ok: missing volume rejected as DataItemIncomplete");
        }
        other => {
            println!("VIOLATION C16: volume never set but build() returned {:?}", other);
            std::process::exit(1);
        }
    }
}
