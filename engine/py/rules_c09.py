"""C09 — dispersion measures are non-negative and bands are ordered around their middle."""
import fieldclass
import invariants
import ir
import signs
import symex
from infra import BAD_FIXTURE, Report, Sink, loc
from norm import Normalizer, Poly, Rat
from signs import Iv
from terms import cf, show, subterms


def ret_fields(ret):
    if isinstance(ret, tuple) and ret[0] == "adt":
        return dict(ret[3])
    return {"": ret}


def poly_interval(p, N, env, key2term):
    """interval of a polynomial over atoms"""
    total = Iv.point(0.0)
    for mono, coef in p.t.items():
        v = Iv.point(float(coef))
        for atom, e in mono:
            t = key2term.get(atom)
            a = signs.evaluate(t, env) if t is not None else Iv.top()
            for _ in range(e):
                v = signs.mul(v, a)
        total = signs.add(total, v)
    return total


class KeyedNormalizer(Normalizer):
    def __init__(self):
        super().__init__()
        self.key2term = {}

    def atom_key(self, t):
        k = super().atom_key(t)
        self.key2term.setdefault(k, t)
        return k


def diff_interval(a, b, env):
    """interval of a - b after cancelling common parts (rational normal form)"""
    N = KeyedNormalizer()
    d = N.rat(a) - N.rat(b)
    if d.d.is_const() and d.d.const_value() != 0:
        return poly_interval(d.n.scale(1 / d.d.const_value()), N, env, N.key2term)
    return signs.evaluate(("-", a, b), env)


def nonneg_outputs(F, S, rid, struct, premise, what):
    a = invariants.analysis(F, struct, premise)
    for e in a.errors:
        S.bad(rid, "unrecognised", struct, "UNRECOGNISED idiom: %s" % e)
    for lab, (fn, r) in a.methods.items():
        if fn.trait_short != "Next":
            continue
        env = a.base_env()
        v = signs.evaluate(r["ret"], env)
        if v.lo >= 0 and not v.nan:
            S.ok(rid, "%s >= 0" % lab, interval=str(v), premise=what)
        else:
            S.bad(rid, "may-be-negative-or-nan", lab, "%s returns a value in %s; %s must be >= 0 and never NaN for %s" % (lab, v, struct, what), loc(fn.span))
    return a


def apply(F, S):
    # N1/N2 dispersion (all finite inputs, any sign)
    nonneg_outputs(F, S, "N1", "StandardDeviation", "finite", "all finite inputs")
    nonneg_outputs(F, S, "N2", "MeanAbsoluteDeviation", "finite", "all finite inputs")
    # N3/N4 ranges (bars with low <= high)
    nonneg_outputs(F, S, "N3", "TrueRange", "finite", "bars with low <= high")
    nonneg_outputs(F, S, "N4", "AverageTrueRange", "finite", "bars with low <= high")
    # N5 bands: lower <= average <= upper with multiplier >= 0
    for struct in ("BollingerBands", "KeltnerChannel"):
        a = invariants.analysis(F, struct, "finite", multiplier_nonneg=True)
        for lab, (fn, r) in a.methods.items():
            if fn.trait_short != "Next":
                continue
            env = a.base_env()
            d = ret_fields(r["ret"])
            if not {"average", "upper", "lower"} <= set(d):
                S.bad("N5", "band-shape", lab, "%s does not return average/upper/lower" % lab, loc(fn.span))
                continue
            up = diff_interval(d["upper"], d["average"], env)
            lo = diff_interval(d["average"], d["lower"], env)
            if up.lo >= 0 and lo.lo >= 0 and not up.nan and not lo.nan:
                S.ok("N5", "%s: lower <= average <= upper" % lab, upper_minus_average=str(up), average_minus_lower=str(lo))
            else:
                S.bad("N5", "band-order", lab, "%s: upper - average in %s, average - lower in %s: the bands are not ordered around the middle for multiplier >= 0" % (lab, up, lo), loc(fn.span))
    # N6 Chandelier: long <= window maximum, short >= window minimum
    a = invariants.analysis(F, "ChandelierExit", "finite", multiplier_nonneg=True)
    for lab, (fn, r) in a.methods.items():
        if fn.trait_short != "Next":
            continue
        env = a.base_env()
        # modular view to name the component outputs
        m = symex.evaluate(F, fn, canon=True)
        d = ret_fields(m["ret"])
        steps = {s_[1]: ("ret", s_) for s_ in symex.Exec.flat_steps(m["steps"])}
        hi = [v for k, v in steps.items() if "Maximum" in v[1][2]]
        lo = [v for k, v in steps.items() if "Minimum" in v[1][2]]
        atr = [v for k, v in steps.items() if "AverageTrueRange" in v[1][2]]
        if not (hi and lo and atr and {"long", "short"} <= set(d)):
            S.bad("N6", "exit-shape", lab, "%s does not combine Maximum, Minimum and ATR into long/short" % lab, loc(fn.span))
            continue
        env.atoms[atr[0]] = Iv(0.0, signs.INF)  # ATR >= 0 (N4)
        d1 = diff_interval(hi[0], d["long"], env)
        d2 = diff_interval(d["short"], lo[0], env)
        if d1.lo >= 0 and d2.lo >= 0:
            S.ok("N6", "%s: long <= max, short >= min" % lab, max_minus_long=str(d1), short_minus_min=str(d2))
        else:
            S.bad("N6", "exit-order", lab, "%s: window max - long in %s, short - window min in %s" % (lab, d1, d2), loc(fn.span))
    # N7 histogram = line - signal
    for struct, line in (("MovingAverageConvergenceDivergence", "macd"), ("PercentagePriceOscillator", "ppo")):
        for fn in F.fns_of(struct, "next", trait="Next"):
            if fn.next_input != "f64":
                continue
            r = symex.evaluate(F, fn, canon=True)
            d = ret_fields(r["ret"])
            N = Normalizer()
            if {"histogram", "signal", line} <= set(d) and N.key(d["histogram"]) == N.key(("-", d[line], d["signal"])):
                S.ok("N7", "%s: histogram = %s - signal" % (fn.label, line))
            else:
                S.bad("N7", "histogram", fn.label, "%s: histogram is %s, not %s - signal" % (fn.label, show(d.get("histogram"))[:120], line), loc(fn.span))
    # N8 EMA is a convex combination of input and previous value
    fn = F.method("ExponentialMovingAverage", "next", trait="Next", next_input="f64")
    if fn is None:
        S.bad("N8", "anchor", "ExponentialMovingAverage", "EMA::next not found")
    else:
        r = symex.evaluate(F, fn, canon=True)
        a = invariants.analysis(F, "ExponentialMovingAverage", "finite")
        env = a.base_env()
        x, cur = ("arg", "a0"), None
        post = r["heap"]
        cands = [k for k, v in post.items() if any(s_ == ("pre", k) for s_ in subterms(v)) and invariants.path_type(F, "ExponentialMovingAverage", k) == "f64"]
        ok = False
        why = "no recursive state field found"
        for k in cands:
            cur = ("pre", k)
            t = post[k]

            def sub(term, vx, vc):
                if term == x:
                    return cf(vx)
                if term == cur:
                    return cf(vc)
                if isinstance(term, tuple):
                    return tuple(sub(y, vx, vc) for y in term)
                return term
            N = KeyedNormalizer()
            from terms import leaves
            good = True
            for conds, leaf in leaves(t):
                if leaf == x:
                    continue  # seeding with the first input
                c11 = N.rat(sub(leaf, 1.0, 1.0))
                c00 = N.rat(sub(leaf, 0.0, 0.0))
                cx = signs.evaluate(sub(leaf, 1.0, 0.0), env)
                cc = signs.evaluate(sub(leaf, 0.0, 1.0), env)
                if not (c11.equals(Rat(Poly.const(1))) and c00.n.is_zero() and cx.within(0.0, 1.0) and cc.within(0.0, 1.0)):
                    good = False
                    why = "update %s has weights %s and %s (sum must be 1, each in [0,1])" % (show(leaf)[:100], cx, cc)
            if good:
                ok = True
                S.ok("N8", "EMA update is a convex combination of input and previous value", field=k, k_interval=str(a.inv.get("self.k")))
        if not ok:
            S.bad("N8", "ema-not-convex", "ExponentialMovingAverage", "EMA::next is not a convex combination of input and previous value: %s" % why, loc(fn.span))


class _Map(Sink):
    """forwards selected rules of C01's code under a rule id of this report"""

    def __init__(self, report, mapping):
        Sink.__init__(self, report)
        self.mapping = mapping

    def ok(self, rule, instance, **facts):
        if rule in self.mapping:
            Sink.ok(self, self.mapping[rule], instance, **facts)

    def bad(self, rule, slug, symbol, msg, where=None, **facts):
        if rule in self.mapping:
            Sink.bad(self, self.mapping[rule], slug, symbol, msg, where, **facts)


class _MapFor(_Map):
    """like _Map, restricted to findings whose symbol names one of the given structs"""

    def __init__(self, report, rid, structs):
        Sink.__init__(self, report)
        self.rid, self.structs = rid, tuple(structs)

    def _mine(self, text):
        return any(text == s_ or text.startswith(s_ + ".") or text.startswith(s_ + ":") or text.startswith(s_ + " ") for s_ in self.structs)

    def ok(self, rule, instance, **facts):
        if self._mine(str(instance)):
            Sink.ok(self, self.rid, "reset: " + str(instance), **facts)

    def bad(self, rule, slug, symbol, msg, where=None, **facts):
        if self._mine(str(symbol)):
            Sink.bad(self, self.rid, slug, symbol, msg, where, **facts)


def hull_rules(F, rep):
    """N9/N10 are corollaries of the window invariants: a mean with positive weights lies in the hull of what it averages, and the
    least element of a window is not above its greatest.  The invariants themselves are C01's rules, run here on the current tree."""
    import rules_c01
    m = _Map(rep, {"I1": "N9", "I2": "N9", "I6": "N10", "I7": "N10", "L0": "N9"})
    try:
        rules_c01.apply(F, m)
        from rules_c14 import mirror
        rules_c01.extreme_unit(F, m, "Minimum", "I6")
        rules_c01.extreme_unit(F, m, "Maximum", "I7", transform=mirror)
    except (symex.Unsupported, KeyError, IndexError, TypeError, AttributeError) as e:
        Sink.bad(m, "N9", "unrecognised", "window-invariants", "UNRECOGNISED idiom while establishing the window invariants: %r" % (e,))


def run(tier, repo=None, tag="repo"):
    rep = Report("C09", tier)
    rep.rule("N1", "StandardDeviation >= 0 and never NaN: the sqrt operand is clamped non-negative on every path", 2)
    rep.rule("N2", "MeanAbsoluteDeviation >= 0: a sum of absolute values over a positive count", 2)
    rep.rule("N3", "TrueRange >= 0 for bars with low <= high", 2)
    rep.rule("N4", "AverageTrueRange >= 0 (EMA with k in (0,1] of non-negative values)", 2)
    rep.rule("N5", "BollingerBands / KeltnerChannel: upper - average >= 0 and average - lower >= 0 for multiplier >= 0 (common parts cancelled in normal form)", 4)
    rep.rule("N6", "ChandelierExit: long <= window maximum, short >= window minimum", 1)
    rep.rule("N7", "MACD / PPO: histogram = line - signal (term equality)", 2)
    rep.rule("N8", "EMA step is a convex combination (weights in [0,1], summing to 1), so it stays within the hull of its history", 1)
    rep.rule("N9", "SMA and WMA lie within [window min, window max]: the output is a weighted mean of the window with positive weights (C01-I1/I2: sum / count, sum of i*x_i / sum of i)", 2)
    rep.rule("N10", "Minimum <= Maximum over the same stream: each is the exact extreme of the same window (C01-I6/I7)", 2)
    F = ir.load("default", repo, tag)
    try:
        apply(F, Sink(rep))
        hull_rules(F, rep)
        # N9/N10 re-establish the window invariants "since construction or reset": the induction restarts at reset() only if reset()
        # restores the constructor state (C04's rules, for the four indicators of N9/N10)
        import rules_c01
        rep.rule("N11", "reset() restores the constructor state of SMA, WMA, Minimum and Maximum (C04's rules): the window invariants behind N9/N10 hold after a reset as well", 4)
        rules_c01.reset_premise(F, rep, "N11", ["SimpleMovingAverage", "WeightedMovingAverage", "Minimum", "Maximum"])
    except symex.Unsupported as e:
        rep.violation("C09:unrecognised", "N1", "UNRECOGNISED idiom: %s" % e)
    rep.configs = ["default"]
    rep.functions.update(f.path for f in F.fns if f.trait_short == "Next")
    B = ir.load("default", BAD_FIXTURE, "bad")
    C = Sink(None, "C09")
    nonneg_outputs(B, C, "N1", "BadDiv", "finite", "control")
    rep.control("N1 sign of a signed accumulator", C.fired("may-be-negative-or-nan", "BadDiv"))
    rep.explanation = ("sign/interval inference over the fully inlined gated terms with class invariants per field path: dispersion outputs are non-negative, "
                       "band/exit offsets are non-negative after cancelling the common middle term, histogram identity by term equality, EMA convexity by "
                       "coefficient extraction. SMA/WMA within the window hull and Minimum <= Maximum follow from the window invariants of C01, re-established here (N9/N10). NOT decided: the tau(t) slack of those two, NaN beyond the no-overflow premise")
    rep.assumptions = ["finite inputs without overflow, low <= high, multiplier >= 0", "Welford updates are not proven non-negative: the explicit clamp is required on every path"]
    return rep
