// C01: SimpleMovingAverage(n) = mean of exactly the last min(t, n) inputs (also C09: within [window min, window max],
// C13: no drift, C14: scaling covariance, C17: forgetting).
use ta::indicators::SimpleMovingAverage;
use ta::Next;

fn main() {
    let n = 4;
    let mut sma = SimpleMovingAverage::new(n).unwrap();
    let mut hist: Vec<f64> = vec![];
    let mut bad = 0;
    for t in 0..12usize {
        let x = 2000.0 + 10.0 * t as f64; // an index level / BTC-like price: above 1000
        hist.push(x);
        let got = sma.next(x);
        let start = hist.len().saturating_sub(n);
        let w = &hist[start..];
        let want = w.iter().sum::<f64>() / w.len() as f64;
        let ok = (got - want).abs() <= 1e-9 * x;
        println!("t={:2} x={:7.1} SMA={:12.3} mean of window={:9.3}{}", t, x, got, want, if ok { "" } else { "  WRONG" });
        if !ok {
            bad += 1;
        }
    }
    if bad > 0 {
        println!("VIOLATED: {} outputs wrong", bad);
        std::process::exit(1);
    }
    println!("ok");
}
