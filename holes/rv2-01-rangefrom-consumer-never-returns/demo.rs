// C12: next() is total -- it returns normally for every valid configuration and every input.
use std::sync::mpsc;
use std::thread;
use std::time::Duration;
use ta::indicators::SimpleMovingAverage;
use ta::Next;

fn main() {
    let (tx, rx) = mpsc::channel();
    thread::spawn(move || {
        let mut sma = SimpleMovingAverage::new(100).unwrap();
        let v = sma.next(1.0);
        let _ = tx.send(v);
    });
    match rx.recv_timeout(Duration::from_secs(5)) {
        Ok(v) => assert_eq!(v, 1.0),
        Err(_) => {
            eprintln!("C12 violated: SimpleMovingAverage(100).next(1.0) has not returned after 5 s (it never will)");
            std::process::exit(1);
        }
    }
}
