// C03 (and C17/C14-adjacent): ta::indicators::RateOfChange(n) must be 100*(x_t - x_{t-n})/x_{t-n}
// (first price until n earlier prices exist).  Exits 1 when the public type deviates from the formula.
use ta::indicators::RateOfChange;
use ta::Next;

fn main() {
    let mut bad = 0;
    for &n in &[3usize, 64, 65, 100] {
        let mut roc = RateOfChange::new(n).unwrap();
        let mut hist: Vec<f64> = Vec::new();
        for t in 0..400usize {
            let x = 100.0 + ((t * 37) % 17) as f64 + 0.25 * (t as f64);
            hist.push(x);
            let got = roc.next(x);
            let base = if hist.len() > n { hist[hist.len() - 1 - n] } else { hist[0] };
            let want = (x - base) / base * 100.0;
            if (got - want).abs() > 1e-9 * (1.0 + want.abs()) {
                if bad < 3 {
                    println!("ROC({}) step {}: got {} want {}", n, t, got, want);
                }
                bad += 1;
            }
        }
    }
    println!("{} deviations", bad);
    std::process::exit(if bad > 0 { 1 } else { 0 });
}
