"""Owned-plain-data type grammar (S3 / G1 / Z3) and struct inventory helpers."""
from ir import short

PRIMS_OK = {"f64", "usize", "bool"}


def classify_type(F, ty, seen=None):
    """-> (ok, kind, detail).  kind in prim/option/buffer/nested/bad"""
    seen = seen or set()
    k = ty.get("k")
    s = ty["s"]
    if k == "prim":
        if s in PRIMS_OK:
            return True, "prim", s
        return False, "bad", "primitive %s is outside the grammar (f64 | usize | bool)" % s
    if k == "adt":
        p = ty["path"]
        if ty.get("krate") in ("core", "std") and short(p) == "Option":
            a = ty["args"]
            if len(a) == 1 and a[0]["s"] == "f64":
                return True, "option", "Option<f64>"
            return False, "bad", "Option of %s (only Option<f64> is in the grammar)" % (a[0]["s"] if a else "?")
        if ty.get("krate") in ("alloc", "std") and short(p) == "Box":
            a = ty["args"]
            if a and a[0].get("k") == "slice" and a[0]["elem"]["s"] == "f64":
                return True, "buffer", "Box<[f64]>"
            return False, "bad", "Box of %s (only Box<[f64]> is in the grammar)" % (a[0]["s"] if a else "?")
        if ty.get("krate") == F.d["crate"]:
            name = short(p)
            if ty.get("args"):
                return False, "bad", "generic crate type %s" % s
            if name in seen:
                return False, "bad", "recursive type %s" % s
            adt = F.adts.get(p)
            if adt is None or adt["kind"] != "Struct":
                return False, "bad", "crate type %s is not a plain struct" % s
            if adt["generics"]["params"]:
                return False, "bad", "generic struct %s" % s
            for f in adt["variants"][0]["fields"]:
                ok, kind, det = classify_type(F, f["ty"], seen | {name})
                if not ok:
                    return False, "bad", "%s.%s: %s" % (name, f["name"], det)
            return True, "nested", name
        return False, "bad", "type %s (%s) is outside the owned-plain-data grammar" % (s, ty.get("krate"))
    what = {"ref": "reference", "ptr": "raw pointer", "fnptr": "fn pointer", "dyn": "trait object", "param": "type parameter",
            "slice": "unsized slice", "array": "array", "tuple": "tuple", "closure": "closure", "fndef": "fn item"}.get(k, k)
    return False, "bad", "%s `%s` is outside the owned-plain-data grammar" % (what, s)


def state_structs(F):
    """indicators + DataItem (the types whose values users keep, clone, serialize)"""
    names = list(F.indicators())
    if "DataItem" in F.adt_by_short and "DataItem" not in names:
        names.append("DataItem")
    # ... and every crate type stored inside one of them, at any depth and under any wrapper (Box<[Helper]>, Option<Helper>):
    # a helper struct is part of the value that is cloned / serialized, whatever it implements itself
    def crate_adts(ty, out):
        if not isinstance(ty, dict):
            return
        if ty.get("k") == "adt" and ty.get("krate") == F.d["crate"]:
            out.append(short(ty["path"]))
        for a in ty.get("args", []) or []:
            crate_adts(a, out)
        for key in ("to", "elem", "of"):
            if isinstance(ty.get(key), dict):
                crate_adts(ty[key], out)
        for a in ty.get("elems", []) or []:
            crate_adts(a, out)
    work = list(names)
    while work:
        n = work.pop()
        for f in F.struct_fields(n) or []:
            found = []
            crate_adts(f["ty"], found)
            for m in found:
                if m not in names and m in F.adt_by_short:
                    names.append(m)
                    work.append(m)
    return names


def field_paths(F, struct_short, prefix=None, out=None):
    """flatten nested indicator structs into field paths [(path, ty, owner_struct)]"""
    out = out if out is not None else []
    prefix = prefix or struct_short
    for f in F.struct_fields(struct_short) or []:
        p = "%s.%s" % (prefix, f["name"])
        out.append((p, f["ty"], struct_short))
        ty = f["ty"]
        if ty.get("k") == "adt" and ty.get("krate") == F.d["crate"] and F.struct_fields(short(ty["path"])) is not None:
            field_paths(F, short(ty["path"]), p, out)
    return out
