// C11: every constructor returns Err(InvalidParameter) iff a period argument is 0 — no indicator value with period 0 can be obtained.
// On the patched crate `ta::indicators::Smoothing::new(period)` hands out an ExponentialMovingAverage without any check.
// Builds on both trees: inside `main` the glob import supplies `Smoothing` when the crate has one, otherwise the outer fallback
// (which goes through the validated constructor) is found.
#![allow(dead_code, unused_imports)]
use ta::errors::TaError;
use ta::indicators::ExponentialMovingAverage;
use ta::{Next, Period};

struct Smoothing;
impl Smoothing {
    fn new(period: usize) -> Result<ExponentialMovingAverage, TaError> {
        ExponentialMovingAverage::new(period)
    }
}

trait Built {
    fn built(self) -> Option<ExponentialMovingAverage>;
}
impl Built for ExponentialMovingAverage {
    fn built(self) -> Option<ExponentialMovingAverage> {
        Some(self)
    }
}
impl Built for Result<ExponentialMovingAverage, TaError> {
    fn built(self) -> Option<ExponentialMovingAverage> {
        self.ok()
    }
}

fn main() {
    use ta::indicators::*;
    match Smoothing::new(0).built() {
        None => println!("period 0 rejected"),
        Some(mut ema) => {
            let (name, period) = (format!("{}", ema), ema.period());
            let outs = [ema.next(1.0), ema.next(2.0), ema.next(3.0)];
            println!("got {} with period {}; next(1), next(2), next(3) = {:?}", name, period, outs);
            std::process::exit(1);
        }
    }
}
