// C07: RelativeStrengthIndex stays in [0, 100] for every stream of finite prices on which U + D != 0.
// C03: RSI = 100*U/(U+D), U/D = EMA(n) of gains/losses (seed 0.1).
use ta::indicators::{ExponentialMovingAverage, RelativeStrengthIndex};
use ta::Next;

fn main() {
    let n = 14;
    let mut rsi = RelativeStrengthIndex::new(n).unwrap();
    let (mut u, mut d) = (ExponentialMovingAverage::new(n).unwrap(), ExponentialMovingAverage::new(n).unwrap());
    let mut prev = 0.0;
    let mut bad = 0;
    for t in 0..60 {
        // positive prices wobbling around 20, one jump to 100 at t = 30 (a 5x gap up), then wobbling around 100
        let base = if t < 30 { 20.0 } else { 100.0 };
        let x = base + ((t * 7) % 5) as f64 * 0.25 - 0.5;
        let got = rsi.next(x);
        let (g, l) = if t == 0 { (0.1, 0.1) } else if x > prev { (x - prev, 0.0) } else { (0.0, prev - x) };
        prev = x;
        let (uu, dd) = (u.next(g), d.next(l));
        let want = 100.0 * uu / (uu + dd);
        let ok = got >= -1e-9 && got <= 100.0 + 1e-9 && (got - want).abs() <= 1e-9;
        if !ok {
            bad += 1;
            if bad <= 3 {
                println!("t={} x={} RSI={} documented={}", t + 1, x, got, want);
            }
        }
    }
    if bad > 0 {
        println!("VIOLATED: {} outputs are not in [0,100] / not the documented ratio (NaN from the gap on, for ever)", bad);
        std::process::exit(1);
    }
    println!("ok");
}
