// C01: WeightedMovingAverage(n) returns the weighted mean (weights 1..k, newest heaviest) of the last min(t, n) finite inputs.
// C08: on a flat window every indicator returns a finite number (never NaN).  C09: WMA lies within [window min, window max].
use ta::indicators::WeightedMovingAverage;
use ta::Next;

fn main() {
    let mut bad = 0;
    for &n in &[39usize, 40, 64] {
        let mut wma = WeightedMovingAverage::new(n).unwrap();
        let mut first_nan = None;
        let mut last = 0.0;
        for t in 0..200usize {
            last = wma.next(100.0); // a perfectly flat stream: the answer is 100 at every step
            if !last.is_finite() && first_nan.is_none() {
                first_nan = Some(t + 1);
            }
        }
        println!("WMA({}) on a flat stream of 100.0: first non-finite output at call {:?}, output after 200 calls = {}", n, first_nan, last);
        if first_nan.is_some() || (last - 100.0).abs() > 1e-9 {
            bad += 1;
        }
    }
    if bad > 0 {
        println!("VIOLATED");
        std::process::exit(1);
    }
    println!("ok");
}
