// C02 / C15: KeltnerChannel fed bars is EMA(typical price (high+low+close)/3) +- multiplier * ATR.
use ta::indicators::{AverageTrueRange, ExponentialMovingAverage, KeltnerChannel};
use ta::{DataItem, Next};

fn main() {
    let n = 5usize;
    let m = 2.0;
    let mut kc = KeltnerChannel::new(n, m).unwrap();
    let mut ema = ExponentialMovingAverage::new(n).unwrap();
    let mut atr = AverageTrueRange::new(n).unwrap();
    let mut worst = 0.0f64;
    for i in 0..60 {
        let base = 900.0 + (i as f64) * 3.0 + ((i * 5) % 7) as f64;
        let (low, high, close, open) = (base - 20.0, base + 25.0, base + 4.0, base - 3.0);
        let bar = DataItem::builder().open(open).high(high).low(low).close(close).volume(10.0).build().unwrap();
        let got = kc.next(&bar);
        let avg = ema.next((high + low + close) / 3.0);
        let a = atr.next(&bar);
        let err = (got.average - avg).abs().max((got.upper - (avg + m * a)).abs()).max((got.lower - (avg - m * a)).abs());
        worst = worst.max(err);
    }
    if worst > 1e-9 * 1000.0 {
        eprintln!("C02/C15 violated: KeltnerChannel deviates from EMA(typical price) +- m*ATR by {}", worst);
        std::process::exit(1);
    }
}
