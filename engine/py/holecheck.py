#!/usr/bin/env python3
"""Soundness holes found by white-box red-team agents (kept under /verif/holes/<id>/: patch.diff, demo.rs, notes.md).
Every patch breaks some property while compiling and passing the crate's tests; after the repairs each must be reported by
at least one check.   holecheck.py [id-substring ...] [-j N]"""
import os
import sys
from concurrent.futures import ThreadPoolExecutor

HERE = os.path.dirname(os.path.abspath(__file__))
VERIF = os.path.dirname(os.path.dirname(HERE))
sys.path.insert(0, HERE)
import extract  # noqa
import seedcheck  # noqa
import shutil
import subprocess
from main import PROPS  # noqa

HOLES = os.path.join(VERIF, "holes")


def run_one(hid):
    sid = "hole-%s-%d" % (hid, os.getpid())
    d = seedcheck.scratch(sid)
    out = {}
    try:
        ok, msg = seedcheck.apply_patch(d, os.path.join(HOLES, hid, "patch.diff"))
        if not ok:
            return {"error": "patch does not apply: " + msg[-200:]}
        shutil.rmtree(os.path.join(d, ".git"), ignore_errors=True)
        for p in PROPS:
            r = subprocess.run([sys.executable, os.path.join(HERE, "main.py"), p, "--repo", d, "--tag", sid, "--no-evidence"],
                               stdout=subprocess.PIPE, stderr=subprocess.STDOUT, text=True)
            if r.returncode != 0:
                keys = [ln.strip().split("  rule=")[0] for ln in r.stdout.splitlines() if ln.startswith("  " + p + ":")]
                out[p] = keys[:3]
    finally:
        shutil.rmtree(d, ignore_errors=True)
        extract.drop_scratch(sid)
    return out


def main():
    args = [a for a in sys.argv[1:] if not a.startswith("-")]
    jobs = 10
    if "-j" in sys.argv:
        jobs = int(sys.argv[sys.argv.index("-j") + 1])
        args = [a for a in args if a != str(jobs)]
    ids = sorted(h for h in os.listdir(HOLES) if os.path.isdir(os.path.join(HOLES, h)) and (not args or any(a in h for a in args)))
    open_ = 0
    with ThreadPoolExecutor(max_workers=jobs) as ex:
        for hid, res in zip(ids, ex.map(run_one, ids)):
            if "error" in res:
                print("ERROR   %s %s" % (hid, res["error"]))
                open_ += 1
            elif not res:
                print("OPEN    %s  (no check reports it)" % hid)
                open_ += 1
            else:
                print("closed  %-48s %s" % (hid, "; ".join("%s: %s" % (p, ", ".join(k[:2])) for p, k in sorted(res.items()))[:200]))
            sys.stdout.flush()
    print("%d holes, %d still open" % (len(ids), open_))
    return 1 if open_ else 0


if __name__ == "__main__":
    sys.exit(main())
