"""Interval / sign evaluation of gated terms (A-flow on terms).

An abstract value is an interval over the extended reals with open/closed end
points, a `nz` flag (the value is known to differ from 0) and a may-be-NaN
flag. Terms are evaluated recursively; gamma nodes refine the environment
with their condition on each arm; relational facts (a < b, a <= b, a != b)
are used when evaluating differences; convex combinations k*a + (1-k)*b with
k in [0,1] evaluate to the hull of a and b."""
import math

from terms import CMP, is_const, lit

INF = float("inf")


class Iv:
    __slots__ = ("lo", "lo_open", "hi", "hi_open", "nz", "nan")

    def __init__(self, lo=-INF, hi=INF, lo_open=False, hi_open=False, nz=False, nan=False):
        self.lo, self.hi, self.lo_open, self.hi_open, self.nz, self.nan = lo, hi, lo_open, hi_open, nz, nan

    @staticmethod
    def point(v):
        if isinstance(v, float) and math.isnan(v):
            return Iv(nan=True)
        return Iv(v, v, nz=(v != 0))

    @staticmethod
    def top(nan=True):
        return Iv(nan=nan)

    @staticmethod
    def bot():
        return Iv(INF, -INF)

    def is_bot(self):
        if self.nan:
            return False
        return self.lo > self.hi or (self.lo == self.hi and (self.lo_open or self.hi_open or (self.nz and self.lo == 0)))

    def copy(self):
        return Iv(self.lo, self.hi, self.lo_open, self.hi_open, self.nz, self.nan)

    def ge0(self):
        return self.lo >= 0 and not self.nan

    def gt0(self):
        return (self.lo > 0 or (self.lo == 0 and (self.lo_open or self.nz))) and not self.nan

    def le0(self):
        return self.hi <= 0 and not self.nan

    def lt0(self):
        return (self.hi < 0 or (self.hi == 0 and (self.hi_open or self.nz))) and not self.nan

    def nonzero(self):
        return (self.nz or self.lo > 0 or self.hi < 0 or (self.lo == 0 and self.lo_open and self.lo >= 0 and self.hi >= 0 and False)) or self.gt0() or self.lt0()

    def contains_zero(self):
        if self.nz:
            return False
        if self.lo > 0 or self.hi < 0:
            return False
        if self.lo == 0 and self.lo_open:
            return False
        if self.hi == 0 and self.hi_open:
            return False
        return True

    def within(self, lo, hi):
        return self.lo >= lo and self.hi <= hi and not self.nan

    def join(self, o):
        if self.is_bot():
            return o.copy()
        if o.is_bot():
            return self.copy()
        r = Iv()
        if self.lo < o.lo or (self.lo == o.lo and not self.lo_open):
            r.lo, r.lo_open = self.lo, self.lo_open
        else:
            r.lo, r.lo_open = o.lo, o.lo_open
        if self.lo == o.lo:
            r.lo_open = self.lo_open and o.lo_open
        if self.hi > o.hi or (self.hi == o.hi and not self.hi_open):
            r.hi, r.hi_open = self.hi, self.hi_open
        else:
            r.hi, r.hi_open = o.hi, o.hi_open
        if self.hi == o.hi:
            r.hi_open = self.hi_open and o.hi_open
        r.nz = (self.nz or not self.contains_zero()) and (o.nz or not o.contains_zero())
        r.nan = self.nan or o.nan
        return r

    def meet(self, o):
        r = self.copy()
        if o.lo > r.lo or (o.lo == r.lo and o.lo_open):
            r.lo, r.lo_open = o.lo, o.lo_open or (o.lo == r.lo and r.lo_open)
        if o.hi < r.hi or (o.hi == r.hi and o.hi_open):
            r.hi, r.hi_open = o.hi, o.hi_open or (o.hi == r.hi and r.hi_open)
        r.nz = self.nz or o.nz
        r.nan = self.nan and o.nan
        return r

    def same(self, o):
        if self.is_bot() and o.is_bot():
            return True
        return (self.lo, self.hi, self.lo_open, self.hi_open, self.nz, self.nan) == (o.lo, o.hi, o.lo_open, o.hi_open, o.nz, o.nan)

    def widen(self, o, thresholds=(0.0, 1.0, 100.0)):
        """self is the old value, o the new (o includes self)"""
        if self.is_bot():
            return o.copy()
        r = o.copy()
        if o.lo < self.lo or (o.lo == self.lo and self.lo_open and not o.lo_open):
            cands = [t for t in thresholds if t <= o.lo]
            r.lo, r.lo_open = (max(cands), False) if cands else (-INF, False)
        if o.hi > self.hi or (o.hi == self.hi and self.hi_open and not o.hi_open):
            cands = [t for t in thresholds if t >= o.hi]
            r.hi, r.hi_open = (min(cands), False) if cands else (INF, False)
        return r

    def __repr__(self):
        if self.is_bot():
            return "⊥"
        s = "%s%s, %s%s" % ("(" if self.lo_open else "[", _f(self.lo), _f(self.hi), ")" if self.hi_open else "]")
        if self.nz and self.contains_zero_raw():
            s += " \\ {0}"
        if self.nan:
            s += " | NaN"
        return s

    def contains_zero_raw(self):
        return self.lo <= 0 <= self.hi


def _f(v):
    if v == INF:
        return "+inf"
    if v == -INF:
        return "-inf"
    return repr(v)


def _mul_end(a, b):
    if a == 0 or b == 0:
        return 0.0
    return a * b


def add(a, b):
    if a.is_bot() or b.is_bot():
        return Iv.bot()
    r = Iv(a.lo + b.lo if not (math.isinf(a.lo) and math.isinf(b.lo) and a.lo != b.lo) else -INF,
           a.hi + b.hi if not (math.isinf(a.hi) and math.isinf(b.hi) and a.hi != b.hi) else INF,
           a.lo_open or b.lo_open, a.hi_open or b.hi_open)
    r.nan = a.nan or b.nan
    r.nz = (a.ge0() and b.gt0()) or (a.gt0() and b.ge0()) or (a.le0() and b.lt0()) or (a.lt0() and b.le0())
    return r


def neg(a):
    if a.is_bot():
        return Iv.bot()
    return Iv(-a.hi, -a.lo, a.hi_open, a.lo_open, a.nz, a.nan)


def sub(a, b):
    if a.is_bot() or b.is_bot():
        return Iv.bot()
    return add(a, neg(b))


def mul(a, b):
    if a.is_bot() or b.is_bot():
        return Iv.bot()
    cands = []
    for x, xo in ((a.lo, a.lo_open), (a.hi, a.hi_open)):
        for y, yo in ((b.lo, b.lo_open), (b.hi, b.hi_open)):
            v = _mul_end(x, y)
            cands.append((v, (xo or yo) and v != 0))
    lo = min(c[0] for c in cands)
    hi = max(c[0] for c in cands)
    r = Iv(lo, hi, all(c[1] for c in cands if c[0] == lo), all(c[1] for c in cands if c[0] == hi))
    def may_be_inf(x):
        # a CLOSED infinite end point means the value itself may be infinite; an open one only "unbounded but finite"
        # (only a value that IS infinite — a literal: an unbounded closed end produced by widening stands for "no overflow assumed",
        # the premise all range rules share)
        return math.isinf(x.lo) and x.lo == x.hi
    r.nan = a.nan or b.nan or (may_be_inf(a) and b.contains_zero_raw() and not b.nonzero()) or (may_be_inf(b) and a.contains_zero_raw() and not a.nonzero())   # 0 * inf
    r.nz = a.nonzero() and b.nonzero()   # no underflow premise
    if r.nz and r.lo == 0:
        r.lo_open = True
    if r.nz and r.hi == 0:
        r.hi_open = True
    return r


def inv(b):
    """1/b for b not containing 0"""
    if b.is_bot():
        return Iv.bot()
    if b.lo > 0 or (b.lo == 0 and not b.contains_zero()):
        hi = INF if b.lo == 0 else 1.0 / b.lo
        lo = 0.0 if (math.isinf(b.hi) or b.hi == 0) else 1.0 / b.hi
        return Iv(lo, hi, b.hi_open or math.isinf(b.hi), b.lo_open or b.lo == 0, True, b.nan)
    if b.hi < 0 or (b.hi == 0 and not b.contains_zero()):
        return neg(inv(neg(b)))
    return None


def div(a, b):
    if a.is_bot() or b.is_bot():
        return Iv.bot()
    if b.contains_zero():
        r = Iv.top(nan=True)
        # sign of a quotient of non-negatives is still non-negative (or NaN / inf)
        if a.lo >= 0 and b.lo >= 0:
            r.lo = 0.0
        return r
    ib = inv(b)
    if ib is None:
        # b is nz but straddles 0
        return Iv.top(nan=a.nan or b.nan)
    r = mul(a, ib)
    r.nan = a.nan or b.nan
    return r


def absv(a):
    if a.is_bot():
        return Iv.bot()
    if a.lo >= 0:
        return a.copy()
    if a.hi <= 0:
        return neg(a)
    r = Iv(0.0, max(-a.lo, a.hi), False, False, a.nz, a.nan)
    return r


def sqrt(a):
    if a.is_bot():
        return Iv.bot()
    r = Iv(0.0, INF if a.hi == INF else math.sqrt(max(a.hi, 0.0)), False, False, False, a.nan or a.lo < 0)
    if a.lo > 0:
        r.lo = math.sqrt(a.lo)
    r.nz = a.gt0()
    return r


def maxv(a, b):
    if a.is_bot() or b.is_bot():
        return Iv.bot()
    # f64::max ignores a NaN operand
    r = Iv(max(a.lo, b.lo), max(a.hi, b.hi))
    r.lo_open = (a.lo_open if a.lo > b.lo else b.lo_open if b.lo > a.lo else (a.lo_open and b.lo_open))
    r.hi_open = (a.hi_open if a.hi > b.hi else b.hi_open if b.hi > a.hi else (a.hi_open and b.hi_open))
    r.nan = a.nan and b.nan
    # f64::max IGNORES a NaN operand: if a may be NaN the result may be b alone (and vice versa), whatever a's bounds say
    if a.nan:
        r = r.join(Iv(b.lo, b.hi, b.lo_open, b.hi_open, nan=r.nan))
    if b.nan:
        r = r.join(Iv(a.lo, a.hi, a.lo_open, a.hi_open, nan=r.nan))
    r.nan = a.nan and b.nan
    return r


def minv(a, b):
    if a.is_bot() or b.is_bot():
        return Iv.bot()
    return neg(maxv(neg(a), neg(b)))


class Env:
    def __init__(self, atoms=None, facts=None, default=None):
        self.atoms = dict(atoms or {})     # term -> Iv (for pre/arg/get/step atoms and refined subterms)
        self.facts = dict(facts or {})     # comparison atom -> bool
        self.default = default             # fn(term) -> Iv or None

    def child(self):
        e = Env(self.atoms, self.facts, self.default)
        e.nan_aware = getattr(self, "nan_aware", False)
        return e

    def assume(self, cond, val=True):
        """refine with condition cond == val"""
        if isinstance(cond, tuple) and cond[0] == "and" and val:
            self.assume(cond[1], True)
            self.assume(cond[2], True)
            return
        if is_const(cond):
            return
        a, p = lit(cond)
        truth = (p == val)
        self.facts[a] = truth
        if a[0] in ("<", "<=", "=="):
            A, B = a[1], a[2]
            ia, ib = evaluate(A, self), evaluate(B, self)
            if a[0] == "==" and truth:
                m = ia.meet(ib)
                self.atoms[A] = m
                self.atoms[B] = m
            elif a[0] == "==" and not truth:
                if is_const(B) and B[2] == 0:
                    x = ia.copy()
                    x.nz = True
                    self.atoms[A] = x
                if is_const(A) and A[2] == 0:
                    x = ib.copy()
                    x.nz = True
                    self.atoms[B] = x
            elif truth:  # A < B or A <= B
                strict = a[0] == "<"
                na = ia.meet(Iv(-INF, ib.hi, False, strict or ib.hi_open))
                nb = ib.meet(Iv(ia.lo, INF, strict or ia.lo_open, False))
                na.nan = nb.nan = False
                self.atoms[A], self.atoms[B] = na, nb
            elif getattr(self, "nan_aware", False) and (ia.nan or ib.nan):
                pass         # `not (A < B)` also holds when an operand is NaN: nothing to learn without the finite-input premise
            else:        # not (A < B): A >= B (NaN excluded by the finite-input premise)
                strict = a[0] == "<="
                na = ia.meet(Iv(ib.lo, INF, strict or ib.lo_open, False))
                nb = ib.meet(Iv(-INF, ia.hi, False, strict or ia.hi_open))
                self.atoms[A], self.atoms[B] = na, nb


def rel_diff(a, b, env):
    """sign knowledge about a - b from relational facts"""
    f = env.facts
    r = None
    for (atom, truth) in f.items():
        if atom[0] not in ("<", "<=", "=="):
            continue
        x, y = atom[1], atom[2]
        if atom[0] == "<":
            if truth and (x, y) == (b, a):      # b < a
                r = Iv(0.0, INF, True, False, True)
            elif truth and (x, y) == (a, b):    # a < b
                r = Iv(-INF, 0.0, False, True, True)
            elif not truth and (x, y) == (a, b):  # not a<b : a >= b
                r = Iv(0.0, INF)
            elif not truth and (x, y) == (b, a):  # not b<a : a <= b
                r = Iv(-INF, 0.0)
        elif atom[0] == "<=":
            if truth and (x, y) == (b, a):
                r = Iv(0.0, INF)
            elif truth and (x, y) == (a, b):
                r = Iv(-INF, 0.0)
            elif not truth and (x, y) == (a, b):
                r = Iv(0.0, INF, True, False, True)
            elif not truth and (x, y) == (b, a):
                r = Iv(-INF, 0.0, False, True, True)
        elif atom[0] == "==":
            if {x, y} == {a, b}:
                if truth:
                    r = Iv.point(0.0)
                else:
                    r = Iv(nz=True)
        if r is not None:
            return r
    return None


def convex(t, env):
    """k*a + (1-k)*b  or  b + k*(a-b)  with k in [0,1]  ->  hull(a, b)"""
    if t[0] != "+":
        return None
    for p, q in ((t[1], t[2]), (t[2], t[1])):
        if p[0] == "*" and q[0] == "*":
            for k, a in ((p[1], p[2]), (p[2], p[1])):
                for k2, b in ((q[1], q[2]), (q[2], q[1])):
                    if k2 == ("-", ("c", "f64", 1.0), k):
                        ik = evaluate(k, env)
                        if ik.within(0.0, 1.0):
                            return evaluate(a, env).join(evaluate(b, env))
        if q[0] == "*":
            for k, d in ((q[1], q[2]), (q[2], q[1])):
                if d[0] == "-" and d[2] == p:
                    ik = evaluate(k, env)
                    if ik.within(0.0, 1.0):
                        ib, ia = evaluate(p, env), evaluate(d[1], env)
                        h_ = ib.join(ia)
                        # b + k*(a - b) = (1-k)*b + k*a: strictly positive when k > 0, a > 0 and b >= 0 (as the two-product form shows)
                        if ik.gt0() and ia.gt0() and ib.ge0() and not h_.nan:
                            h_ = h_.copy()
                            h_.nz = True
                            if h_.lo == 0:
                                h_.lo_open = True
                        return h_
    return None


def evaluate(t, env):
    if t in env.atoms:
        base = env.atoms[t]
        if t[0] in ("pre", "arg", "get", "ret", "c", "ivar", "lv", "post"):
            return base
        return base.meet(_eval(t, env))
    return _eval(t, env)


def _eval(t, env):
    h = t[0]
    if h == "c":
        if t[1] in ("f64", "int"):
            return Iv.point(float(t[2]))
        if t[1] == "bool":
            return Iv.point(float(t[2]))
        return Iv.top()
    if h == "+":
        c = convex(t, env)
        r = add(evaluate(t[1], env), evaluate(t[2], env))
        return r.meet(c) if c is not None else r
    if h == "-":
        r = sub(evaluate(t[1], env), evaluate(t[2], env))
        rd = rel_diff(t[1], t[2], env)
        if rd is not None:
            rd.nan = r.nan
            r = r.meet(rd)
        return r
    if h == "*":
        if t[1] == t[2]:
            return absv(mul(evaluate(t[1], env), evaluate(t[2], env)))
        return mul(evaluate(t[1], env), evaluate(t[2], env))
    if h == "/":
        return div(evaluate(t[1], env), evaluate(t[2], env))
    if h == "idiv":
        # truncating integer division of non-negative operands: 0 <= a / b <= a   (b == 0 is C12's subject)
        a_ = evaluate(t[1], env)
        if a_.ge0():
            return Iv(0.0, a_.hi)
        return Iv.top(nan=False)
    if h == "neg":
        return neg(evaluate(t[1], env))
    if h == "abs":
        return absv(evaluate(t[1], env))
    if h == "sqrt":
        return sqrt(evaluate(t[1], env))
    if h == "max":
        r = evaluate(t[1], env)
        for x in t[2:]:
            r = maxv(r, evaluate(x, env))
        return r
    if h == "min":
        r = evaluate(t[1], env)
        for x in t[2:]:
            r = minv(r, evaluate(x, env))
        return r
    if h == "int_cast":
        # a narrowing / sign-changing integer cast wraps: the value survives only if its interval fits the target type
        v = evaluate(t[-1], env)
        rng = {"u8": (0, 2 ** 8 - 1), "u16": (0, 2 ** 16 - 1), "u32": (0, 2 ** 32 - 1), "u64": (0, 2 ** 64 - 1), "usize": (0, 2 ** 64 - 1), "u128": (0, 2 ** 128 - 1),
               "i8": (-2 ** 7, 2 ** 7 - 1), "i16": (-2 ** 15, 2 ** 15 - 1), "i32": (-2 ** 31, 2 ** 31 - 1), "i64": (-2 ** 63, 2 ** 63 - 1), "isize": (-2 ** 63, 2 ** 63 - 1),
               "i128": (-2 ** 127, 2 ** 127 - 1)}.get(str(t[1]))
        if rng is None:
            return Iv.top(nan=False)
        if not v.nan and v.lo >= rng[0] and v.hi <= rng[1]:
            return v
        return Iv(float(rng[0]), float(rng[1]))
    if h in ("i2f", "ref_to"):
        return evaluate(t[-1], env)
    if h == "gamma":
        e1 = env.child()
        e1.assume(t[1], True)
        e2 = env.child()
        e2.assume(t[1], False)
        return evaluate(t[2], e1).join(evaluate(t[3], e2))
    if h == "accum":
        init, inc = evaluate(t[1], env), evaluate(t[2], env)
        r = init.copy()
        if inc.lo < 0:
            r.lo = -INF
        if inc.hi > 0:
            r.hi = INF
        r.nan = init.nan or inc.nan
        r.nz = False
        return r
    if h == "pick":
        r = evaluate(t[1], env)
        for e in t[2]:
            r = r.join(evaluate(e, env))
        return r
    if h == "select":
        return evaluate(t[1], env)   # one summary cell per array
    if h == "store":
        return evaluate(t[1], env).join(evaluate(t[3], env))
    if h == "fromelem":
        return evaluate(t[1], env)
    if h == "fill":
        return evaluate(t[1], env).join(evaluate(t[4], env))
    if h == "len":
        if env.default:
            r = env.default(t)
            if r is not None:
                return r
        return Iv(0.0, INF)
    if h in CMP or h in ("not", "sgnpos", "is_some", "and"):
        return Iv(0.0, 1.0)
    if env.default:
        r = env.default(t)
        if r is not None:
            return r
    return Iv.top()
