"""Class invariants (intervals per state-field path) of a top-level indicator, as the least fixpoint of
    inv := init  ⊔  post_next_f64(inv)  ⊔  post_next_bar(inv)  ⊔  post_reset(inv)
over the fully inlined gated post-terms (nested components are analysed per field path), with widening."""
import fieldclass
import signs
import symex
from signs import Env, Iv, INF
from terms import cu, leaves, show, subterms

BAR = ("ref", ("a0",), None)


def flatten(t, prefix, out):
    if isinstance(t, tuple) and t and t[0] == "adt":
        if t[4]:  # enum (Option<f64>)
            out[prefix] = t
            if t[2][1] == "Some":
                out[prefix + ".@Some.0"] = t[3][0][1]
            return out
        for n, v in t[3]:
            flatten(v, prefix + "." + n, out)
        return out
    out[prefix] = t
    return out


def path_type(F, struct, p):
    """rust type string of the state field at path 'self.a.b' of `struct` (None if unknown)"""
    import ir
    s_ = struct
    ty = None
    for name in p.split(".")[1:]:
        if name.startswith("@") or name.isdigit():
            continue
        fs = F.struct_fields(s_) or []
        fd = [f for f in fs if f["name"] == name]
        if not fd:
            return None
        ty = fd[0]["ty"]
        if ty.get("k") == "adt" and ty.get("krate") == F.d["crate"]:
            s_ = ir.short(ty["path"])
    return ty["s"] if ty else None


def path_owner(F, struct, p):
    """(short name of the struct that declares the last field of path 'self.a.b', rust type string of that field)"""
    import ir
    s_ = struct
    owner, ty = struct, None
    for name in p.split(".")[1:]:
        if name.startswith("@") or name.isdigit():
            continue
        fd = [f for f in (F.struct_fields(s_) or []) if f["name"] == name]
        if not fd:
            return None
        owner, ty = s_, fd[0]["ty"]
        if ty.get("k") == "adt" and ty.get("krate") == F.d["crate"]:
            s_ = ir.short(ty["path"])
    return (owner, ty["s"]) if ty else None


def origin_signature(F, struct, term_or_paths):
    """name-free description of where a value comes from: the declaring type and rust type of every state path it reads
    (field and local names do not appear, so a consistent rename leaves the signature unchanged)"""
    from terms import subterms
    if isinstance(term_or_paths, (set, list)):
        paths = set(term_or_paths)
        other = set()
    else:
        paths = {x[1] for x in subterms(term_or_paths) if x[0] == "pre"}
        other = {"input" for x in subterms(term_or_paths) if x[0] in ("arg", "get")}
    parts = set()
    for p_ in paths:
        o = path_owner(F, struct, p_)
        if o is None:
            parts.add("?")
        elif "f64" in o[1]:  # data-carrying state only: cursors, counters and flags steer the selection, they are not the value
            parts.add("%s.%s" % (o[0], o[1].replace("std::boxed::", "")))
    return "+".join(sorted(parts) + sorted(other)) or "const"


def premises(kind):
    """kind: 'positive' (C07/C08: positive prices, valid bars, volume >= 0) | 'finite' (C09: any finite input, low <= high)"""
    atoms = {}
    facts = {}
    price = Iv(0.0, INF, True, True) if kind == "positive" else Iv(-INF, INF, True, True)
    atoms[("arg", "a0")] = price
    g = {n: ("get", n, BAR) for n in ("open", "high", "low", "close", "volume")}
    for n in ("open", "high", "low", "close"):
        atoms[g[n]] = price.copy()
    atoms[g["volume"]] = Iv(0.0, INF, False, True)
    from terms import lit
    for a, b in (("low", "high"),) + ((("low", "close"), ("close", "high"), ("low", "open"), ("open", "high")) if kind == "positive" else ()):
        at, pol = lit(("<=", g[a], g[b]))
        facts[at] = pol
    return atoms, facts


class Analysis:
    def __init__(self, F, struct, premise="positive", multiplier_nonneg=True):
        self.F = F
        self.struct = struct
        self.premise = premise
        self.errors = []
        self.methods = {}
        c = fieldclass.ctor(F, struct)
        self.ctor = c
        self.param_atoms = {}
        for i, (p, ty) in enumerate(c["params"]):
            self.param_atoms[("arg", p)] = Iv(1.0, INF, False, True, True) if ty == "usize" else (Iv(0.0, INF, False, True) if multiplier_nonneg else Iv(-INF, INF, True, True))
        self.init_terms = flatten(c["ok"], "self", {})
        pol = symex.Policy(F, modular=False, inline_loops=True)
        for fn in F.fns_of(struct):
            # every hand-written method that can change the state takes part in the induction (not only next/reset: an inherent
            # `&mut self` helper of the public API reaches states too); constructors are the base case, fmt/default/helpers are not writers
            if fn.derived or fn.is_ctor or fn.path in F.helpers() or fn.trait_short in ("Display", "Debug", "Default", "Clone", "Period"):
                continue
            recv_ = fn.locals[1]["ty"] if fn.arg_count >= 1 else {}
            if fn.trait_short not in ("Next", "Reset") and not (recv_.get("k") == "ref" and recv_.get("mut")) and not (recv_.get("k") == "adt" and recv_.get("krate") == F.d["crate"]):
                continue
            try:
                self.methods[fn.label] = (fn, symex.evaluate(F, fn, pol, canon=True))
            except symex.Unsupported as e:
                self.errors.append("%s: %s" % (fn.label, e))
        self.inv = {}
        self.rounds = 0
        self._solve()

    def base_env(self):
        atoms, facts = premises(self.premise)
        e = Env(atoms, facts, default=self._default)
        for p, iv in self.inv.items():
            e.atoms[("pre", p)] = iv
        return e

    def _default(self, t):
        if t[0] == "len":
            return Iv(1.0, INF, False, True, True)
        if t[0] == "pre":
            # unknown pre-state path (e.g. enum payload never initialised): top without NaN is unsound; use top
            return self.inv.get(t[1], Iv.bot())  # (bot = "no writer reaches it": neutral in the fixpoint; every writer is in the induction below)
        if t[0] == "ivar":
            return Iv(0.0, INF)
        if t[0] == "lv":
            return None
        return None

    def _solve(self):
        env0 = Env(dict(self.param_atoms), {})
        inv = {}
        for p, t in self.init_terms.items():
            if isinstance(t, tuple) and t and t[0] == "adt":
                continue
            inv[p] = signs.evaluate(t, env0)
        # parameters stay what the constructor made them
        self.inv = inv
        for rnd in range(14):
            self.rounds = rnd + 1
            new = dict(self.inv)
            for lab, (fn, r) in self.methods.items():
                env = self.base_env()
                for k, t in r["heap"].items():
                    if not k.startswith("self"):
                        continue
                    for p, leaf in flatten(t, k, {}).items():
                        if isinstance(leaf, tuple) and leaf and leaf[0] == "adt":
                            continue
                        v = signs.evaluate(leaf, env)
                        new[p] = new[p].join(v) if p in new else v
            changed = False
            for p, v in new.items():
                old = self.inv.get(p)
                if old is None:
                    self.inv[p] = v
                    changed = True
                elif not old.same(v):
                    self.inv[p] = old.widen(v) if rnd >= 3 else v
                    changed = True
            if not changed:
                break
        else:
            self.errors.append("the class-invariant fixpoint did not settle in %d rounds" % self.rounds)

    def site_env(self, site):
        env = self.base_env()
        for a, truth in site["facts"].items():
            env.assume(a, truth)
        return env


_cache = {}


def analysis(F, struct, premise="positive", multiplier_nonneg=True):
    k = (id(F), struct, premise, multiplier_nonneg)
    if k not in _cache:
        _cache[k] = Analysis(F, struct, premise, multiplier_nonneg)
    return _cache[k]
