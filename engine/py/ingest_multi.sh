#!/bin/sh
# ingest_multi.sh <tag> <worktree>: copy the mutants seed/1..N of a sub-agent into /verif/seeded/<PROP>-<tag><k>, verify each, run all checks
set -e
T=$1; W=$2
for kd in $W/seed/*/; do
  k=$(basename $kd)
  [ -f $kd/patch.diff ] || continue
  P=$(python3 -c "import json,sys; print(json.load(open('$kd/meta.json'))['property'].strip()[:3])")
  D=/verif/seeded/$P-mut-$T$k
  mkdir -p $D
  cp $kd/patch.diff $kd/demo.rs $kd/meta.json $D/
  if grep -q "serde\|bincode" $kd/demo/Cargo.toml 2>/dev/null; then sed 's#path = "../../.."#path = ".."#; s#path = "../.."#path = ".."#' $kd/demo/Cargo.toml > $D/demo.Cargo.toml; fi
  python3 /verif/engine/py/seedcheck.py verify $P-mut-$T$k > $D/verify.json 2>&1 || true
  echo "== $P-mut-$T$k confirmed=$(grep -c '"confirmed": true' $D/verify.json)"
  python3 /verif/engine/py/seedcheck.py run $P-mut-$T$k 2>&1 | tee $D/checks.txt | grep -v "rc=0" | cut -c1-200
done
