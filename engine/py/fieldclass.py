"""Field classes (PARAM / STATE / BUFFER / NESTED) computed from all MIR stores, and
constructor terms obtained by symbolic evaluation of `new`."""
import symex
from ir import short
from terms import leaves, subterms, show


def struct_of(F, path):
    return short(path) if path else None


def collect_stores(F):
    """{(Struct, field): [(fn label, kind, span)]}; kind in whole / element / mutborrow"""
    out = {}
    for f in F.fns:
        if f.derived:
            continue
        for b in f.blocks:
            for st in b["stmts"]:
                if st["k"] != "assign":
                    continue
                _scan_place(F, f, st["place"], "store", st["span"], out)
                rv = st["rv"]
                if rv["k"] in ("ref", "rawptr") and (rv.get("mut") or "Mut" in str(rv.get("kind", ""))):
                    if not st["place"]["proj"] and not _may_write_through(f, st["place"]["local"], set()):
                        continue  # a `&mut` that is only ever read through (e.g. `let Self { period, .. } = self;`)
                    _scan_place(F, f, rv["place"], "mutborrow", st["span"], out)
    return out


def _may_write_through(f, local, seen):
    """can the reference held in `local` be used to modify its referent?  True unless every use in the function is a read through
    a dereference (or a reborrow that itself is only read through)."""
    if local in seen:
        return False
    seen.add(local)

    def is_ref_itself(o):
        return o.get("k") in ("copy", "move") and o["place"]["local"] == local and not o["place"]["proj"]

    def mentions_ref(o):
        return o.get("k") in ("copy", "move") and o["place"]["local"] == local
    for b in f.mir["blocks"]:
        if b["cleanup"]:
            continue
        for st in b["stmts"]:
            if st["k"] != "assign":
                continue
            pl = st["place"]
            if pl["local"] == local and pl["proj"]:
                return True  # (*r) = .. / (*r).f = ..
            rv = st["rv"]
            if rv["k"] in ("ref", "rawptr") and rv["place"]["local"] == local:
                if (rv.get("mut") or "Mut" in str(rv.get("kind", ""))) and (pl["proj"] or _may_write_through(f, pl["local"], seen)):
                    return True
                continue
            ops = [rv.get("op"), rv.get("a"), rv.get("b")] + list(rv.get("ops", []))
            for o in ops:
                if isinstance(o, dict) and is_ref_itself(o):
                    # the reference is copied / moved into another place
                    if pl["proj"] or pl["local"] == 0 or _may_write_through(f, pl["local"], seen):
                        return True   # (local 0 is the return place: the reference escapes to the caller)
                elif isinstance(o, dict) and mentions_ref(o) and o["place"]["proj"] and o["place"]["proj"][0]["k"] != "deref":
                    # a component of an aggregate held in `local` is moved out (`let (slot, v) = held;`): it may be the reference
                    if pl["proj"] or pl["local"] == 0 or _may_write_through(f, pl["local"], seen):
                        return True
        t = b["term"]
        if t["k"] == "call":
            for a in t["args"]:
                if isinstance(a, dict) and is_ref_itself(a):
                    return True
        if t["k"] == "drop" and t["place"]["local"] == local and t["place"]["proj"]:
            return True
    return False


def _scan_place(F, f, place, how, span, out):
    proj = place["proj"]
    last_field = None
    for i, e in enumerate(proj):
        if e["k"] == "field" and e.get("owner") and F.adts.get(e["owner"]) is not None:
            last_field = i
    if last_field is None:
        return
    e = proj[last_field]
    owner = short(e["owner"])
    tail = proj[last_field + 1:]
    if how == "store":
        kind = "whole" if not tail else "element"
    else:
        kind = "mutborrow" if not tail else "mutborrow-element"
    # the 4th component is "new" only for THE constructor of the owning struct (an inherent, receiver-less `new` of that type); any
    # other function that merely carries the name (an inner fn, a method of another type, a trait method) is an ordinary writer
    genuine = f.name == "new" and f.self_struct == owner and not f.impl_trait
    out.setdefault((owner, e["name"]), []).append((f.label, kind, span, f.name if (genuine or f.name != "new") else "new (not the constructor)", f.path))


def _mentions_crate_adt(F, ty):
    if not isinstance(ty, dict):
        return False
    if ty.get("k") == "adt" and ty.get("krate") == F.d["crate"]:
        return True
    return any(_mentions_crate_adt(F, a) for a in (ty.get("args") or [])) or any(_mentions_crate_adt(F, ty.get(k_)) for k_ in ("to", "elem")) \
        or any(_mentions_crate_adt(F, a) for a in (ty.get("elems") or []))


def classify_fields(F):
    """{Struct: {field: class}} for indicator structs"""
    stores = collect_stores(F)
    inds = set(F.indicators())
    res = {}
    for s in sorted(inds):
        cls = {}
        for fd in F.struct_fields(s):
            ty = fd["ty"]
            name = fd["name"]
            sts = [x for x in stores.get((s, name), []) if x[3] != "new" or x[1] != "whole"]
            if ty.get("k") == "adt" and ty.get("krate") == F.d["crate"] and short(ty["path"]) in inds:
                cls[name] = "NESTED"
            elif ty["s"].startswith("std::boxed::Box<["):
                cls[name] = "BUFFER"
            elif _mentions_crate_adt(F, ty):
                # a helper struct / enum of this crate that is not an indicator: stores into its fields are attributed to the helper,
                # so PARAM/STATE cannot be decided here — never "PARAM" by default
                cls[name] = "FOREIGN"
            elif not [x for x in sts if x[1] in ("whole", "element", "mutborrow", "mutborrow-element")]:
                cls[name] = "PARAM"
            else:
                cls[name] = "STATE"
        res[s] = cls
    return res, stores


_ctor_cache = {}


def canon_unsigned_zero(t, unsigned_args):
    """for an unsigned argument p, the tests `0 < p`, `p >= 1`, `p > 0` all say `p != 0`: rewrite them to the `p == 0` atom"""
    from terms import cu, lit, mk_gamma

    def go(x):
        if not isinstance(x, tuple) or not x:
            return x
        y = tuple(go(z) for z in x)
        if y[0] == "gamma":
            a, pol = lit(y[1])
            t_arm, f_arm = (y[2], y[3]) if pol else (y[3], y[2])
            if a[0] == "<" and a[1] == cu(0) and isinstance(a[2], tuple) and a[2][0] == "arg" and a[2][1] in unsigned_args:
                return mk_gamma(("==", a[2], cu(0)), f_arm, t_arm)      # 0 < p
            if a[0] == "<=" and a[1] == cu(1) and isinstance(a[2], tuple) and a[2][0] == "arg" and a[2][1] in unsigned_args:
                return mk_gamma(("==", a[2], cu(0)), f_arm, t_arm)      # 1 <= p
            if a[0] == "<" and a[2] == cu(1) and isinstance(a[1], tuple) and a[1][0] == "arg" and a[1][1] in unsigned_args:
                return mk_gamma(("==", a[1], cu(0)), t_arm, f_arm)      # p < 1
            if a[0] == "<=" and a[2] == cu(0) and isinstance(a[1], tuple) and a[1][0] == "arg" and a[1][1] in unsigned_args:
                return mk_gamma(("==", a[1], cu(0)), t_arm, f_arm)      # p <= 0
        return y
    return go(t)


def ctor(F, s):
    """symbolic constructor of struct s: dict(params=[names], ret=term, ok=adt term or None, fields={name: term})"""
    k = (id(F), s)
    if k in _ctor_cache:
        return _ctor_cache[k]
    fn = F.method(s, "new", trait="")
    if fn is None:
        _ctor_cache[k] = None
        return None
    names = symex.fn_params(fn)
    params = [(names.get(i, "a%d" % i), fn.locals[i]["ty"]["s"]) for i in range(1, fn.arg_count + 1)]
    r = symex.evaluate(F, fn, symex.Policy(F, modular=False))
    r = dict(r)
    r["ret"] = canon_unsigned_zero(r["ret"], {p for p, ty in params if ty.startswith("u")})
    ok = None
    for conds, leaf in leaves(r["ret"]):
        if isinstance(leaf, tuple) and leaf[0] == "adt":
            if leaf[2][1] == "Ok":
                ok = leaf[3][0][1]
            elif short(str(leaf[1])) == s:
                ok = leaf
    res = {"fn": fn, "params": params, "ret": r["ret"], "ok": ok, "fields": dict(ok[3]) if ok else {}, "asserts": r["asserts"]}
    _ctor_cache[k] = res
    return res


def mentions_param(t, params):
    names = {p for p, _ in params}
    return any(x[0] == "arg" and x[1] in names for x in subterms(t))
