// C12: next() must return normally for every valid configuration and every (finite) input.
use ta::indicators::SimpleMovingAverage;
use ta::Next;

fn main() {
    let r = std::panic::catch_unwind(|| {
        let mut sma = SimpleMovingAverage::new(9).unwrap();
        sma.next(1.0);
        sma.next(2.0e9); // range end index 9 out of range for slice of length 4
    });
    if r.is_err() {
        eprintln!("C12 violated: SimpleMovingAverage::new(9).next(2e9) panicked");
        std::process::exit(1);
    }
}
