"""Gated symbolic evaluation of loop-free MIR bodies (A-gsa).

Every local / heap path at the exit of a function is given a term over the
function's inputs and the pre-state; control-flow joins become gamma nodes
(structured evaluation along immediate post-dominators). Calls into nested
indicators can be kept uninterpreted (`step` nodes) for modular reasoning, or
inlined. No input is chosen, no path enumerated beyond the gamma structure,
no solver is called."""
import re

import callees
from cfg import Cfg
from terms import (BOT, CMP, FALSE, TRUE, UNIT, C, cf, cu, eval_lit, is_const, leaves, lit, map_leaves, mk_gamma, mk_not, show,
                   simp)


class Unsupported(Exception):
    """the function uses an idiom the evaluator does not model (fails closed)"""


class HasLoop(Unsupported):
    pass


BINOPS = {"Add": "+", "Sub": "-", "Mul": "*", "Div": "/", "Rem": "%", "Lt": "<", "Le": "<=", "Gt": ">", "Ge": ">=", "Eq": "==", "Ne": "!=",
          "AddUnchecked": "+", "SubUnchecked": "-", "MulUnchecked": "*", "BitAnd": "&", "BitOr": "|", "BitXor": "^", "Shl": "<<", "Shr": ">>"}


def fold(op, a, b):
    if is_const(a) and is_const(b) and a[1] == b[1] and a[1] in ("int", "f64"):
        x, y = a[2], b[2]
        try:
            if op == "+":
                return C(a[1], x + y)
            if op == "-" and (a[1] == "f64" or x >= y):
                return C(a[1], x - y)
            if op == "*":
                return C(a[1], x * y)
            if op == "/" and a[1] == "f64" and y != 0:
                return C(a[1], x / y)
        except OverflowError:
            pass
    if op in CMP and is_const(a) and is_const(b):
        x, y = a[2], b[2]
        r = {"<": x < y, "<=": x <= y, "==": x == y, "!=": x != y, ">": x > y, ">=": x >= y}[op]
        return TRUE if r else FALSE
    return (op, a, b)


class Store:
    watch = []  # stack of [path, hit]: writes at / under / above a watched path are noted (whichever fork performs them)

    def __init__(self, m=None):
        self.m = dict(m) if m else {}

    def copy(self):
        return Store(self.m)

    def has_descendants(self, path):
        n = len(path)
        return any(len(k) > n and k[:n] == path for k in self.m)

    def write(self, path, v):
        n = len(path)
        for w_ in Store.watch:
            if path[:len(w_[0])] == w_[0] or w_[0][:n] == path:
                w_[1] = True
        for k in [k for k in self.m if len(k) > n and k[:n] == path]:
            del self.m[k]
        # an ancestor holding an aggregate must be exploded one level at a time
        for j in range(1, n):
            pre = path[:j]
            if pre in self.m:
                t = self.m[pre]
                if isinstance(t, tuple) and t[0] == "adt":
                    del self.m[pre]
                    vname = t[2][1] if isinstance(t[2], tuple) else ""
                    for fname, fv in t[3]:
                        key = pre + (("@" + vname,) if (vname and t[4]) else ()) + (fname,)
                        self.m[key] = fv
                    if vname and t[4]:
                        self.m[pre + ("@@",)] = ("variant", t[1], t[2])
                else:
                    raise Unsupported("partial write under an opaque value at %r" % (pre,))
        self.m[path] = v


def pstr(path):
    root = path[0]
    r = root if isinstance(root, str) else "_%s.%s" % (root[1], root[2])
    return ".".join([r] + [str(x) for x in path[1:]])


class State:
    def __init__(self):
        self.store = Store()
        self.facts = {}
        self.steps = ()  # step nodes executed on the current path, in order
        self.asserts = ()
        self.reads = set()  # heap paths read (pre-state dependencies)

    def fork(self):
        s = State()
        s.store = self.store.copy()
        s.facts = dict(self.facts)
        s.steps = self.steps
        s.asserts = self.asserts
        s.reads = self.reads  # shared on purpose: union over paths
        return s


class Frame:
    _n = 0

    def __init__(self, fn):
        Frame._n += 1
        self.id = Frame._n
        self.fn = fn
        self.cfg = get_cfg(fn)
        self.param_roots = {}  # by-value struct parameters live under a named heap-like root


_cfgs = {}


def get_cfg(fn):
    k = (id(fn.facts), fn.path)
    if k not in _cfgs:
        _cfgs[k] = Cfg(fn)
    return _cfgs[k]


class Policy:
    """decides how crate-local calls are treated"""

    def __init__(self, F, modular=True, inline_depth=8, step_self=False, inline_loops=False):
        self.F = F
        self.modular = modular
        self.inline_depth = inline_depth
        self.inline_loops = inline_loops  # loops are summarised (fill / accum / pick), so loop functions can be inlined
        self.step_self = step_self  # keep even self.next(..) delegation as a step node

    def decide(self, g, recv_path, depth):
        """-> 'inline' | 'step' | 'ucall'"""
        cfg = get_cfg(g)
        is_component_method = g.trait_short in ("Next", "Reset") and recv_path is not None and (len(recv_path) > 1 or self.step_self)
        if is_component_method and self.modular:
            return "step"
        if self.F.loopy(g) and not self.inline_loops:
            if g.trait_short in ("Next", "Reset") and recv_path is not None:
                return "step"
            if (g.self_struct is None or fn_params(g).get(1) != "self") and depth < self.inline_depth:
                return "inline"  # a function of its arguments only (loops are summarised): no receiver state to keep modular
            return "ucall"
        if depth >= self.inline_depth:
            return "too-deep"
        return "inline"


def subterms_safe(t):
    from terms import subterms
    try:
        return list(subterms(t)) if isinstance(t, tuple) else []
    except Exception:
        return []


def st_fill_probe(ex, st, changed):
    """state in which to re-run a fill body so that its assert sites are recorded once"""
    return st.fork()


class Exec:
    def __init__(self, F, policy=None, budget=20000):
        self.F = F
        self.policy = policy or Policy(F)
        self.budget = budget
        self.depth = 0
        self.active_loops = set()
        self.nloop = 0
        self.ivar_bounds = {}
        self.loop_info = {}
        self.sites = []  # panic sites visited: dicts(fn, block, kind, operands, facts)
        self.sink_roots = set()
        self.loops_seen = set()  # (fn path, header block) of every loop the evaluation summarised
        self.visited = set()     # (fn path, block) of every basic block some path of the evaluation executed
        self.cur_site = (None, None, None, None)

    def iter_item(self, st, itv, loopid):
        """item produced by one `Iterator::next` of the iterable value itv, plus its bounds record"""
        if isinstance(itv, tuple) and itv[0] == "adt" and re.match(r"(std|core)::ops::(range::)?Range$", str(itv[1])):
            d = dict(itv[3])
            iv = ("ivar", loopid)
            self.ivar_bounds[iv] = {"start": d["start"], "end": d["end"], "array": None}
            return iv
        if isinstance(itv, tuple) and itv[0] == "sliceiter":
            iv = ("ivar", loopid)
            self.ivar_bounds[iv] = {"start": itv[2], "end": itv[3], "array": itv[1]}
            return ("ref", itv[1], iv)
        if isinstance(itv, tuple) and itv[0] == "copied":
            inner = self.iter_item(st, itv[1], loopid)
            return self.deref_val(st, inner) if inner is not None and inner[0] == "ref" else inner
        if isinstance(itv, tuple) and itv[0] == "enumerate":
            inner = self.iter_item(st, itv[1], loopid)
            if inner is None:
                return None
            iv = ("ivar", loopid)  # position = loop variable (slices and ranges are iterated from their start)
            b_ = self.ivar_bounds.get(iv)
            if b_ is not None and b_["start"] != cu(0):
                iv = fold("-", iv, b_["start"])
            return ("adt", "tuple", (0, ""), (("0", iv), ("1", inner)), False)
        if isinstance(itv, tuple) and itv[0] == "mapiter":
            inner = self.iter_item(st, itv[1], loopid)
            if inner is None:
                return None
            # the one symbolic item stands for every element: the closure must be pure (run on a fork, nothing may change)
            s2 = st.fork()
            v = self.call_closure(s2, itv[2], [inner])
            if s2.steps != st.steps:
                raise Unsupported("the closure of an Iterator::map steps a component")
            for k_, v_ in s2.store.m.items():
                if st.store.m.get(k_) != v_ and (isinstance(k_[0], str) or self._try_read(st, k_) is not None):
                    raise Unsupported("the closure of an Iterator::map writes %s: it runs once per element, not once" % pstr(k_))
            st.asserts = s2.asserts
            return v
        return None

    # ---------- iterator adaptors consumed by fold / sum / for_each ----------
    def classify_carried(self, v, lv, old, loopid, name):
        """summary of one loop-carried value whose one-iteration update is v (lv = its symbol at the top of the iteration)"""
        from terms import subterms
        if isinstance(v, tuple) and v[0] == "+" and (v[1] == lv or v[2] == lv):
            e = v[2] if v[1] == lv else v[1]
            if not any(x == lv for x in subterms(e)):
                return ("accum", old, e, loopid)
        if isinstance(v, tuple):
            ls = [l for _, l in leaves(v)]
            others = [l for l in ls if l != lv]
            if all(not any(x == lv for x in subterms(l)) for l in others):
                return ("pick", old, tuple(dict.fromkeys(others)), loopid, v)
        if v == lv:
            return old
        return ("havoc", loopid, name)

    def const_items(self, st, itv):
        """the items of an iterator over a local fixed-size array with constant bounds, else None"""
        if isinstance(itv, tuple) and itv[0] == "copied":
            inner = self.const_items(st, itv[1])
            return None if inner is None else [self.deref_val(st, x) if isinstance(x, tuple) and x[0] == "ref" else x for x in inner]
        if isinstance(itv, tuple) and itv[0] == "sliceiter" and not isinstance(itv[1][0], str):
            arr = self._try_read(st, itv[1])
            if isinstance(arr, tuple) and arr[0] == "array" and itv[2] == cu(0) and is_const(itv[3]) and itv[3][2] == len(arr) - 1:
                return [("ref", itv[1], cu(i)) for i in range(len(arr) - 1)]
        return None

    def iter_fold(self, st, itv, init, clo, where):
        """value of `iter.fold(init, clo)`; clo is a closure term or a python callable (state, acc, item) -> acc'"""
        step = clo if callable(clo) else (lambda state, acc, item: self.call_closure(state, clo, [acc, item]))
        if isinstance(itv, tuple) and itv[0] == "chain":
            return self.iter_fold(st, itv[2], self.iter_fold(st, itv[1], init, clo, where), clo, where)
        items = self.const_items(st, itv)
        if items is not None:
            acc = init
            for it in items:
                acc = step(st, acc, it)
            return acc
        self.nloop += 1
        loopid = self.nloop
        item = self.iter_item(st, itv, loopid)
        if item is None:
            raise Unsupported("fold over an unrecognised iterator: %s" % show(itv)[:80])
        tuple_acc = isinstance(init, tuple) and init[0] == "adt" and init[1] == "tuple"
        if tuple_acc:
            names = [n for n, _ in init[3]]
            acc_sym = ("adt", "tuple", (0, ""), tuple((n, ("lv", loopid, "acc." + n)) for n in names), False)
        else:
            acc_sym = ("lv", loopid, "acc")
        s2 = st.fork()
        before = dict(s2.store.m)
        new = step(s2, acc_sym, item)
        for k, v in s2.store.m.items():
            if before.get(k) != v and (isinstance(k[0], str) or k in before or self._try_read(st, k) is not None):
                raise Unsupported("fold closure writes to something other than its accumulator (%s)" % pstr(k))
        if s2.steps != st.steps:
            raise Unsupported("fold closure steps a component")
        st.asserts = s2.asserts
        if tuple_acc:
            comps = []
            summaries = {}
            for n, old in init[3]:
                lv = ("lv", loopid, "acc." + n)
                v = self.project(new, (n,), s2)
                summ = self.classify_carried(v, lv, old, loopid, "acc." + n)
                summaries["acc." + n] = summ
                comps.append((n, summ))
            out = ("adt", "tuple", (0, ""), tuple(comps), False)
        else:
            out = self.classify_carried(new, acc_sym, init, loopid, "acc")
            summaries = {"acc": out}
        self.loop_info[loopid] = {"fn": where, "header": None, "item": item, "changed": list(summaries), "summaries": summaries}
        return out

    def iter_for_each(self, st, itv, clo):
        """`iter.for_each(clo)`: a fill when the closure only stores a loop-invariant value through a slice item; otherwise the
        variables the closure updates through its captures are loop-carried and summarised like those of a `for` loop"""
        if isinstance(clo, tuple) and clo[0] == "ref":
            clo = self.deref_val(st, clo)   # `for_each(&mut f)`
        if isinstance(itv, tuple) and itv[0] == "chain":
            self.iter_for_each(st, itv[1], clo)
            self.iter_for_each(st, itv[2], clo)
            return UNIT
        items = self.const_items(st, itv)
        if items is not None:
            for it_ in items:
                self.call_closure(st, clo, [it_])
            return UNIT
        self.nloop += 1
        loopid = self.nloop
        item = self.iter_item(st, itv, loopid)
        iv = ("ivar", loopid)
        if item is None:
            raise Unsupported("for_each over an unrecognised iterator: %s" % show(itv)[:80])
        from terms import subterms
        saved_sites = list(self.sites)
        s2 = st.fork()
        before = dict(s2.store.m)
        self.call_closure(s2, clo, [item])
        self.sites = saved_sites
        b = self.ivar_bounds[iv]
        changed = {}
        for k, v in s2.store.m.items():
            if before.get(k) == v:
                continue
            old = self._try_read(st, k)
            if old is None:
                if isinstance(k[0], str):
                    old = ("pre", pstr(k))
                else:
                    continue  # a temporary of the closure's own frame
            changed[k] = old
        is_fill = bool(changed) and all(isinstance(k[0], str) and isinstance(s2.store.m[k], tuple) and s2.store.m[k][0] == "store" and s2.store.m[k][1] == old
                                        and s2.store.m[k][2] == iv and not any(x == iv or x == ("pre", pstr(k)) for x in subterms(s2.store.m[k][3]))
                                        for k, old in changed.items())
        if is_fill:
            for k, old in changed.items():
                st.store.write(k, ("fill", old, b["start"], b["end"], s2.store.m[k][3]))
            self.call_closure(st.fork(), clo, [item])   # record the body's sites once, with the loop variable symbolic
            st.asserts = s2.asserts
            return UNIT
        if any(isinstance(k[0], str) for k in changed):
            raise Unsupported("for_each closure writes to state other than a slice fill (%s)" % ", ".join(pstr(k) for k in changed if isinstance(k[0], str)))

        def lvname(k):
            return ".".join(["L%d" % k[0][2]] + [str(x) for x in k[1:]])
        for _round in range(8):
            s3 = st.fork()
            for k in changed:
                s3.store.write(k, ("lv", loopid, lvname(k)))
            self.sites = list(saved_sites)
            self.call_closure(s3, clo, [item])
            more = {}
            for k, v in s3.store.m.items():   # discovery to a fixpoint (`a = b; b = x` with a0 == b0)
                if k in changed or st.store.m.get(k) == v:
                    continue
                old = self._try_read(st, k)
                if old is None and not isinstance(k[0], str):
                    continue
                if isinstance(k[0], str):
                    raise Unsupported("for_each closure writes to state other than a slice fill (%s)" % pstr(k))
                if v != old:
                    more[k] = old
            if not more:
                break
            changed.update(more)
        else:
            raise Unsupported("for_each: the set of loop-carried places does not settle")
        summaries = {}
        for k, old in changed.items():
            lv = ("lv", loopid, lvname(k))
            v = s3.store.m.get(k)
            if v is None:
                v = self._try_read(s3, k)
            summ = self.classify_carried(v, lv, old, loopid, lvname(k))
            summaries[lvname(k)] = summ
            st.store.write(k, summ)
        st.asserts = s3.asserts
        self.loop_info[loopid] = {"fn": self.cur_fn_label, "header": None, "item": item, "changed": list(summaries), "summaries": summaries}
        return UNIT

    def summarize_loop(self, fr, st, h):
        """Iterator-driven loops. Recognised summaries:
             fill    for i in a..b { buf[i] = v }          -> buf = fill(buf, a, b, v)
             accum   acc = acc + e   (e free of acc)        -> ('accum', init, e, loop)
             pick    x = gamma(.., e, x) / x = e            -> ('pick', init, (e..), loop)   value is init or some e
           anything else written by the body becomes ('havoc', ..). Loops not driven by Iterator::next raise HasLoop."""
        fn = fr.fn
        cfg = fr.cfg
        self.loops_seen.add((fn.path, h))
        self.visited.add((fn.path, h))
        blk = fn.block_by_id[h]
        t = blk["term"]
        nm = callees.callee_name(t["callee"]) if t["k"] == "call" else ""
        std_iter = t["k"] == "call" and (t["callee"].get("resolved_krate") or t["callee"].get("krate")) in ("core", "std", "alloc") and not t["callee"].get("resolved_local")
        if t["k"] != "call" or not std_iter or not re.search(r"iter::Iterator>::next$|Iterator for .*>::next$", callees.strip_turbofish(nm)):
            return self.summarize_counted(fr, st, h)
        for s_ in blk["stmts"]:
            if s_["k"] == "assign":
                self.write_place(fr, st, s_["place"], self.rvalue(fr, st, s_["rv"]))
        it = self.operand(fr, st, t["args"][0])
        itv = self.deref_val(st, self.deref_val(st, it))

        if isinstance(itv, tuple) and itv[0] == "array":
            # `for x in [a, b, c]`: a fixed number of iterations, executed one after the other (no summary needed)
            for elem in itv[1:]:
                self.write_place(fr, st, t["dest"], ("adt", "Option", (1, "Some"), (("0", elem),), True))
                self.active_loops.add((fr.id, h))
                try:
                    out = self.run(fr, t["target"], st, h)
                finally:
                    self.active_loops.discard((fr.id, h))
                if out is None or getattr(out, "returned", False):
                    raise HasLoop("%s: loop body at bb%d leaves the loop irregularly" % (fn.label, h))
                st = out
            self.write_place(fr, st, t["dest"], ("adt", "Option", (0, "None"), (), True))
            return st, t["target"]

        def parts(v):
            if isinstance(v, tuple) and v[0] == "chain":
                return parts(v[1]) + parts(v[2])
            return [v]
        for part in parts(itv):
            self.nloop += 1
            loopid = self.nloop
            item = self.iter_item(st, part, loopid)
            if item is None:
                raise HasLoop("%s: iterator of the loop at bb%d is not a recognised Range / slice iterator (%s)" % (fn.label, h, show(part)[:80]))
            some = ("adt", "Option", (1, "Some"), (("0", item),), True)
            # the iterator variable itself is consumed by the loop
            itpath = it[1] if isinstance(it, tuple) and it[0] == "ref" else None
            self._summarize_one(fr, st, h, loopid, item, itpath, t["target"], lambda state, some=some: self.write_place(fr, state, t["dest"], some))
        self.write_place(fr, st, t["dest"], ("adt", "Option", (0, "None"), (), True))
        return st, t["target"]

    def summarize_counted(self, fr, st, h):
        """`while i < bound { ..; i += 1 }` with a loop-invariant bound: treated as `for i in start..bound`"""
        fn = fr.fn

        def header(state):
            """execute the straight-line header (statements, non-panicking std calls) up to the loop test; returns its switch"""
            b = h
            for _ in range(6):
                blk_ = fn.block_by_id[b]
                self.visited.add((fn.path, b))
                for si_, s_ in enumerate(blk_["stmts"]):
                    if s_["k"] == "assign":
                        self.cur_site = (fn, b, s_["span"], si_)
                        self.write_place(fr, state, s_["place"], self.rvalue(fr, state, s_["rv"]))
                t_ = blk_["term"]
                if t_["k"] == "switch":
                    return t_
                if t_["k"] == "goto":
                    b = t_["target"]
                elif t_["k"] == "call" and t_["target"] is not None and callees.classify(t_["callee"], self.F.d["crate"])[0] == "pure":
                    self.call(fr, state, t_)
                    b = t_["target"]
                else:
                    break
            raise HasLoop("%s: loop at bb%d is not driven by Iterator::next and has no simple `i < bound` test" % (fn.label, h))
        probe = st.fork()
        t = header(probe)
        d = simp(self.operand(fr, probe, t["discr"]), probe.facts)
        a, pol = lit(d) if isinstance(d, tuple) and d[0] in CMP + ("not",) else (None, True)
        if not (a is not None and a[0] == "<" and pol and t["discr_ty"] == "bool"):
            raise HasLoop("%s: loop at bb%d is not driven by Iterator::next and its condition is not `i < bound`" % (fn.label, h))
        start, bound = a[1], a[2]
        # the induction variable: follow the left operand of the test back through the header's copies
        defs = {}
        b_ = h
        for _ in range(6):
            blk_ = fn.block_by_id[b_]
            for s_ in blk_["stmts"]:
                if s_["k"] == "assign" and not s_["place"]["proj"]:
                    defs[s_["place"]["local"]] = s_["rv"]
            if blk_["term"]["k"] == "switch":
                break
            b_ = blk_["term"].get("target")
            if b_ is None:
                break
        loc_ = t["discr"]["place"]["local"] if t["discr"]["k"] in ("copy", "move") and not t["discr"]["place"]["proj"] else None
        rv_ = defs.get(loc_)
        ivl = None
        if rv_ and rv_["k"] == "binop" and rv_["op"] in ("Lt", "Gt"):
            o_ = rv_["a"] if rv_["op"] == "Lt" else rv_["b"]
            while o_["k"] in ("copy", "move") and not o_["place"]["proj"]:
                ivl = o_["place"]["local"]
                nxt = defs.get(ivl)
                if nxt and nxt["k"] == "use":
                    o_ = nxt["op"]
                else:
                    break
        ipath = (("L", fr.id, ivl),) if ivl is not None else None
        if ipath is None or self._try_read(st, ipath) != start:
            raise HasLoop("%s: loop at bb%d: no induction variable found for the condition %s" % (fn.label, h, show(d)[:60]))
        body_blk = [int(tgt) for v, tgt in t["targets"] if int(v) == 0]
        exit_blk, enter_blk = (body_blk[0], t["otherwise"]) if body_blk else (None, None)
        if exit_blk is None:
            raise HasLoop("%s: loop at bb%d: unrecognised switch shape" % (fn.label, h))
        self.nloop += 1
        loopid = self.nloop
        iv = ("ivar", loopid)
        self.ivar_bounds[iv] = {"start": start, "end": bound, "array": None}

        def enter(state):
            state.store.write(ipath, iv)
            header(state)
            self.add_fact(state, ("<", iv, bound), True)

        def check(out):
            if self._try_read(out, ipath) != ("+", iv, cu(1)):
                raise HasLoop("%s: loop at bb%d: the induction variable is not advanced by exactly 1 per iteration" % (fn.label, h))
            from terms import subterms
            o2 = out.fork()
            saved = list(self.sites)
            t2 = header(o2)
            self.sites = saved
            d2 = simp(self.operand(fr, o2, t2["discr"]), {})
            a2, p2 = lit(d2) if isinstance(d2, tuple) and d2[0] in CMP + ("not",) else (None, True)
            if any(x == iv for x in subterms(bound)) or a2 is None or not p2 or a2[0] != "<" or a2[2] != bound or a2[1] != ("+", iv, cu(1)):
                raise HasLoop("%s: loop at bb%d: the bound changes inside the loop" % (fn.label, h))
        self._summarize_one(fr, st, h, loopid, iv, ipath, enter_blk, enter, check)
        if self._try_read(st, ipath) is not None:
            pass
        # after the loop: i = bound when start <= bound (start is 0 in the recognised idiom), else i = start
        st.store.write(ipath, bound if start == cu(0) else mk_gamma(("<", start, bound), bound, start))
        header(st)
        return st, exit_blk

    def _summarize_one(self, fr, st, h, loopid, item, itpath, start_block, enter, check=None):
        fn = fr.fn

        def under_it(state):
            return {k_: v_ for k_, v_ in state.store.m.items() if itpath and k_[:len(itpath)] == itpath}

        def body(state):
            enter(state)
            it_before = under_it(state) if check is None else None
            w_ = [itpath, False]
            if check is None and itpath:
                Store.watch.append(w_)
            self.active_loops.add((fr.id, h))
            try:
                out = self.run(fr, start_block, state, h)
            finally:
                self.active_loops.discard((fr.id, h))
                if check is None and itpath:
                    Store.watch.remove(w_)
            if out is None or getattr(out, "returned", False):
                raise HasLoop("%s: loop body at bb%d leaves the loop irregularly" % (fn.label, h))
            if out.steps != state_steps[0]:
                raise HasLoop("%s: loop at bb%d calls a component" % (fn.label, h))
            if check is not None:
                check(out)
            elif w_[1] or under_it(out) != it_before:
                # termination and the bounds of the loop variable rest on the iterator being advanced by the header alone
                raise HasLoop("%s: the body of the loop at bb%d writes the loop's own iterator" % (fn.label, h))
            return out

        state_steps = [st.steps]
        n_asserts = len(st.asserts)
        saved_sites = list(self.sites)
        out1 = body(st.fork())
        self.sites = saved_sites  # first pass is only for discovery
        changed = {}
        for k, v in out1.store.m.items():
            if k == itpath or (itpath and k[:len(itpath)] == itpath):
                continue
            old = self._try_read(st, k)
            if old is None:
                if isinstance(k[0], str):
                    old = ("pre", pstr(k))
                else:
                    continue  # temp born inside the body
            if v != old:
                changed[k] = old
        # a loop-carried local tuple (`best = (i, v)`) is carried component-wise, like the accumulator of a fold
        for k in list(changed):
            old = changed[k]
            if not isinstance(k[0], str) and isinstance(old, tuple) and old[0] == "adt" and old[1] == "tuple":
                del changed[k]
                for nm_, ov_ in old[3]:
                    changed[k + (nm_,)] = ov_
        iv = ("ivar", loopid)
        # --- fill idiom
        fill = {}
        is_fill = bool(changed)
        for k, old in changed.items():
            v = out1.store.m.get(k)
            if v is None:
                v = self._try_read(out1, k)
            if isinstance(k[0], str) and isinstance(v, tuple) and v[0] == "store" and v[1] == old and v[2] == iv \
                    and (item == iv or (isinstance(item, tuple) and item[0] == "ref" and item[1] == k and item[2] == iv)):
                from terms import subterms
                if any(x == iv or (x[0] == "pre" and any(x[1] == pstr(c) for c in changed)) for x in subterms(v[3])):
                    is_fill = False
                fill[k] = v[3]
            elif isinstance(k[0], str):
                is_fill = False
            else:
                # a local rewritten by the body that was live before: not a pure fill
                is_fill = False
        if is_fill:
            b = self.ivar_bounds[iv]
            for k, v in fill.items():
                st.store.write(k, ("fill", changed[k], b["start"], b["end"], v))
            st.asserts = out1.asserts
            # keep the assert sites of the body (evaluated with the loop variable symbolic)
            self.sites = saved_sites
            out1b = body(st_fill_probe(self, st, changed))
            return
        # --- general case: loop-carried values become symbols, the body is evaluated once more
        def lvname(k):
            # frame-independent name of a loop-carried place
            return pstr(k) if isinstance(k[0], str) else ".".join(["L%d" % k[0][2]] + [str(x) for x in k[1:]])

        for _round in range(8):
            s3 = st.fork()
            for k in changed:
                s3.store.write(k, ("lv", loopid, lvname(k)))
            self.sites = list(saved_sites)
            out2 = body(s3)
            # discovery to a fixpoint: a place whose first-iteration value happened to equal its old one (`a = b` with a0 == b0)
            # shows up as changed once the places it copies from are symbolic
            more = {}
            for k, v in out2.store.m.items():
                if k in changed or k == itpath or (itpath and k[:len(itpath)] == itpath) or any(k[:len(c)] == c or c[:len(k)] == k for c in changed):
                    continue
                old = self._try_read(st, k)
                if old is None:
                    if isinstance(k[0], str):
                        old = ("pre", pstr(k))
                    else:
                        continue
                if v != old:
                    more[k] = old
            if not more:
                break
            changed.update(more)
        else:
            raise HasLoop("%s: loop at bb%d: the set of loop-carried places does not settle" % (fn.label, h))
        from terms import subterms
        for k, old in changed.items():
            lv = ("lv", loopid, lvname(k))
            v = out2.store.m.get(k)
            if v is None:
                v = self._try_read(out2, k)
            summ = None
            if isinstance(v, tuple) and v[0] == "+" and (v[1] == lv or v[2] == lv):
                e = v[2] if v[1] == lv else v[1]
                if not any(x == lv for x in subterms(e)):
                    summ = ("accum", old, e, loopid)
            if summ is None and isinstance(v, tuple):
                from terms import leaves
                ls = [l for _, l in leaves(v)]
                others = [l for l in ls if l != lv]
                if all(not any(x == lv for x in subterms(l)) for l in others):
                    summ = ("pick", old, tuple(dict.fromkeys(others)), loopid, v)
            if summ is None:
                summ = ("havoc", loopid, pstr(k))
            st.store.write(k, summ)
        st.asserts = out2.asserts
        self.loop_info[loopid] = {"fn": fn.label, "header": h, "item": item, "changed": [lvname(k) for k in changed],
                                  "summaries": {lvname(k): self._try_read(st, k) for k in changed}}

    # ---------- values ----------
    def read_path(self, st, path, ty=None):
        m = st.store.m
        if path in m:
            return simp(m[path], st.facts)
        for j in range(len(path) - 1, 0, -1):
            pre = path[:j]
            if pre in m:
                return self.project(simp(m[pre], st.facts), path[j:], st)
        if st.store.has_descendants(path):
            # rebuild what we can: used for whole-struct reads after field writes
            return ("partial", pstr(path))
        root = path[0]
        if isinstance(root, str):
            st.reads.add(pstr(path))
            return ("pre", pstr(path))
        raise Unsupported("read of unassigned local %s" % pstr(path))

    def project(self, t, fields, st):
        for i, f in enumerate(fields):
            if not isinstance(t, tuple):
                raise Unsupported("projection %s of non-term" % f)
            h = t[0]
            if h == "gamma":
                rest = fields[i:]
                return mk_gamma(t[1], self.project(t[2], rest, st), self.project(t[3], rest, st))
            if h == "bot":
                return BOT
            if h in ("boxref",):
                continue  # .0.pointer of a Box: still the same buffer
            if h == "adt":
                if f.startswith("@"):
                    vn = t[2][1] if isinstance(t[2], tuple) else ""
                    if f == "@" + vn or not t[4]:
                        continue
                    return BOT  # downcast to another variant: infeasible on this path
                d = dict(t[3])
                if f in d:
                    t = d[f]
                    continue
                raise Unsupported("no field %s in %s" % (f, show(t)))
            if h == "post":
                t = ("post", t[1], t[2] + (f,))
                continue
            if h == "pre":
                t = ("pre", t[1] + "." + f)
                continue
            if f.startswith("@"):
                t = ("as", t, f[1:])
                continue
            t = ("proj", t, f)
        return t

    def place_path(self, fr, st, place):
        """-> (path, index term or None)"""
        path = (("L", fr.id, place["local"]),)
        if place["local"] in fr.param_roots:
            path = (fr.param_roots[place["local"]],)
        idx = None
        for e in place["proj"]:
            k = e["k"]
            if idx is not None:
                raise Unsupported("projection after index")
            if k == "deref":
                v = self.read_path(st, path)
                if isinstance(v, tuple) and v[0] in ("ref", "boxref"):
                    path = v[1]
                    if v[0] == "ref" and len(v) > 2 and v[2] is not None:
                        idx = v[2]
                elif isinstance(v, tuple) and v[0] in ("constval", "ucall", "pre", "arg", "proj", "post", "ret"):
                    path = (self.opaque_root(v),)  # opaque pointee: reads yield pre(X:..)
                elif isinstance(v, tuple) and v[0] == "gamma" and all(isinstance(l, tuple) and l[0] in ("constval", "ucall", "pre", "arg", "proj", "post", "ret") for _, l in leaves(v)):
                    path = (self.opaque_root(v),)  # a choice between opaque pointees (e.g. one of several string literals)
                else:
                    raise Unsupported("deref of %s" % show(v))
            elif k == "field":
                path = path + (e["name"],)
            elif k == "downcast":
                path = path + ("@" + str(e["name"]),)
            elif k == "index":
                idx = self.read_path(st, (("L", fr.id, e["local"]),))
            elif k == "cindex":
                if e.get("from_end"):
                    # `[.., last]`: counted from the end of the slice
                    ln_ = self.length(self.read_path(st, path))
                    idx = fold("-", ln_, cu(e["offset"]))
                else:
                    idx = cu(e["offset"])
            else:
                raise Unsupported("projection " + k)
        return path, idx

    @staticmethod
    def opaque_root(v):
        """name of the pointee of an opaque pointer: the printed term (truncated by `show`) plus a digest of the whole term, so that
        two different deep pointers never share a root"""
        import hashlib
        s_ = show(v)
        return "X:" + s_ + ("" if len(s_) < 200 and "…" not in s_ and "..." not in s_ else "#" + hashlib.sha1(repr(v).encode()).hexdigest()[:12])

    def read_place(self, fr, st, place):
        path, idx = self.place_path(fr, st, place)
        ty = place.get("ty", "")
        if idx is None:
            if ty.startswith("std::boxed::Box<[") and isinstance(path[0], str):
                return ("boxref", path)
            v = self.read_path(st, path)
            if ty.startswith("std::boxed::Box<[") and isinstance(v, tuple) and v[0] == "pre":
                return ("boxref", path)
            return v
        arr = self.read_path(st, path)
        return self.select(arr, idx)

    @staticmethod
    def select(arr, idx):
        a = arr
        if isinstance(a, tuple) and a[0] == "store" and a[2] == idx:
            return a[3]
        if isinstance(a, tuple) and a[0] == "fromelem":
            return a[1]
        if isinstance(a, tuple) and a[0] == "array" and is_const(idx) and 0 <= idx[2] < len(a) - 1:
            return a[1 + idx[2]]
        return ("select", arr, idx)

    def write_place(self, fr, st, place, v):
        path, idx = self.place_path(fr, st, place)
        if isinstance(path[0], str) and path[0].startswith("X:"):
            raise Unsupported("store through an opaque pointer (%s): the pointee may be any state it can reach" % path[0][:60])
        if idx is None:
            st.store.write(path, v)
        else:
            arr = self.read_path(st, path)
            st.store.write(path, ("store", arr, idx, v))

    def const(self, c):
        if "fn" in c:
            return ("fn", c["fn"]["path"])
        ty = c["ty"]
        if "f64" in c:
            return cf(float(c["f64"]))
        if ty == "bool":
            return TRUE if c.get("int") == "1" else FALSE
        if "int" in c:
            return C("int", int(c["int"]))
        if ty == "()":
            return UNIT
        if "bits" not in c and c.get("text") is not None:
            # zero-sized or aggregate constants (e.g. unit structs / enum variants printed as text)
            return ("constval", ty, c["text"])
        return ("constval", ty, c.get("bits"))

    def operand(self, fr, st, o):
        k = o["k"]
        if k in ("copy", "move"):
            return self.read_place(fr, st, o["place"])
        if k == "const":
            return self.const(o["c"])
        return ("runtime_check",)

    def write_ref(self, st, r, v):
        """store through a reference term ("ref", path, index|None)"""
        if isinstance(r[1][0], str) and r[1][0].startswith("X:"):
            raise Unsupported("store through an opaque pointer (%s)" % r[1][0][:60])
        if len(r) > 2 and r[2] is not None:
            arr = self.read_path(st, r[1])
            st.store.write(r[1], ("store", arr, r[2], v))
        else:
            st.store.write(r[1], v)

    @staticmethod
    def default_of(callee):
        """Default::default() of the primitive a `mem::take::<T>` is instantiated at (None if not a primitive)"""
        m = re.search(r"take::<([^<>]*)>$", callee.get("path_args") or "")
        ty = m.group(1) if m else None
        if ty == "f64":
            return cf(0.0)
        if ty == "bool":
            return FALSE
        if ty in ("usize", "u8", "u16", "u32", "u64", "i32", "i64", "isize"):
            return cu(0)
        return None

    def deref_val(self, st, v):
        """value behind a reference term"""
        if isinstance(v, tuple) and v[0] == "ref":
            if len(v) > 2 and v[2] is not None:
                return self.select(self.read_path(st, v[1]), v[2])
            return self.read_path(st, v[1])
        if isinstance(v, tuple) and v[0] == "gamma":
            return mk_gamma(v[1], self.deref_val(st, v[2]), self.deref_val(st, v[3]))
        return v

    def rvalue(self, fr, st, rv):
        k = rv["k"]
        if k == "use":
            return self.operand(fr, st, rv["op"])
        if k == "binop":
            a = self.operand(fr, st, rv["a"])
            b = self.operand(fr, st, rv["b"])
            op = rv["op"]
            if op.endswith("WithOverflow"):
                sym = BINOPS[op[:-12]]
                return ("adt", "tuple", (0, ""), (("0", self.int_arith(sym, a, b)), ("1", ("ovf", sym, a, b))), False)
            if op in ("Add", "Sub", "Mul", "AddUnchecked", "SubUnchecked", "MulUnchecked") and rv.get("operand_ty") != "f64":
                return self.int_arith(BINOPS[op], a, b)   # (release profile: the same sums without the overflow flag)
            if op == "Cmp":
                return ("cmp3", a, b)
            if op == "Offset":
                raise Unsupported("pointer offset")
            if op == "Div" and rv.get("operand_ty") == "f64":
                fn_, blk_, span_, si_ = self.cur_site
                self.sites.append({"fn": fn_.label, "path": fn_.path, "block": blk_, "stmt": si_, "what": "fdiv", "kind": "Div", "operands": {"num": a, "den": b},
                                   "facts": dict(st.facts), "span": span_, "root_depth": self.depth})
            if op == "Div" and rv.get("operand_ty") != "f64":
                # integer division truncates: never the field operation, whichever operand is the literal
                if is_const(a) and is_const(b) and a[1] == b[1] == "int" and b[2] != 0 and a[2] >= 0 and b[2] > 0:
                    return C("int", a[2] // b[2])
                return ("idiv", a, b)
            return fold(BINOPS[op], a, b)
        if k == "unop":
            a = self.operand(fr, st, rv["a"])
            if rv["op"] == "Not":
                if rv.get("operand_ty", "bool") != "bool":
                    # bitwise complement of an integer, not a logical negation: !0u8 is 255
                    w_ = {"u8": 8, "u16": 16, "u32": 32, "u64": 64, "usize": 64}.get(rv.get("operand_ty"))
                    if is_const(a) and w_ is not None and rv.get("operand_ty") != "usize":
                        return C("int", (1 << w_) - 1 - int(a[2]))
                    return ("bitnot", rv.get("operand_ty"), a)
                return mk_not(a)
            if rv["op"] == "Neg":
                if is_const(a):
                    return C(a[1], -a[2])
                return ("neg", a)
            if rv["op"] == "PtrMetadata":
                if isinstance(a, tuple) and a[0] in ("ref", "boxref"):
                    return self.length(self.read_path(st, a[1]))
                return ("len", a)
            return ("unop", rv["op"], a)
        if k == "cast":
            a = self.operand(fr, st, rv["op"])
            kind = rv["kind"]
            if kind == "IntToFloat":
                if is_const(a):
                    return cf(float(a[2]))
                return ("i2f", a)
            if kind == "Transmute" and isinstance(a, tuple) and a[0] == "boxref":
                return ("ref", a[1], None)
            if kind.startswith("PointerCoercion") or kind in ("PtrToPtr", "Subtype"):
                return a
            if kind == "IntToInt":
                if is_const(a):
                    w_ = {"u8": 8, "u16": 16, "u32": 32, "u64": 64, "usize": 64, "i8": 8, "i16": 16, "i32": 32, "i64": 64, "isize": 64}.get(rv["ty"]["s"])
                    if w_ is None:
                        return ("int_cast", rv["ty"]["s"], a)
                    v_ = int(a[2]) % (1 << w_)   # casts wrap: 256usize as u8 == 0
                    if rv["ty"]["s"].startswith("i") and v_ >= (1 << (w_ - 1)):
                        v_ -= 1 << w_
                    return C("int", v_)
                return ("int_cast", rv["ty"]["s"], a)
            return ("cast", kind, rv["ty"]["s"], a)
        if k in ("ref", "rawptr"):
            pl = rv["place"]
            if len(pl["proj"]) == 1 and pl["proj"][0]["k"] == "deref":
                v = self.read_path(st, (("L", fr.id, pl["local"]),)) if pl["local"] not in fr.param_roots else None
                if isinstance(v, tuple) and v and v[0] in ("sliceiter", "enumerate", "ref"):
                    return v  # reborrow
            path, idx = self.place_path(fr, st, pl)
            return ("ref", path, idx)
        if k == "discriminant":
            v = self.read_place(fr, st, rv["place"])
            if re.match(r"(std|core)::(option::Option|result::Result)<", rv["place"].get("ty", "")):
                from terms import subterms as _st
                import terms as _terms
                for x in _st(v):
                    if isinstance(x, tuple) and x and x[0] in ("pre", "proj", "ucall", "ret", "post", "get", "arg", "select"):
                        _terms.TWO_VARIANT.add(x)
            return self.discr(v)
        if k == "aggregate":
            ops = [self.operand(fr, st, o) for o in rv["ops"]]
            agg = rv["agg"]
            if agg == "adt":
                names = rv["field_names"]
                return ("adt", rv["path"], (rv["variant"], rv["variant_name"] if rv["is_enum"] else ""), tuple(zip(names, ops)), bool(rv["is_enum"]))
            if agg == "tuple":
                if not ops:
                    return UNIT
                return ("adt", "tuple", (0, ""), tuple((str(i), o) for i, o in enumerate(ops)), False)
            if agg == "array":
                return ("array",) + tuple(ops)
            if agg == "closure":
                return ("closure", rv["path"], tuple(ops))
            raise Unsupported("aggregate " + agg)
        if k == "copy_for_deref":
            return self.read_place(fr, st, rv["place"])
        if k == "repeat":
            return ("fromelem", self.operand(fr, st, rv["op"]), ("lenconst", rv["len"]))
        if k == "thread_local_ref":
            raise Unsupported("thread local")
        raise Unsupported("rvalue " + k + " " + str(rv.get("text", ""))[:60])

    @staticmethod
    def length(arr):
        a = arr
        while isinstance(a, tuple) and a[0] == "store":
            a = a[1]
        while isinstance(a, tuple) and a[0] in ("store", "fill"):
            a = a[1]
        if isinstance(a, tuple) and a[0] == "fromelem":
            return a[2]
        if isinstance(a, tuple) and a[0] == "array":
            return cu(len(a) - 1)
        return ("len", a)

    def discr(self, v):
        if isinstance(v, tuple):
            if v[0] == "adt":
                return C("int", v[2][0])
            if v[0] == "gamma":
                return mk_gamma(v[1], self.discr(v[2]), self.discr(v[3]))
            if v[0] == "bot":
                return BOT
        return ("discr", v)

    # ---------- control ----------
    def cond_for(self, d, value, all_values):
        """boolean term for `d == value`; value None = otherwise branch"""
        if value is None:
            c = None
            for v in all_values:
                x = mk_not(self.cond_for(d, v, all_values))
                c = x if c is None else self.mk_and(c, x)
            return c
        if is_const(d):
            # switch values are raw bit patterns of the discriminant's type; a negative constant is its two's complement there
            dv_, sv_ = int(d[2]), int(value)
            if dv_ < 0 or sv_ < 0:
                for w_ in (8, 16, 32, 64, 128):
                    if dv_ % (1 << w_) == sv_ % (1 << w_):
                        return TRUE
                return FALSE
            return TRUE if dv_ == sv_ else FALSE
        if d[0] == "gamma":
            a = self.cond_for(d[2], value, all_values)
            b = self.cond_for(d[3], value, all_values)
            if a == TRUE and b == FALSE:
                return d[1]
            if a == FALSE and b == TRUE:
                return mk_not(d[1])
            if a == b:
                return a
            return mk_gamma(d[1], a, b)
        if d == BOT:
            return FALSE
        # boolean discriminant: switch [0 -> F] else T
        if int(value) == 0 and self.is_boolish(d):
            return mk_not(d)
        if int(value) == 1 and self.is_boolish(d):
            return d
        return ("==", d, C("int", int(value)))

    @staticmethod
    def is_boolish(d):
        return d[0] in CMP or d[0] in ("not", "and", "or", "sgnpos", "is_some", "is_none", "ovf") or (d[0] == "pre" and False)

    @staticmethod
    def mk_and(a, b):
        if a == TRUE:
            return b
        if b == TRUE:
            return a
        if a == FALSE or b == FALSE:
            return FALSE
        return ("and", a, b)

    def add_fact(self, st, c, val=True):
        if c[0] == "and" and val:
            self.add_fact(st, c[1], True)
            self.add_fact(st, c[2], True)
            return
        if c[0] == "gamma" or is_const(c):
            return
        a, p = lit(c)
        st.facts[a] = (p == val)

    def run(self, fr, b, st, stop):
        """execute from block b until `stop` (exclusive). Returns state or None (diverged)."""
        fn = fr.fn
        cfg = fr.cfg
        self.cur_fn_label, self.cur_fn_path = fn.label, fn.path
        while b != stop:
            self.budget -= 1
            if self.budget < 0:
                raise Unsupported("evaluation budget exhausted (path explosion)")
            if b in cfg.loops() and (fr.id, b) not in self.active_loops:
                st, b = self.summarize_loop(fr, st, b)
                continue
            blk = fn.block_by_id[b]
            self.visited.add((fn.path, b))
            for si_, s in enumerate(blk["stmts"]):
                k = s["k"]
                if k == "assign":
                    self.cur_site = (fn, b, s["span"], si_)
                    v = self.rvalue(fr, st, s["rv"])
                    self.write_place(fr, st, s["place"], v)
                elif k == "set_discriminant":
                    raise Unsupported("set_discriminant")
                elif k == "intrinsic":
                    continue
                else:
                    raise Unsupported("statement " + k)
            t = blk["term"]
            k = t["k"]
            if k == "goto":
                b = t["target"]
            elif k == "return":
                st.returned = True
                return st
            elif k in ("unreachable", "resume", "terminate"):
                return None
            elif k == "drop":
                b = t["target"]
            elif k == "assert":
                m = t["msg"]
                st.asserts = st.asserts + ((fn.label, m["kind"], t["span"]["line"]),)
                ops = {}
                for key in ("len", "index", "a", "b"):
                    if key in m and isinstance(m[key], dict):
                        try:
                            ops[key] = self.operand(fr, st, m[key])
                        except Unsupported:
                            ops[key] = ("unknown",)
                try:
                    ops["cond"] = self.operand(fr, st, t["cond"])
                    ops["expected"] = t["expected"]
                except Unsupported:
                    pass
                oty_ = None
                for key in ("a", "b", "index"):
                    o_ = m.get(key)
                    if isinstance(o_, dict):
                        oty_ = (o_.get("place") or {}).get("ty") or (o_.get("c") or {}).get("ty") or oty_
                        if oty_:
                            break
                self.sites.append({"fn": fn.label, "path": fn.path, "block": b, "what": "assert", "kind": m["kind"], "op": m.get("op"), "ty": oty_,
                                   "operands": ops, "facts": dict(st.facts), "span": t["span"], "root_depth": self.depth})
                b = t["target"]
            elif k == "call":
                self.call(fr, st, t)
                self.cur_fn_label, self.cur_fn_path = fn.label, fn.path
                if t["target"] is None:
                    return None
                b = t["target"]
            elif k == "switch":
                d = self.operand(fr, st, t["discr"])
                d = simp(d, st.facts)
                values = [int(v) for v, _ in t["targets"]]
                if t["discr_ty"] == "bool" and not (is_const(d) or d[0] in ("gamma",)):
                    # a boolean term: make it usable as a condition
                    conds = [(mk_not(d) if v == 0 else d, tgt) for (v, tgt) in ((int(x), y) for x, y in t["targets"])]
                    oth = d if values == [0] else (mk_not(d) if values == [1] else None)
                    edges = conds + [(oth, t["otherwise"])]
                else:
                    edges = [(self.cond_for(d, int(v), values), tgt) for v, tgt in t["targets"]]
                    edges.append((self.cond_for(d, None, values), t["otherwise"]))
                feas = []
                for c, tgt in edges:
                    if c is None:
                        continue
                    ev = eval_lit(c, st.facts) if c[0] != "gamma" else None
                    if ev is False:
                        continue
                    if cfg.diverges(tgt):
                        # an edge into code that can only panic (assert! / debug_assert! / unreachable!): recorded so that C12 can
                        # show the branch infeasible from the invariants; the value computation continues on the other edges
                        self.sites.append({"fn": fn.label, "path": fn.path, "block": b, "what": "diverge-edge", "kind": "panic-branch", "operands": {"cond": c},
                                           "facts": dict(st.facts), "span": t["span"], "target": tgt, "root_depth": self.depth})
                        # the region behind the edge never returns: whatever it does is not part of any value (C12 decides whether the
                        # edge can be taken); for the coverage premise it counts as looked at
                        work_, seen_ = [tgt], set()
                        while work_:
                            x_ = work_.pop()
                            if x_ in seen_ or x_ not in fn.block_by_id:
                                continue
                            seen_.add(x_)
                            self.visited.add((fn.path, x_))
                            work_.extend(y_ for y_ in fn.succs(fn.block_by_id[x_]) if cfg.diverges(y_))
                        continue
                    feas.append((c, tgt, ev))
                if not feas:
                    return None
                sure = [x for x in feas if x[2] is True]
                if sure:
                    b = sure[0][1]
                    continue
                if len(feas) == 1:
                    self.add_fact(st, feas[0][0], True)
                    b = feas[0][1]
                    continue
                j = cfg.ipdom.get(b, Cfg.EXIT)
                outs = []
                for c, tgt, _ in feas:
                    s2 = st.fork()
                    self.add_fact(s2, c, True)
                    r = self.run(fr, tgt, s2, j)
                    outs.append((c, r))
                st = self.merge(st, outs)
                if st is None:
                    return None
                if getattr(st, "returned", False) or j == Cfg.EXIT:
                    return st
                b = j
            else:
                raise Unsupported("terminator " + k)
        return st

    def merge(self, base, outs):
        """outs: [(cond, state|None)] for mutually exclusive, exhaustive edges"""
        live = [(c, s) for c, s in outs if s is not None]
        if not live:
            return None
        if len(live) == 1:
            return live[0][1]
        # fold from the last: gamma(c1, s1, gamma(c2, s2, s3))
        acc_c, acc = live[-1]
        for c, s in reversed(live[:-1]):
            acc = self.merge2(c, s, acc)
        return acc

    def merge2(self, c, s1, s2):
        out = State()
        keys = set(s1.store.m) | set(s2.store.m)
        # drop ancestors of other keys (work at leaf granularity)
        leafs = [k for k in keys if not any(len(o) > len(k) and o[:len(k)] == k for o in keys)]
        for k in leafs:
            root = k[0]
            try:
                v1 = self._try_read(s1, k)
                v2 = self._try_read(s2, k)
            except Unsupported:
                if not isinstance(root, str):
                    continue
                raise
            if v1 is None or v2 is None:
                if isinstance(root, str):
                    v1 = v1 if v1 is not None else ("pre", pstr(k))
                    v2 = v2 if v2 is not None else ("pre", pstr(k))
                else:
                    continue  # local defined on one side only: dead after the join
            out.store.m[k] = mk_gamma(c, v1, v2)
        out.facts = {a: p for a, p in s1.facts.items() if s2.facts.get(a) == p}
        if s1.steps == s2.steps:
            out.steps = s1.steps
        else:
            out.steps = (("gsteps", c, s1.steps, s2.steps),)
        longer, shorter = (s1.asserts, s2.asserts) if len(s1.asserts) >= len(s2.asserts) else (s2.asserts, s1.asserts)
        out.asserts = longer + tuple(a_ for a_ in shorter if a_ not in longer)  # union: an assert on the shorter branch is not lost
        out.reads = s1.reads | s2.reads
        out.returned = getattr(s1, "returned", False) and getattr(s2, "returned", False)
        if getattr(s1, "returned", False) != getattr(s2, "returned", False):
            raise Unsupported("one branch returns while the other reaches the join")
        return out

    def _try_read(self, s, k):
        m = s.store.m
        if k in m:
            return m[k]
        for j in range(len(k) - 1, 0, -1):
            if k[:j] in m:
                return self.project(m[k[:j]], k[j:], s)
        return None

    # ---------- calls ----------
    def call(self, fr, st, t):
        callee = t["callee"]
        args = [self.operand(fr, st, a) for a in t["args"]]
        cls, fam = callees.classify(callee, self.F.d["crate"])
        name = callees.callee_name(callee)
        res = None
        if cls == "local":
            g = self.F.resolve_callee(callee, getattr(self, "subst_stack", [None])[-1] if getattr(self, "subst_stack", None) else None)
            if g is None:
                raise Unsupported("local callee without MIR: " + name)
            recv = args[0][1] if args and isinstance(args[0], tuple) and args[0][0] == "ref" and isinstance(args[0][1][0], str) else None
            how = self.policy.decide(g, recv, self.depth)
            if how == "inline":
                # type parameters of g as instantiated at this call site (the method's own parameters are the last type arguments)
                gp = [p_["name"] for p_ in (g.d.get("generics") or {}).get("params", []) if p_.get("kind") == "Type"]
                ta = callee.get("targs") or []
                cur = (getattr(self, "subst_stack", None) or [None])[-1] or {}
                sub_ = {}
                for nm_, ty_ in zip(gp[::-1], ta[::-1]):
                    if ty_.get("k") == "param" and ty_.get("name") in cur:
                        ty_ = cur[ty_["name"]]
                    sub_[nm_] = ty_
                if not hasattr(self, "subst_stack"):
                    self.subst_stack = []
                self.subst_stack.append(sub_)
                try:
                    res = self.inline(st, g, args)
                finally:
                    self.subst_stack.pop()
            elif how == "step":
                n = sum(1 for s in self.flat_steps(st.steps) if s[1] == pstr(recv))
                node = ("step", pstr(recv), g.label, tuple(args[1:]), n)
                # (a store to the component as a whole counts too, unless it is the post-state of an earlier step of the same component;
                # gammas of such post-states arise from conditional steps)
                def own_post(v_):
                    if isinstance(v_, tuple) and v_ and v_[0] == "post" and isinstance(v_[1], tuple) and v_[1][1] == pstr(recv):
                        return True
                    if isinstance(v_, tuple) and v_ and v_[0] == "gamma":
                        return all(own_post(x_) or x_ == ("pre", pstr(recv)) for x_ in v_[2:4])
                    return False
                foreign = [k_ for k_, v_ in st.store.m.items() if k_[:len(recv)] == recv and (len(k_) > len(recv) or not own_post(v_))]
                if foreign:
                    raise Unsupported("the state of component `%s` is written directly (%s) before it is stepped: only its own methods may change it" % (pstr(recv), pstr(foreign[0])))
                st.steps = st.steps + (node,)
                st.store.write(recv, ("post", node, ()))
                res = ("ret", node)
            elif how == "too-deep":
                raise Unsupported("call chain deeper than the inlining bound (%d) at %s: the callee's effects are not followed" % (self.policy.inline_depth, name))
            else:
                # the callee is judged on its own under the invariants that hold between calls; here it runs in the middle of one: its
                # receiver may carry pending writes to bookkeeping fields (`self.index += 1; self.spread(); self.index = wrap`)
                if recv is not None:
                    for k_, v_ in st.store.m.items():
                        if k_[:len(recv)] == recv and len(k_) > len(recv) and not (isinstance(v_, tuple) and v_ and v_[0] in ("store", "fill")):
                            raise Unsupported("the summarised method %s is called on a receiver whose field `%s` was modified earlier in this call: its own analysis assumes the state between calls" % (name, pstr(k_)))
                # an uninterpreted crate callee (a loopy `&self` scan): nothing through which it could write may be handed to it —
                # looked for in the argument VALUES (a sub-slice, an iterator, an Option holding the borrow), as for std callees
                for i_, a in enumerate(args):
                    ty_ = self._arg_ty(t, i_)
                    if ("&mut" in ty_ or "Mut<" in ty_ or "*mut" in ty_) and (self._borrows_state(st, a) or (isinstance(a, tuple) and a and a[0] == "ref")):
                        raise Unsupported("uninterpreted local call with &mut argument: " + name)
                    inner_ = self.deref_val(st, a) if isinstance(a, tuple) and a and a[0] == "ref" and not isinstance(a[1][0], str) else a
                    if any(isinstance(x_, tuple) and x_ and x_[0] in ("closure", "fn") for x_ in ([inner_] + list(subterms_safe(inner_)))):
                        raise Unsupported("a closure / function is passed to an uninterpreted crate callee (%s): its effects are unknown" % name)
                # the call reads the state behind its borrows as it is *now*: two calls around a store are different values
                snap = []
                for pre_ in self._borrowed_roots(st, args):
                    snap.append(tuple(sorted(((pstr(k_), v_) for k_, v_ in st.store.m.items() if k_[:len(pre_)] == pre_), key=repr)))
                argv = []
                for a in args:
                    if isinstance(a, tuple) and a and a[0] == "ref" and not isinstance(a[1][0], str):
                        try:
                            argv.append(("ref_to", self.deref_val(st, a)))   # a local receiver: its value now, not its address
                            continue
                        except Unsupported:
                            pass
                    argv.append(a)
                res = ("ucall", g.label, tuple(argv), len(st.steps)) + ((("at", tuple(snap)),) if any(snap) else ())
        elif cls == "user":
            res = ("get", callee["name"], args[0])
        else:
            res = self.std_call(st, callee, name, args, t)
        self.write_place(fr, st, t["dest"], res)

    @staticmethod
    def int_arith(sym, a, b):
        """integer + - *: `n + usize::from(c)` — an integer combined with a choice between two constants is the choice between the
        two results; x + 0, x - 0, x * 1 are x (integers only: -0.0 + 0.0 is +0.0)"""
        def ifold(sy_, l_, r_):
            if sy_ in ("+", "-") and r_ == cu(0):
                return l_
            if sy_ == "+" and l_ == cu(0):
                return r_
            if sy_ == "*" and r_ == cu(1):
                return l_
            if sy_ == "*" and l_ == cu(1):
                return r_
            return fold(sy_, l_, r_)
        for x_, y_, left_ in ((a, b, False), (b, a, True)):
            if isinstance(y_, tuple) and y_ and y_[0] == "gamma" and is_const(y_[2]) and is_const(y_[3]) and y_[2][1] == "int" and y_[3][1] == "int" \
                    and not (isinstance(x_, tuple) and x_ and x_[0] == "gamma"):
                if left_:
                    return mk_gamma(y_[1], ifold(sym, y_[2], x_), ifold(sym, y_[3], x_))
                return mk_gamma(y_[1], ifold(sym, x_, y_[2]), ifold(sym, x_, y_[3]))
        return fold(sym, a, b)

    def _is_mut_ref(self, t, i):
        o = t["args"][i]
        if o["k"] in ("copy", "move"):
            return o["place"]["ty"].startswith("&mut")
        return False

    @staticmethod
    def flat_steps(steps):
        for s in steps:
            if s[0] == "gsteps":
                yield from Exec.flat_steps(s[2])
                yield from Exec.flat_steps(s[3])
            else:
                yield s

    def inline(self, st, g, args):
        fr = Frame(g)
        for i, a in enumerate(args):
            st.store.write((("L", fr.id, i + 1),), a)
        self.depth += 1
        try:
            out = self.run(fr, fr.cfg.entry, st, None)
        finally:
            self.depth -= 1
        if out is None:
            return BOT
        # `run` may have replaced the state object at merges: copy back
        if out is not st:
            st.store = out.store
            st.facts = out.facts
            st.steps = out.steps
            st.asserts = out.asserts
            st.reads = out.reads
        st.returned = False
        ret = self.read_path(st, (("L", fr.id, 0),))
        for k in [k for k in st.store.m if not isinstance(k[0], str) and k[0][1] == fr.id]:
            del st.store.m[k]
        return ret

    # ---------- Option combinators and closures ----------
    def option_cases(self, x, on_some, on_none):
        """case split on an Option-valued term"""
        def leaf(v):
            if isinstance(v, tuple) and v[0] == "adt" and v[2][1] == "Some":
                return on_some(v[3][0][1])
            if isinstance(v, tuple) and v[0] == "adt" and v[2][1] == "None":
                return on_none()
            payload = self.project(v, ("@Some", "0"), None)
            return mk_gamma(("==", cu(0), ("discr", v)), on_none(), on_some(payload))
        return map_leaves(x, leaf)

    def cases_st(self, st, cases):
        """cases: [(cond term or None, thunk(state) -> value)] — mutually exclusive and exhaustive.  Each thunk runs on a fork of
        `st` under its condition (closures may write to state); values and store changes are merged with gammas."""
        live = []
        for c, thunk in cases:
            ev = None if c is None else (eval_lit(c, st.facts) if isinstance(c, tuple) and c[0] != "gamma" else None)
            if ev is False:
                continue
            s2 = st.fork()
            if c is not None and ev is None:
                self.add_fact(s2, c, True)
            live.append((c, thunk(s2), s2))
            if s2.steps != st.steps and ev is not True and c is not None:
                raise Unsupported("a component is stepped inside a conditionally executed closure")
            if ev is True or c is None:
                break
        if not live:
            return BOT
        val = live[-1][1]
        for c, v, _ in reversed(live[:-1]):
            val = mk_gamma(c, v, val)
        keys = set()
        for _, _, s2 in live:
            for k, v in s2.store.m.items():
                # state, and captured locals of the enclosing frames (anything that existed before the closure ran)
                if st.store.m.get(k) != v and (isinstance(k[0], str) or self._try_read(st, k) is not None):
                    keys.add(k)
        for k in keys:
            def cur(s_):
                r_ = self._try_read(s_, k)
                return r_ if r_ is not None else ("pre", pstr(k))
            nv = cur(live[-1][2])
            for c, _, s2 in reversed(live[:-1]):
                nv = mk_gamma(c, cur(s2), nv)
            st.store.write(k, nv)
        st.asserts = live[-1][2].asserts
        return val

    def option_cases_st(self, st, x, on_some, on_none):
        """like option_cases, but the handlers take a state and may write to it (closures capturing `self`)"""
        cases = []
        for conds, leaf in leaves(x):
            pc = None
            for a_, pol_ in conds:
                lit_ = a_ if pol_ else mk_not(a_)
                pc = lit_ if pc is None else self.mk_and(pc, lit_)

            def conj(extra):
                if extra is None:
                    return pc
                return extra if pc is None else self.mk_and(pc, extra)
            if isinstance(leaf, tuple) and leaf[0] == "adt" and leaf[2][1] == "Some":
                cases.append((conj(None), lambda s_, leaf=leaf: on_some(s_, leaf[3][0][1])))
            elif isinstance(leaf, tuple) and leaf[0] == "adt" and leaf[2][1] == "None":
                cases.append((conj(None), lambda s_: on_none(s_)))
            else:
                isnone = ("==", cu(0), ("discr", leaf))
                payload = self.project(leaf, ("@Some", "0"), None)
                cases.append((conj(isnone), lambda s_: on_none(s_)))
                cases.append((conj(mk_not(isnone)), lambda s_, payload=payload: on_some(s_, payload)))
        return self.cases_st(st, cases)  # exhaustive: the last live case serves as the default arm of the merge

    def call_closure(self, st, clo, call_args):
        if not (isinstance(clo, tuple) and clo[0] == "closure"):
            raise Unsupported("call of a non-closure value")
        g = self.F.fn_by_path.get(clo[1])
        if g is None:
            raise Unsupported("closure body not found: %s" % clo[1])
        env = ("adt", "closure", (0, ""), tuple((str(i), v) for i, v in enumerate(clo[2])), False)
        first = env
        if g.locals[1]["ty"].get("k") == "ref":
            self.nclo = getattr(self, "nclo", 0) + 1
            root = ("L", -self.nclo, 0)
            st.store.write((root,), env)
            first = ("ref", (root,), None)
        return self.inline(st, g, [first] + list(call_args))

    def option_combinator(self, st, which, args, t):
        some = lambda v: ("adt", "std::option::Option", (1, "Some"), (("0", v),), True)
        none = ("adt", "std::option::Option", (0, "None"), (), True)
        if which in ("replace", "take", "get_or_insert"):
            a0 = args[0]
            if not (isinstance(a0, tuple) and a0[0] == "ref" and a0[2] is None):
                return None
            old = self.read_path(st, a0[1])
            if which == "replace":
                st.store.write(a0[1], some(args[1]))
                return old
            if which == "take":
                st.store.write(a0[1], none)
                return old
            if which == "get_or_insert":
                st.store.write(a0[1], self.option_cases(old, lambda v: some(v), lambda: some(args[1])))
                return ("ref", a0[1] + ("@Some", "0"), None)
            return None
        x = args[0]
        if which == "unwrap_or":
            return self.option_cases(x, lambda v: v, lambda: args[1])
        if which == "unwrap_or_default":
            return self.option_cases(x, lambda v: v, lambda: cf(0.0))
        def fcall(state, f, a):
            """apply a closure or a function item"""
            if isinstance(f, tuple) and f[0] == "fn":
                g = self.F.fn_by_path.get(f[1])
                if g is not None:
                    return self.inline(state, g, list(a))
                return self.std_call(state, {"path": f[1], "path_args": f[1]}, f[1], list(a), t)
            return self.call_closure(state, f, list(a))
        if which == "unwrap_or_else":
            return self.option_cases_st(st, x, lambda s_, v: v, lambda s_: fcall(s_, args[1], []))
        if which == "map_or":
            return self.option_cases_st(st, x, lambda s_, v: fcall(s_, args[2], [v]), lambda s_: args[1])
        if which == "map_or_else":
            return self.option_cases_st(st, x, lambda s_, v: fcall(s_, args[2], [v]), lambda s_: fcall(s_, args[1], []))
        if which == "map":
            return self.option_cases_st(st, x, lambda s_, v: some(fcall(s_, args[1], [v])), lambda s_: none)
        if which == "and_then":
            return self.option_cases_st(st, x, lambda s_, v: fcall(s_, args[1], [v]), lambda s_: none)
        if which == "filter":
            def keep(s_, v):
                r_ = self.nclo = getattr(self, "nclo", 0) + 1
                root = ("L", -self.nclo, 0)
                s_.store.write((root,), v)
                c_ = fcall(s_, args[1], [("ref", (root,), None)])
                return mk_gamma(c_, some(v), none) if not is_const(c_) else (some(v) if c_[2] else none)
            return self.option_cases_st(st, x, keep, lambda s_: none)
        if which in ("ok_or", "ok_or_else"):
            ok = lambda v: ("adt", "std::result::Result", (0, "Ok"), (("0", v),), True)
            err = lambda e: ("adt", "std::result::Result", (1, "Err"), (("0", e),), True)
            if which == "ok_or":
                return self.option_cases(x, ok, lambda: err(args[1]))
            return self.option_cases_st(st, x, lambda s_, v: ok(v), lambda s_: err(fcall(s_, args[1], [])))
        if which == "is_some_and":
            return self.option_cases_st(st, x, lambda s_, v: fcall(s_, args[1], [v]), lambda s_: FALSE)
        return None

    def std_call(self, st, callee, name, args, t):
        n = callees.strip_turbofish(name)
        dv = [self.deref_val(st, a) for a in args]
        m_op = re.search(r"<&?f64 as (?:std|core)::ops::(Add|Sub|Mul|Div)(?:<&?f64>)?>::(add|sub|mul|div)$", callees.strip_turbofish(n))
        if m_op and len(args) == 2:
            # the operator traits called by name (`Div::div(a, b)`, `a / &b`): the same arithmetic, the same division site
            a_, b_ = (self.deref_val(st, x_) if isinstance(x_, tuple) and x_ and x_[0] == "ref" else x_ for x_ in args)
            if m_op.group(1) == "Div":
                fn_, blk_, span_, si_ = self.cur_site
                if fn_ is not None:
                    self.sites.append({"fn": fn_.label, "path": fn_.path, "block": blk_, "stmt": si_, "what": "fdiv", "kind": "Div", "operands": {"num": a_, "den": b_},
                                       "facts": dict(st.facts), "span": t["span"], "root_depth": self.depth})
            return fold({"Add": "+", "Sub": "-", "Mul": "*", "Div": "/"}[m_op.group(1)], a_, b_)
        if re.search(r"<impl f64>::recip$", n) and len(args) == 1:
            fn_, blk_, span_, si_ = self.cur_site if self.cur_site[0] is not None else (None, None, t["span"], None)
            if fn_ is not None:
                self.sites.append({"fn": fn_.label, "path": fn_.path, "block": blk_, "stmt": si_, "what": "fdiv", "kind": "Div", "operands": {"num": cf(1.0), "den": args[0]},
                                   "facts": dict(st.facts), "span": t["span"], "root_depth": self.depth})
            return fold("/", cf(1.0), args[0])
        if re.search(r"<impl f64>::abs$", n):
            return ("abs", dv[0])
        if re.search(r"<impl f64>::max$", n):
            return ("max",) + tuple(sorted([dv[0], dv[1]], key=repr))
        if re.search(r"<impl f64>::min$", n):
            return ("min",) + tuple(sorted([dv[0], dv[1]], key=repr))
        if re.search(r"<impl f64>::sqrt$", n):
            self.sites.append({"fn": self.cur_fn_label, "path": self.cur_fn_path, "block": None, "what": "sqrt", "kind": "sqrt", "operands": {"arg": dv[0]},
                               "facts": dict(st.facts), "span": t["span"], "root_depth": self.depth})
            return ("sqrt", dv[0])
        if re.search(r"<impl f64>::is_sign_positive$", n):
            return ("sgnpos", dv[0])
        if re.search(r"<impl f64>::is_sign_negative$", n):
            return mk_not(("sgnpos", dv[0]))
        if re.search(r"<impl f64>::is_nan$", n):
            if is_const(dv[0]):
                import math
                return TRUE if math.isnan(dv[0][2]) else FALSE
            return ("isnan", dv[0])
        if re.search(r"<impl f64>::is_finite$", n):
            if is_const(dv[0]):
                import math
                return TRUE if math.isfinite(dv[0][2]) else FALSE
            return ("isfinite", dv[0])
        if re.search(r"<impl f64>::is_infinite$", n):
            if is_const(dv[0]):
                import math
                return TRUE if math.isinf(dv[0][2]) else FALSE
            return ("isinf", dv[0])
        if re.search(r"<impl f64>::mul_add$", n):
            return fold("+", fold("*", dv[0], dv[1]), dv[2])
        if re.search(r"<impl f64>::powi$", n) and is_const(dv[1]) and 0 <= dv[1][2] <= 4:
            r = cf(1.0)
            for _ in range(dv[1][2]):
                r = fold("*", r, dv[0])
            return r
        m = re.search(r"<&?f64 as (?:std|core)::ops::(Add|Sub|Mul|Div|Neg)(?:<&?f64>)?>::\w+$", n)
        if m:
            if m.group(1) == "Neg":
                return ("neg", dv[0])
            return fold(BINOPS[m.group(1)], dv[0], dv[1])
        m = re.search(r"cmp::Ord(?:>)?::(min|max)$|cmp::(min|max)$|<impl (?:usize|u\d+|i\d+|isize)>::(min|max)$|cmp::impls::<impl (?:std|core)::cmp::Ord for (?:usize|u\d+|i\d+|isize)>::(min|max)$", n)
        if m and len(dv) == 2:
            which = [g for g in m.groups() if g][0]
            if is_const(dv[0]) and is_const(dv[1]):
                return dv[0] if ((dv[0][2] <= dv[1][2]) == (which == "min")) else dv[1]
            return (which,) + tuple(sorted([dv[0], dv[1]], key=repr))
        if re.search(r"cmp::PartialOrd(?:<.*>)?(?:>)?::partial_cmp$|cmp::impls::<impl (?:std|core)::cmp::PartialOrd for f64>::partial_cmp$", n) and len(dv) == 2:
            # Option<Ordering>; Ordering's discriminants are -1 (255 as u8 in SwitchInt), 0, 1
            ordv = lambda d, nm: ("adt", "std::cmp::Ordering", (d, nm), (), True)
            some = lambda v: ("adt", "std::option::Option", (1, "Some"), (("0", v),), True)
            none = ("adt", "std::option::Option", (0, "None"), (), True)
            a, b = dv
            return mk_gamma(fold("<", a, b), some(ordv(255, "Less")), mk_gamma(fold("==", a, b), some(ordv(0, "Equal")), mk_gamma(fold("<", b, a), some(ordv(1, "Greater")), none)))
        m = re.search(r"cmp::(?:PartialOrd|PartialEq)(?:<.*>)?(?:>)?::(lt|le|gt|ge|eq|ne)$", n)
        if m and len(dv) == 2:
            return fold({"lt": "<", "le": "<=", "gt": ">", "ge": ">=", "eq": "==", "ne": "!="}[m.group(1)], dv[0], dv[1])
        if re.search(r"ops::Try>::branch$", n):
            def br(x):
                if x[0] == "adt" and x[2][1] == "Ok":
                    return ("adt", "ControlFlow", (0, "Continue"), (("0", x[3][0][1]),), True)
                if x[0] == "adt" and x[2][1] == "Err":
                    return ("adt", "ControlFlow", (1, "Break"), (("0", ("adt", "Result", (1, "Err"), (("0", x[3][0][1]),), True)),), True)
                if x[0] == "adt" and x[2][1] == "Some":
                    return ("adt", "ControlFlow", (0, "Continue"), (("0", x[3][0][1]),), True)
                if x[0] == "adt" and x[2][1] == "None":
                    return ("adt", "ControlFlow", (1, "Break"), (("0", ("adt", "Option", (0, "None"), (), True)),), True)
                return ("try_branch", x)
            return map_leaves(args[0], br)
        if re.search(r"ops::FromResidual<.*>>::from_residual$", n):
            def fr_(x):
                if x[0] == "adt" and x[2][1] in ("Err", "None"):
                    return x
                return ("from_residual", x)
            return map_leaves(args[0], fr_)
        m = re.search(r"Option(?:::<.*>)?::(replace|take|unwrap_or|unwrap_or_default|unwrap_or_else|map_or|map_or_else|map|and_then|filter|is_some_and|get_or_insert|ok_or|ok_or_else)$", n)
        if m:
            r_ = self.option_combinator(st, m.group(1), args, t)
            if r_ is not None:
                return r_
        m = re.search(r"(Result|Option)::<.*>::(unwrap|expect)$", n)
        if m:
            def uw(x):
                if x[0] == "adt" and x[2][1] in ("Ok", "Some"):
                    return x[3][0][1]
                if x[0] == "adt" and x[2][1] in ("Err", "None"):
                    return ("panic", "unwrap")
                return ("unwrap", x)
            return map_leaves(args[0], uw)
        if re.search(r"Option::<.*>::is_some$", n):
            return map_leaves(dv[0], lambda x: (TRUE if x[2][1] == "Some" else FALSE) if x[0] == "adt" else ("is_some", x))
        if re.search(r"Option::<.*>::is_none$", n):
            return map_leaves(dv[0], lambda x: (FALSE if x[2][1] == "Some" else TRUE) if x[0] == "adt" else mk_not(("is_some", x)))
        if re.search(r"<impl \[[^\]]*\]>::fill$", n) and isinstance(args[0], tuple) and args[0][0] == "ref" and args[0][2] is None:
            old = self.read_path(st, args[0][1])
            st.store.write(args[0][1], ("fill", old, cu(0), self.length(old), args[1]))
            return UNIT
        if re.search(r"<impl \[[^\]]*\]>::fill$", n) and isinstance(args[0], tuple) and args[0][0] == "sliceiter" and isinstance(args[0][1], tuple):
            # `buf[a..b].fill(v)`: the range was recorded as a slice-index site (C12 discharges b <= len there); the store covers [a, b) only
            old = self.read_path(st, args[0][1])
            st.store.write(args[0][1], ("fill", old, args[0][2], args[0][3], args[1]))
            return UNIT
        if re.search(r"slice::index::<impl (std|core)::ops::Index(Mut)?<.*> for \[[^\]]*\]>::index(_mut)?$|<\[[^\]]*\] as (std|core)::ops::Index(Mut)?<.*>>::index(_mut)?$", callees.strip_turbofish(n)):
            base = args[0]
            rng = args[1]
            if isinstance(base, tuple) and base[0] == "ref" and base[2] is None and isinstance(rng, tuple) and rng[0] == "adt":
                d = dict(rng[3])
                arr = self.read_path(st, base[1])
                ln = self.length(arr)
                start = d.get("start", cu(0))
                end = d.get("end", ln)
                kind = str(rng[1]).split("::")[-1]
                if kind in ("Range", "RangeTo", "RangeFrom", "RangeFull"):
                    self.sites.append({"fn": self.cur_fn_label, "path": self.cur_fn_path, "block": None, "what": "slice-index", "kind": kind,
                                       "operands": {"start": start, "end": end, "len": ln, "array": base[1]}, "facts": dict(st.facts), "span": t["span"], "root_depth": self.depth})
                    return ("sliceiter", base[1], start, end)
            raise Unsupported("slice index with unrecognised operands: " + n)
        if re.search(r"<impl \[[^\]]*\]>::iter$", callees.strip_turbofish(n)) and isinstance(args[0], tuple) and args[0][0] == "sliceiter":
            return args[0]
        if re.search(r"iter::Iterator>::(copied|cloned)$|iter::Iterator::(copied|cloned)$", callees.strip_turbofish(n)) and isinstance(args[0], tuple) and args[0][0] in ("sliceiter", "enumerate"):
            return ("copied", args[0])
        if re.search(r"<impl \[[^\]]*\]>::iter$", callees.strip_turbofish(n)) and isinstance(args[0], tuple) and args[0][0] == "ref" and args[0][2] is None:
            arr = self.read_path(st, args[0][1])
            return ("sliceiter", args[0][1], cu(0), self.length(arr))
        if re.search(r"iter::Iterator>::enumerate$|iter::Iterator::enumerate$", callees.strip_turbofish(n)):
            return ("enumerate", args[0])
        nn = callees.strip_turbofish(n)
        if re.search(r"<impl \[[^\]]*\]>::split_at(_mut)?$", nn) and len(args) == 2 and isinstance(args[0], tuple):
            base = args[0]
            if base[0] == "ref" and base[2] is None:
                arr_ = self.read_path(st, base[1])
                base = ("sliceiter", base[1], cu(0), self.length(arr_))
            if base[0] == "sliceiter":
                mid = fold("+", base[2], args[1]) if base[2] != cu(0) else args[1]
                ln_ = self.length(self.read_path(st, base[1]))
                # mid <= len of the slice being split: recorded like a range index (start..mid within the slice)
                self.sites.append({"fn": self.cur_fn_label, "path": self.cur_fn_path, "block": None, "what": "slice-index", "kind": "RangeTo",
                                   "operands": {"start": base[2], "end": mid, "len": ln_, "array": base[1], "upper": base[3]}, "facts": dict(st.facts), "span": t["span"], "root_depth": self.depth})
                return ("adt", "tuple", (0, ""), (("0", ("sliceiter", base[1], base[2], mid)), ("1", ("sliceiter", base[1], mid, base[3]))), False)
            raise Unsupported("split_at on something that is not a recognised slice: " + show(base)[:60])
        if re.search(r"<impl \[[^\]]*\]>::len$", nn) and isinstance(args[0], tuple) and args[0][0] == "sliceiter":
            a_ = args[0]
            return fold("-", a_[3], a_[2]) if a_[2] != cu(0) else a_[3]
        if re.search(r"<impl \[[^\]]*\]>::len$", nn) and isinstance(args[0], tuple) and args[0][0] == "ref" and args[0][2] is None:
            return self.length(self.read_path(st, args[0][1]))
        if re.search(r"<impl \[[^\]]*\]>::iter_mut$", nn) and isinstance(args[0], tuple) and args[0][0] == "ref" and args[0][2] is None:
            arr = self.read_path(st, args[0][1])
            return ("sliceiter", args[0][1], cu(0), self.length(arr))
        if re.search(r"<impl \[[^\]]*\]>::iter_mut$", nn) and isinstance(args[0], tuple) and args[0][0] == "sliceiter":
            return args[0]
        if re.search(r"iter::Iterator>::chain$|iter::Iterator::chain$", nn) and len(args) == 2:
            second = args[1]
            if isinstance(second, tuple) and second[0] == "ref" and second[2] is None:
                inner = self.deref_val(st, second) if not isinstance(second[1][0], str) else None
                if isinstance(inner, tuple) and inner[0] in ("sliceiter", "enumerate", "copied", "chain", "mapiter"):
                    second = inner
                else:
                    second = ("sliceiter", second[1], cu(0), self.length(self.read_path(st, second[1])))
            return ("chain", args[0], second)
        if re.search(r"iter::Iterator>::map$|iter::Iterator::map$", nn) and len(args) == 2 and isinstance(args[1], tuple) and args[1][0] == "closure":
            return ("mapiter", args[0], args[1])
        if re.search(r"iter::Iterator>::fold$|iter::Iterator::fold$", nn) and len(args) == 3:
            clo = args[2]
            if isinstance(clo, tuple) and clo[0] == "fn":
                fpath = clo[1]
                clo = lambda state, acc, item: self.std_call(state, {"path": fpath, "path_args": fpath}, fpath, [acc, item], t)
            return self.iter_fold(st, args[0], args[1], clo, self.cur_fn_label)
        if re.search(r"iter::Iterator>::sum$|iter::Iterator::sum$|iter::traits::accum::Sum.*>::sum$", nn) and len(args) == 1:
            return self.iter_fold(st, args[0], cf(0.0), lambda state, acc, item: fold("+", acc, self.deref_val(state, item)), self.cur_fn_label)
        if re.search(r"iter::Iterator>::for_each$|iter::Iterator::for_each$", nn) and len(args) == 2 and isinstance(args[1], tuple) and args[1][0] in ("closure", "ref"):
            return self.iter_for_each(st, args[0], args[1])
        if re.search(r"IntoIterator.*::into_iter$", callees.strip_turbofish(n)):
            a0 = args[0]
            if isinstance(a0, tuple) and a0[0] == "ref" and a0[2] is None and not isinstance(a0[1][0], str):
                inner = self.deref_val(st, a0)
                if isinstance(inner, tuple) and inner[0] in ("sliceiter", "enumerate"):
                    return inner
            if isinstance(a0, tuple) and a0[0] == "ref" and a0[2] is None and isinstance(a0[1][0], str):
                arr = self.read_path(st, a0[1])
                return ("sliceiter", a0[1], cu(0), self.length(arr))
            return a0
        m = re.search(r"fmt::rt::Argument::<.*>::new_(\w+)", n)
        if m:
            return ("fmtarg", m.group(1), dv[0])
        if re.search(r"vec::from_elem\b", n):
            return ("fromelem", args[0], args[1])
        if re.search(r"into_boxed_slice$", n):
            return args[0]
        if re.search(r"clone::Clone>::clone$|clone::impls::.*::clone$|Clone::clone$", n):
            return dv[0]
        if re.search(r"convert::(From|Into)<.*>>::(from|into)$", n) and len(args) == 1:
            return ("conv", name, args[0])
        if re.search(r"default::Default", n) and not args:
            return ("default", name)
        if re.search(r"ops::(function::)?(Fn|FnMut|FnOnce)(<.*>)?>?::call(_mut|_once)?$", n) and len(args) == 2:
            clo = self.deref_val(st, args[0])
            tup = args[1]
            if isinstance(clo, tuple) and clo[0] in ("closure", "fn") and isinstance(tup, tuple) and ((tup[0] == "adt" and tup[1] == "tuple") or tup == UNIT):
                cargs = [v for _, v in tup[3]] if tup != UNIT else []
                if clo[0] == "fn":
                    g_ = self.F.fn_by_path.get(clo[1])
                    return self.inline(st, g_, cargs) if g_ is not None else self.std_call(st, {"path": clo[1], "path_args": clo[1]}, clo[1], cargs, t)
                return self.call_closure(st, clo, cargs)
        if re.search(r"<impl (std|core)::convert::From<bool> for (usize|u8|u16|u32|u64|i8|i16|i32|i64|isize)>::from$", callees.strip_turbofish(n)) and len(args) == 1:
            b_ = args[0]
            if b_ in (TRUE, FALSE):
                return cu(1) if b_ == TRUE else cu(0)
            if isinstance(b_, tuple) and b_ and (b_[0] in CMP or b_[0] in ("not", "gamma")):
                return map_leaves(b_, lambda x: cu(1) if x == TRUE else (cu(0) if x == FALSE else mk_gamma(x, cu(1), cu(0)))) if b_[0] == "gamma" else mk_gamma(b_, cu(1), cu(0))
        if re.search(r"num::(nonzero::)?NonZero(::<.*>)?::new$", n) and len(args) == 1:
            v = dv[0]
            if is_const(v):
                return ("adt", "std::option::Option", (0, "None"), (), True) if v[2] == 0 else ("adt", "std::option::Option", (1, "Some"), (("0", ("nonzero", v)),), True)
            return mk_gamma(("==", v, cu(0)), ("adt", "std::option::Option", (0, "None"), (), True), ("adt", "std::option::Option", (1, "Some"), (("0", ("nonzero", v)),), True))
        if re.search(r"num::(nonzero::)?NonZero(::<.*>)?::get$", n) and len(args) == 1:
            return map_leaves(dv[0], lambda x: x[1] if isinstance(x, tuple) and x[0] == "nonzero" else ("ucall", n, (x,), 0))
        if re.search(r"<impl bool>::then(_some)?$", n) and len(args) == 2:
            some = lambda v: ("adt", "std::option::Option", (1, "Some"), (("0", v),), True)
            none = ("adt", "std::option::Option", (0, "None"), (), True)
            c = dv[0]
            if n.endswith("then_some"):
                return mk_gamma(c, some(args[1]), none)
            ev = eval_lit(c, st.facts) if isinstance(c, tuple) and c[0] != "gamma" else None
            if ev is False:
                return none
            s2 = st if ev is True else st.fork()
            if ev is not True:
                self.add_fact(s2, c, True)
            v = self.call_closure(s2, args[1], [])
            if ev is not True and s2.steps != st.steps:
                raise Unsupported("a component is stepped inside a conditionally executed closure")
            if ev is not True:
                for k_, v_ in list(s2.store.m.items()):
                    if st.store.m.get(k_) != v_ and (isinstance(k_[0], str) or self._try_read(st, k_) is not None):
                        old_ = self._try_read(st, k_)
                        st.store.write(k_, mk_gamma(c, v_, old_ if old_ is not None else ("pre", pstr(k_))))
                st.asserts = s2.asserts
            return some(v) if ev is True else mk_gamma(c, some(v), none)
        m = re.search(r"mem::(replace|swap|take)$", n)
        if m and args and all(isinstance(a, tuple) and a[0] == "ref" for a in args[:2 if m.group(1) == "swap" else 1]):
            which = m.group(1)
            old = self.deref_val(st, args[0])
            if which == "replace":
                self.write_ref(st, args[0], args[1])
                return old
            if which == "swap":
                other = self.deref_val(st, args[1])
                self.write_ref(st, args[0], other)
                self.write_ref(st, args[1], old)
                return UNIT
            dflt = self.default_of(callee)
            if dflt is not None:
                self.write_ref(st, args[0], dflt)
                return old
        # ---- unmodelled std callee: fail closed on anything through which it could change the evaluated state ----
        # ... or run crate code the evaluator does not see: a std function instantiated at a crate type (a crate `Iterator` inside
        # `chain(..).last()`, a crate `PartialOrd` inside `max`) calls back into that type's impls
        def crate_ty(ty_):
            if not isinstance(ty_, dict):
                return False
            if ty_.get("krate") == self.F.d["crate"] and ty_.get("k") in ("adt", "closure", "fndef"):
                return True
            return any(crate_ty(x_) for x_ in (ty_.get("args") or [])) or any(crate_ty(ty_.get(k_)) for k_ in ("to", "elem")) or any(crate_ty(x_) for x_ in (ty_.get("elems") or []))
        if callees.classify(callee, self.F.d["crate"])[0] != "serde" and (any(crate_ty(x_) for x_ in (callee.get("targs") or [])) or crate_ty(callee.get("self_ty"))):
            # (the serde runtime calls back into the *derived* impls of the component types, which are analysed as functions of their own)
            raise Unsupported("std callee %s is instantiated at a type of this crate: it may call back into crate code the evaluation does not follow" % name)
        for i, a in enumerate(args):
            ty_ = self._arg_ty(t, i)
            v_ = a
            if isinstance(a, tuple) and a[0] == "ref" and not isinstance(a[1][0], str) and ty_.startswith("&mut "):
                # a `&mut` to a local: the local itself is havocked below; what matters is what can be reached *through* it
                ty_ = ty_[5:]
                try:
                    v_ = self.deref_val(st, a)
                except Unsupported:
                    raise Unsupported("std call with &mut to an unreadable local: " + name)
            if ("&mut" in ty_ or "Mut<" in ty_ or "*mut" in ty_) and self._borrows_state(st, v_):
                raise Unsupported("std call with &mut to state: " + name)
        for a in args:
            inner = self.deref_val(st, a) if isinstance(a, tuple) and a[0] == "ref" and not isinstance(a[1][0], str) else a
            if any(isinstance(x_, tuple) and x_ and x_[0] in ("closure", "fn") for x_ in ([inner] + subterms_safe(inner))):
                raise Unsupported("a closure / function is passed to an unmodelled callee (%s), possibly inside an adaptor: its effects are unknown" % name)
        snap = []
        at = []
        for a in args:
            if isinstance(a, tuple) and a[0] == "ref" and not isinstance(a[1][0], str):
                try:
                    snap.append(("ref_to", self.deref_val(st, a)))  # locals die with the frame: keep the value
                    continue
                except Unsupported:
                    pass
            snap.append(a)
        # the call reads the state behind its (shared) borrows as it is *now*: two calls around a store are different values
        for pre_ in self._borrowed_roots(st, args):
            at.append(tuple(sorted(((pstr(k_), v_) for k_, v_ in st.store.m.items() if k_[:len(pre_)] == pre_), key=repr)))
        res = ("ucall", n, tuple(snap), 0) + ((("at", tuple(at)),) if any(at) else ())
        # a `&mut` to a local: the callee may have changed the local (`v.reverse()`, `it.next()`): its value is unknown afterwards
        for i, a in enumerate(args):
            if isinstance(a, tuple) and a[0] == "ref" and not isinstance(a[1][0], str) and self._is_mut_ref(t, i):
                self.write_ref(st, a, ("ucall", n + "#out%d" % i, tuple(snap), 0) + ((("at", tuple(at)),) if any(at) else ()))
        return res

    def _arg_ty(self, t, i):
        o = t["args"][i]
        return o["place"]["ty"] if o["k"] in ("copy", "move") else ""

    def _walk_borrows(self, st, v, out, depth=0, mut_only=False):
        """paths into named roots (state / parameters) that the value borrows, following references to locals"""
        if not isinstance(v, tuple) or not v or depth > 12:
            return
        if mut_only and v[0] == "ucall":
            return  # an opaque result never holds a mutable borrow of state: handing one to an unmodelled callee fails closed
        if v[0] in ("ref", "boxref", "sliceiter") and len(v) > 1 and isinstance(v[1], tuple) and v[1]:
            if isinstance(v[1][0], str):
                if v[1][0] not in self.sink_roots:
                    out.append(v[1])
                return
            if v[0] == "ref":
                try:
                    self._walk_borrows(st, self.deref_val(st, v), out, depth + 1, mut_only)
                except Unsupported:
                    out.append(("?",))
                return
        for x in v[1:]:
            if isinstance(x, tuple):
                self._walk_borrows(st, x, out, depth + 1, mut_only)

    def _borrows_state(self, st, v):
        out = []
        self._walk_borrows(st, v, out, 0, True)
        return bool(out)

    def _borrowed_roots(self, st, args):
        out = []
        for a in args:
            self._walk_borrows(st, a, out)
        seen = []
        for p_ in out:
            if p_ not in seen and p_ != ("?",):
                seen.append(p_)
        return seen


def short_path(p):
    return p.split("::")[-1]


def fn_params(fn):
    """names for the formal parameters from debug info"""
    names = {}
    for d in fn.mir["debug"]:
        if d.get("arg") and d.get("place") and not d["place"]["proj"]:
            names[d["place"]["local"]] = d["name"]
    return names


def evaluate(F, fn, policy=None, arg_terms=None, self_root="self", canon=False):
    """Symbolically evaluate `fn` from a symbolic pre-state.
    Returns dict(ret=term, heap={path: term}, steps=..., asserts=..., reads=set)"""
    ex = Exec(F, policy)
    fr = Frame(fn)
    st = State()
    names = fn_params(fn)
    if canon:
        # positional names: self, a0, a1, ... (independent of what the author called them)
        k = 0
        cn = {}
        for i in range(1, fn.arg_count + 1):
            if names.get(i) == "self":
                cn[i] = "self"
            else:
                cn[i] = "a%d" % k
                k += 1
        names = cn
    for i in range(1, fn.arg_count + 1):
        ty = fn.locals[i]["ty"]
        nm = names.get(i, "a%d" % i)
        if arg_terms and i - 1 < len(arg_terms) and arg_terms[i - 1] is not None:
            v = arg_terms[i - 1]
        elif ty.get("k") == "ref":
            to_ = ty.get("to") or {}
            is_recv = nm == "self" or (fn.self_struct is not None and i == 1 and to_.get("k") == "adt" and short_path(to_.get("path", "")) == fn.self_struct
                                         and "self" not in names.values())
            root = self_root if is_recv else nm   # (`fn seek_end(sma: &mut Self)`: the receiver by another name)
            v = ("ref", (root,), None)
            to = ty.get("to") or {}
            if to.get("k") == "adt" and to.get("krate") != F.d["crate"]:
                ex.sink_roots.add(root)  # a foreign sink (fmt::Formatter, ...): not part of the evaluated state
        elif ty.get("k") == "adt" and ty.get("krate") == F.d["crate"]:
            # by-value struct parameter (builder methods take `mut self`): a named root
            fr.param_roots[i] = self_root if nm == "self" else nm
            continue
        else:
            v = ("arg", nm)
        st.store.write((("L", fr.id, i),), v)
    out = ex.run(fr, fr.cfg.entry, st, None)
    if out is None:
        raise Unsupported("function never returns")
    ret = ex.read_path(out, (("L", fr.id, 0),)) if (("L", fr.id, 0),) in out.store.m or out.store.has_descendants((("L", fr.id, 0),)) else UNIT
    # a store to a whole named root (`*self = Self { .. }`, `mem::swap(self, ..)`): consumers ask for `self.<field>`, so the value is
    # taken apart field by field; an opaque replacement value is not accepted
    for k in [k for k in out.store.m if isinstance(k[0], str) and len(k) == 1 and k[0] not in ex.sink_roots]:
        v = out.store.m[k]
        if isinstance(v, tuple) and v and v[0] in ("ref", "post"):
            continue  # (`post`: the whole receiver was stepped through one of its own methods — a delegation)
        flds = F.struct_fields(fn.self_struct) if (k[0] == self_root and fn.self_struct) else None
        if not flds:
            raise Unsupported("the whole of `%s` is replaced by %s" % (k[0], show(v)[:60]))
        parts = {}
        for fd in flds:
            parts[fd["name"]] = ex.read_path(out, k + (fd["name"],))
        del out.store.m[k]
        for nm_, pv_ in parts.items():
            out.store.m[k + (nm_,)] = pv_
    heap = {pstr(k): v for k, v in out.store.m.items() if isinstance(k[0], str)}
    if canon and fn.self_struct is not None and not getattr(F, "_in_typestate", False):
        import typestate
        try:
            F._in_typestate = True
            known = fn.self_struct in typestate.all_structs(F)[0]
        finally:
            F._in_typestate = False
        if known:
            ret = typestate.canon_state(F, fn.self_struct, ret)
            heap = {k: typestate.canon_state(F, fn.self_struct, v) for k, v in heap.items()}
    return {"ret": ret, "heap": heap, "steps": out.steps, "asserts": out.asserts, "reads": out.reads, "state": out, "exec": ex, "frame": fr}
