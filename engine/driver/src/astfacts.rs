//! Facts from the expanded AST (before lowering): format_args! nodes, struct
//! fields with their attributes (inert helper attributes such as #[serde(..)]
//! are still visible here), unsafe blocks/fns/impls, statics and consts.

use crate::json::J;
use rustc_ast::visit::{self, AssocCtxt, FnKind, Visitor};
use rustc_ast::{self as ast, ItemKind};
use rustc_ast_pretty::pprust;
use rustc_middle::ty::TyCtxt;
use rustc_span::Span;

pub fn span_j(tcx: TyCtxt<'_>, sp: Span) -> J {
    let sm = tcx.sess.source_map();
    let lo = sm.lookup_char_pos(sp.lo());
    let hi = sm.lookup_char_pos(sp.hi());
    let file = match &lo.file.name {
        rustc_span::FileName::Real(r) => r
            .local_path()
            .map(|p| p.display().to_string())
            .unwrap_or_else(|| format!("{:?}", lo.file.name)),
        other => format!("{:?}", other),
    };
    let mut v = vec![
        ("file", J::Str(file)),
        ("line", J::Int(lo.line as i128)),
        ("col", J::Int(lo.col.0 as i128 + 1)),
        ("end_line", J::Int(hi.line as i128)),
        ("exp", J::Bool(sp.from_expansion())),
    ];
    if sp.from_expansion() {
        let outer = sp.ctxt().outer_expn_data();
        if let rustc_span::ExpnKind::Macro(kind, name) = outer.kind {
            v.push(("exp_kind", J::Str(format!("{:?}", kind))));
            v.push(("exp_macro", J::Str(name.to_string())));
            v.push((
                "exp_local",
                J::Bool(outer.macro_def_id.map(|d| d.is_local()).unwrap_or(false)),
            ));
        } else {
            v.push(("exp_kind", J::Str(format!("{:?}", outer.kind))));
        }
    }
    J::obj(v)
}

struct V<'tcx> {
    tcx: TyCtxt<'tcx>,
    ctx: Vec<String>,
    impl_ctx: Vec<(String, Option<String>)>,
    structs: Vec<J>,
    impls: Vec<J>,
    fns: Vec<J>,
    unsafe_blocks: Vec<J>,
    statics: Vec<J>,
    consts: Vec<J>,
    fmt: Vec<J>,
    other: Vec<J>,
}

fn attrs_j(attrs: &[ast::Attribute]) -> J {
    J::Arr(
        attrs
            .iter()
            .filter(|a| !a.is_doc_comment())
            .map(|a| J::Str(pprust::attribute_to_string(a)))
            .collect(),
    )
}

impl<'tcx> V<'tcx> {
    fn here(&self) -> J {
        let (s, t) = match self.impl_ctx.last() {
            Some((s, t)) => (J::Str(s.clone()), J::opt_s(t.clone())),
            None => (J::Null, J::Null),
        };
        J::obj(vec![
            ("path", J::Arr(self.ctx.iter().map(|s| J::Str(s.clone())).collect())),
            ("impl_self", s),
            ("impl_trait", t),
        ])
    }

    fn variant_fields(&self, vd: &ast::VariantData) -> J {
        J::Arr(
            vd.fields()
                .iter()
                .enumerate()
                .map(|(i, f)| {
                    J::obj(vec![
                        (
                            "name",
                            J::Str(f.ident.map(|i| i.to_string()).unwrap_or_else(|| i.to_string())),
                        ),
                        ("ty", J::Str(pprust::ty_to_string(&f.ty))),
                        ("attrs", attrs_j(&f.attrs)),
                        ("span", span_j(self.tcx, f.span)),
                    ])
                })
                .collect(),
        )
    }
}

impl<'ast, 'tcx> Visitor<'ast> for V<'tcx> {
    fn visit_item(&mut self, item: &'ast ast::Item) {
        let tcx = self.tcx;
        match &item.kind {
            ItemKind::Struct(ident, _, vd) | ItemKind::Union(ident, _, vd) => {
                self.structs.push(J::obj(vec![
                    ("name", J::Str(ident.to_string())),
                    ("kind", J::s(if matches!(item.kind, ItemKind::Union(..)) { "union" } else { "struct" })),
                    ("attrs", attrs_j(&item.attrs)),
                    ("fields", self.variant_fields(vd)),
                    ("ctx", self.here()),
                    ("span", span_j(tcx, item.span)),
                ]));
                self.ctx.push(ident.to_string());
                visit::walk_item(self, item);
                self.ctx.pop();
            }
            ItemKind::Enum(ident, _, ed) => {
                let variants = J::Arr(
                    ed.variants
                        .iter()
                        .map(|v| {
                            J::obj(vec![
                                ("name", J::Str(v.ident.to_string())),
                                ("attrs", attrs_j(&v.attrs)),
                                ("fields", self.variant_fields(&v.data)),
                            ])
                        })
                        .collect(),
                );
                self.structs.push(J::obj(vec![
                    ("name", J::Str(ident.to_string())),
                    ("kind", J::s("enum")),
                    ("attrs", attrs_j(&item.attrs)),
                    ("variants", variants),
                    ("ctx", self.here()),
                    ("span", span_j(tcx, item.span)),
                ]));
                self.ctx.push(ident.to_string());
                visit::walk_item(self, item);
                self.ctx.pop();
            }
            ItemKind::Impl(imp) => {
                let self_ty = pprust::ty_to_string(&imp.self_ty);
                let (tr, uns) = match &imp.of_trait {
                    Some(h) => (
                        Some(pprust::path_to_string(&h.trait_ref.path)),
                        matches!(h.safety, ast::Safety::Unsafe(_)),
                    ),
                    None => (None, false),
                };
                self.impls.push(J::obj(vec![
                    ("self_ty", J::Str(self_ty.clone())),
                    ("trait", J::opt_s(tr.clone())),
                    ("unsafe", J::Bool(uns)),
                    ("attrs", attrs_j(&item.attrs)),
                    ("span", span_j(tcx, item.span)),
                ]));
                self.impl_ctx.push((self_ty.clone(), tr.clone()));
                self.ctx.push(format!("<impl {} for {}>", tr.unwrap_or_default(), self_ty));
                visit::walk_item(self, item);
                self.ctx.pop();
                self.impl_ctx.pop();
            }
            ItemKind::Static(st) => {
                self.statics.push(J::obj(vec![
                    ("name", J::Str(st.ident.to_string())),
                    ("ty", J::Str(pprust::ty_to_string(&st.ty))),
                    ("mut", J::Bool(matches!(st.mutability, ast::Mutability::Mut))),
                    ("attrs", attrs_j(&item.attrs)),
                    ("ctx", self.here()),
                    ("span", span_j(tcx, item.span)),
                ]));
                self.ctx.push(st.ident.to_string());
                visit::walk_item(self, item);
                self.ctx.pop();
            }
            ItemKind::Const(ci) => {
                self.consts.push(J::obj(vec![
                    ("name", J::Str(ci.ident.to_string())),
                    ("ty", J::Str(pprust::ty_to_string(&ci.ty))),
                    ("attrs", attrs_j(&item.attrs)),
                    ("ctx", self.here()),
                    ("span", span_j(tcx, item.span)),
                ]));
                self.ctx.push(ci.ident.to_string());
                visit::walk_item(self, item);
                self.ctx.pop();
            }
            ItemKind::Mod(_, ident, _) => {
                self.ctx.push(ident.to_string());
                visit::walk_item(self, item);
                self.ctx.pop();
            }
            ItemKind::Fn(f) => {
                self.ctx.push(f.ident.to_string());
                visit::walk_item(self, item);
                self.ctx.pop();
            }
            ItemKind::ForeignMod(_) | ItemKind::GlobalAsm(_) | ItemKind::ExternCrate(..) | ItemKind::MacCall(_) => {
                let kind = match &item.kind {
                    ItemKind::ForeignMod(_) => "foreign_mod",
                    ItemKind::GlobalAsm(_) => "global_asm",
                    ItemKind::ExternCrate(..) => "extern_crate",
                    _ => "mac_call",
                };
                self.other.push(J::obj(vec![
                    ("kind", J::s(kind)),
                    ("text", J::Str(pprust::item_to_string(item).chars().take(200).collect::<String>())),
                    ("span", span_j(tcx, item.span)),
                ]));
                visit::walk_item(self, item);
            }
            _ => visit::walk_item(self, item),
        }
    }

    fn visit_assoc_item(&mut self, item: &'ast ast::AssocItem, ctxt: AssocCtxt) {
        let name = match &item.kind {
            ast::AssocItemKind::Fn(f) => f.ident.to_string(),
            ast::AssocItemKind::Const(c) => {
                self.consts.push(J::obj(vec![
                    ("name", J::Str(c.ident.to_string())),
                    ("ty", J::Str(pprust::ty_to_string(&c.ty))),
                    ("attrs", attrs_j(&item.attrs)),
                    ("ctx", self.here()),
                    ("span", span_j(self.tcx, item.span)),
                ]));
                c.ident.to_string()
            }
            ast::AssocItemKind::Type(t) => t.ident.to_string(),
            _ => "?".to_string(),
        };
        self.ctx.push(name);
        visit::walk_assoc_item(self, item, ctxt);
        self.ctx.pop();
    }

    fn visit_fn(&mut self, fk: FnKind<'ast>, attrs: &ast::AttrVec, sp: Span, _: ast::NodeId) {
        if let FnKind::Fn(_, _, f) = &fk {
            self.fns.push(J::obj(vec![
                ("name", J::Str(f.ident.to_string())),
                ("unsafe", J::Bool(matches!(f.sig.header.safety, ast::Safety::Unsafe(_)))),
                ("ext", J::Bool(!matches!(f.sig.header.ext, ast::Extern::None))),
                ("attrs", attrs_j(attrs)),
                ("ctx", self.here()),
                ("span", span_j(self.tcx, sp)),
            ]));
        }
        visit::walk_fn(self, fk);
    }

    fn visit_block(&mut self, b: &'ast ast::Block) {
        if let ast::BlockCheckMode::Unsafe(src) = b.rules {
            self.unsafe_blocks.push(J::obj(vec![
                ("user", J::Bool(matches!(src, ast::UnsafeSource::UserProvided))),
                ("ctx", self.here()),
                ("span", span_j(self.tcx, b.span)),
            ]));
        }
        visit::walk_block(self, b);
    }

    fn visit_expr(&mut self, e: &'ast ast::Expr) {
        if let ast::ExprKind::FormatArgs(fa) = &e.kind {
            let pieces = J::Arr(
                fa.template
                    .iter()
                    .map(|p| match p {
                        ast::FormatArgsPiece::Literal(s) => J::obj(vec![("lit", J::Str(s.to_string()))]),
                        ast::FormatArgsPiece::Placeholder(ph) => {
                            let o = &ph.format_options;
                            let plain = o.width.is_none()
                                && o.precision.is_none()
                                && o.alignment.is_none()
                                && o.fill.is_none()
                                && o.sign.is_none()
                                && !o.alternate
                                && !o.zero_pad
                                && o.debug_hex.is_none();
                            J::obj(vec![
                                (
                                    "arg",
                                    match ph.argument.index {
                                        Ok(i) => J::Int(i as i128),
                                        Err(_) => J::Null,
                                    },
                                ),
                                ("trait", J::Str(format!("{:?}", ph.format_trait))),
                                ("plain", J::Bool(plain)),
                                ("opts", J::Str(format!("{:?}", o))),
                            ])
                        }
                    })
                    .collect(),
            );
            let args = J::Arr(
                fa.arguments
                    .all_args()
                    .iter()
                    .map(|a| J::Str(pprust::expr_to_string(&a.expr)))
                    .collect(),
            );
            self.fmt.push(J::obj(vec![
                ("ctx", self.here()),
                ("pieces", pieces),
                ("args", args),
                ("span", span_j(self.tcx, e.span)),
            ]));
        }
        if let ast::ExprKind::InlineAsm(_) = &e.kind {
            self.other.push(J::obj(vec![("kind", J::s("inline_asm")), ("span", span_j(self.tcx, e.span))]));
        }
        if let ast::ExprKind::MacCall(m) = &e.kind {
            self.other.push(J::obj(vec![
                ("kind", J::s("mac_call")),
                ("text", J::Str(pprust::path_to_string(&m.path))),
                ("span", span_j(self.tcx, e.span)),
            ]));
        }
        visit::walk_expr(self, e);
    }
}

pub fn collect(tcx: TyCtxt<'_>) -> J {
    let resolver = tcx.resolver_for_lowering().borrow();
    let krate: &ast::Crate = &resolver.1;
    let mut v = V {
        tcx,
        ctx: vec![],
        impl_ctx: vec![],
        structs: vec![],
        impls: vec![],
        fns: vec![],
        unsafe_blocks: vec![],
        statics: vec![],
        consts: vec![],
        fmt: vec![],
        other: vec![],
    };
    visit::walk_crate(&mut v, krate);
    J::obj(vec![
        ("crate_attrs", attrs_j(&krate.attrs)),
        ("structs", J::Arr(v.structs)),
        ("impls", J::Arr(v.impls)),
        ("fns", J::Arr(v.fns)),
        ("unsafe_blocks", J::Arr(v.unsafe_blocks)),
        ("statics", J::Arr(v.statics)),
        ("consts", J::Arr(v.consts)),
        ("fmt", J::Arr(v.fmt)),
        ("other", J::Arr(v.other)),
    ])
}
