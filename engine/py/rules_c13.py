"""C13 — incremental accumulators do not drift from recomputation over long streams (partial; DESIGN §4 C13).
Decided: (A) Minimum/Maximum stay exact: outputs are selections of stored inputs and the cached-extreme invariant is inductive;
(B) the variance never becomes negative or NaN: the clamp dominates the sqrt; (C) SMA and MAD stay within tau(t): hypotheses of a
worst-case forward-error lemma are checked on the accumulator update; (D) for WMA, SD/BB, CCI, MFI only necessary conditions:
every accumulator equals its window functional in exact arithmetic (no systematic drift) and nothing narrows or quantises a value.
NOT decided: the magnitude of accumulated rounding error for clause (D)."""
import re

import callees
import callgraph
import invariants
import ir
import rules_c01
import rules_c09
import symex
import typestate
from infra import BAD_FIXTURE, Report, Sink, loc
from rules_spec import run_units
from terms import cf, cu, is_const, leaves, show, subterms

ANCHORS = ["SimpleMovingAverage", "WeightedMovingAverage", "StandardDeviation", "BollingerBands", "MeanAbsoluteDeviation",
           "CommodityChannelIndex", "MoneyFlowIndex", "Minimum", "Maximum"]
K_MAX = 8
QUANTISING = re.compile(r"<impl f(64|32)>::(round|round_ties_even|floor|ceil|trunc|fract|to_bits|from_bits|to_int_unchecked|to_[bln]e_bytes|from_[bln]e_bytes|rem_euclid|div_euclid|to_degrees|to_radians)$"
                        r"|<impl f32>::|f32::")
NARROW_TY = re.compile(r"\bf(16|32)\b")


class MapSink(Sink):
    """forwards the findings of another property's rule code under one rule id of this report"""

    def __init__(self, report, rid, only=None):
        Sink.__init__(self, report)
        self.rid = rid
        self.only = only

    def ok(self, rule, instance, **facts):
        if self.only is None or rule in self.only:
            Sink.ok(self, self.rid, instance, **facts)

    def bad(self, rule, slug, symbol, msg, where=None, **facts):
        if self.only is None or rule in self.only:
            Sink.bad(self, self.rid, slug, symbol, msg, where, **facts)


def x1_selection(F, S):
    for struct in ("Minimum", "Maximum"):
        fn = F.method(struct, "next", trait="Next", next_input="f64")
        if fn is None:
            S.bad("X1", "anchor", struct, "%s::next(f64) not found" % struct)
            continue
        try:
            r = symex.evaluate(F, fn, canon=True)
        except symex.Unsupported as e:
            S.bad("X1", "unrecognised", fn.label, "UNRECOGNISED idiom: %s" % e, loc(fn.span))
            continue
        ts = typestate.all_structs(F)[0][struct]
        bufs = {"self." + b for b in ts.buffers}
        bad = None
        for conds, leaf in leaves(r["ret"]):
            if leaf == ("arg", "a0"):
                continue
            if isinstance(leaf, tuple) and leaf[0] == "select":
                a = leaf[1]
                while isinstance(a, tuple) and a[0] == "store":
                    if a[3] != ("arg", "a0"):
                        bad = "the window stores %s, not the raw input" % show(a[3])[:60]
                    a = a[1]
                if isinstance(a, tuple) and a[0] == "pre" and a[1] in bufs:
                    continue
            bad = bad or "output leaf %s is not a stored input (arithmetic on the data path)" % show(leaf)[:80]
        if bad:
            S.bad("X1", "not-a-selection", fn.label, "%s: %s — a value that is computed, not copied, can drift" % (fn.label, bad), loc(fn.span))
        else:
            S.ok("X1", "%s returns one of the stored inputs (selection only)" % fn.label, leaves=len(leaves(r["ret"])))
    probe = Sink(None, "C13")
    try:
        rules_c01.extreme_unit(F, probe, "Minimum", "I6")
        from rules_c14 import mirror
        rules_c01.extreme_unit(F, probe, "Maximum", "I7", transform=mirror)
    except (symex.Unsupported, KeyError, IndexError, TypeError, AttributeError) as e:
        probe.bad_keys.append("C13:unrecognised:%r" % (e,))
    if probe.bad_keys:
        S.bad("X1", "extreme-invariant", "Minimum/Maximum", "the cached-extreme invariant (C01-I6/I7) does not hold: %s" % "; ".join(probe.bad_keys)[:300])
    else:
        S.ok("X1", "cached-extreme invariant is inductive (C01-I6/I7): exact for any number of steps")


def running_totals(F, struct, r):
    out = []
    for k, v in r["heap"].items():
        if k.count(".") == 1 and invariants.path_type(F, struct, k) == "f64" and any(x == ("pre", k) for x in subterms(v)) \
                and any(x[0] in ("arg", "get") for x in subterms(v)):
            out.append(k)
    return out


def addsub_tree(t, allowed):
    """(ok, number of +/- nodes, leaves) for a tree of additions/subtractions over `allowed` leaf predicates"""
    if isinstance(t, tuple) and t[0] in ("+", "-") and len(t) == 3:
        a = addsub_tree(t[1], allowed)
        b = addsub_tree(t[2], allowed)
        return a[0] and b[0], a[1] + b[1] + 1, a[2] + b[2]
    return allowed(t), 0, [t]


def x3_lemma(F, S, c01_bad):
    tss, classes = typestate.all_structs(F)
    for struct, inv_rule in (("SimpleMovingAverage", "I1"), ("MeanAbsoluteDeviation", "I4")):
        fn = F.method(struct, "next", trait="Next", next_input="f64")
        if fn is None:
            S.bad("X3", "anchor", struct, "%s::next(f64) not found" % struct)
            continue
        if any(struct in k for k in c01_bad):
            S.bad("X3", "lemma-premise", struct, "%s: the exact-arithmetic invariant of its running sum (C01-%s) does not hold, so the error lemma has nothing to start from" % (struct, inv_rule), loc(fn.span))
            continue
        try:
            r = symex.evaluate(F, fn, canon=True)
        except symex.Unsupported as e:
            S.bad("X3", "unrecognised", fn.label, "UNRECOGNISED idiom: %s" % e, loc(fn.span))
            continue
        ts = tss[struct]
        tot = running_totals(F, struct, r)
        if len(tot) != 1 or len(ts.buffers) != 1 or not ts.cursors:
            S.bad("X3", "state-shape", struct, "%s: expected one running sum over one ring (found totals %s, buffers %s)" % (struct, tot, list(ts.buffers)), loc(fn.span))
            continue
        acc = tot[0]
        buf = "self." + list(ts.buffers)[0]
        cursors = {("pre", "self." + c) for c in ts.cursors}

        def allowed(l):
            if l == ("pre", acc) or l == ("arg", "a0"):
                return True
            if is_const(l) and l[2] == 0.0:
                return True
            return isinstance(l, tuple) and l[0] == "select" and l[1] == ("pre", buf) and l[2] in cursors
        kmax = 0
        bad = None
        for conds, leaf in leaves(r["heap"][acc]):
            ok, k, ls = addsub_tree(leaf, allowed)
            if not ok:
                bad = "update arm %s is not an add/sub tree over {sum, input, evicted slot}" % show(leaf)[:100]
                break
            if sum(1 for l in ls if l == ("pre", acc)) > 1 or sum(1 for l in ls if l == ("arg", "a0")) > 1:
                bad = "update arm %s uses the sum or the input more than once" % show(leaf)[:100]
                break
            kmax = max(kmax, k)
        if bad is None and kmax > K_MAX:
            bad = "%d additions/subtractions per update (the inequality is shown for K <= %d)" % (kmax, K_MAX)
        # output shape
        ret = r["ret"]
        post = r["heap"][acc]
        cnt_ok = isinstance(ret, tuple) and ret[0] == "/" and isinstance(ret[2], tuple) and ret[2][0] == "i2f"
        if bad is None and not cnt_ok:
            bad = "output %s is not a quotient by the element count" % show(ret)[:100]
        if bad is None:
            num = ret[1]
            if struct == "SimpleMovingAverage":
                if num != post:
                    bad = "numerator %s is not the running sum" % show(num)[:100]
            else:
                lay = num
                n = 0
                while isinstance(lay, tuple) and lay[0] == "accum":
                    inc = lay[2]
                    if not (isinstance(inc, tuple) and inc[0] == "abs" and isinstance(inc[1], tuple) and inc[1][0] == "-"
                            and any(isinstance(x, tuple) and x[0] == "/" and x[1] == post and isinstance(x[2], tuple) and x[2][0] == "i2f" for x in inc[1][1:])
                            and any(isinstance(x, tuple) and x[0] == "select" for x in inc[1][1:])):
                        bad = "deviation term %s is not |slot - sum/count|" % show(inc)[:100]
                    lay = lay[1]
                    n += 1
                if bad is None and not (n >= 1 and lay == cf(0.0)):
                    bad = "numerator %s is not a fresh sum (from 0) of absolute deviations over the window" % show(num)[:100]
        if bad:
            S.bad("X3", "lemma-hypothesis", struct, "%s: %s — the forward-error bound (2K*t + c)*u*M <= tau(t)*M cannot be instantiated" % (fn.label, bad), loc(fn.span))
        else:
            S.ok("X3", "%s: K = %d roundings per update of `%s`; |error| <= (2K*t + %s)*2^-53*M <= tau(t)*M" % (struct, kmax, acc.split(".", 1)[1], "1" if struct == "SimpleMovingAverage" else "2n+3, n <= 1000"),
                 K=kmax, accumulator=acc)


def x5_precision(F, S, anchors=ANCHORS, prop="C13"):
    roots = [f for s in anchors for f in F.fns_of(s) if not f.derived and (f.trait_short in ("Next", "Reset") or f.name == "new")]
    chains = callgraph.reach(F, roots)
    n_fns = 0
    for p in sorted(chains):
        f = F.fn_by_path[p]
        if f.derived:
            continue
        n_fns += 1
        bad = False
        for l in f.locals:
            if NARROW_TY.search(l["ty"]["s"]):
                S.bad("X5", "narrow-float-local", f.label, "%s has a local of type %s: a narrower float on the data path (2^-24 relative error per step)" % (f.label, l["ty"]["s"]), loc(f.span))
                bad = True
                break
        for b in f.blocks:
            for st in b["stmts"]:
                if st["k"] == "assign" and st["rv"]["k"] == "cast":
                    kind = st["rv"]["kind"]
                    if kind in ("FloatToFloat", "FloatToInt"):
                        S.bad("X5", "lossy-cast", "%s:%s->%s" % (f.label, st["rv"].get("from_ty"), st["rv"]["ty"]["s"]),
                              "%s casts %s to %s (%s): the value is narrowed or quantised" % (f.label, st["rv"].get("from_ty"), st["rv"]["ty"]["s"], kind), loc(st["span"]))
                        bad = True
                    elif kind == "IntToFloat" and not re.match(r"u(size|8|16|32|64)$", st["rv"].get("from_ty", "")):
                        S.bad("X5", "signed-int-to-float", f.label, "%s converts %s to a float: integer-typed data on the value path" % (f.label, st["rv"].get("from_ty")), loc(st["span"]))
                        bad = True
        for b, t in f.calls():
            name = callees.strip_all_turbofish(callees.callee_name(t["callee"]) or "")
            if QUANTISING.search(name):
                S.bad("X5", "quantising-callee", "%s->%s" % (f.label, name), "%s calls %s: quantises or re-interprets a value on the data path" % (f.label, name), loc(t["span"]))
                bad = True
        if not bad:
            S.ok("X5", "%s: f64 only, no narrowing cast, no quantising call" % f.label)
    tss, classes = typestate.all_structs(F)
    for s in anchors:
        ts = tss.get(s)
        if ts is None:
            if prop == "C13":
                S.bad("X5", "anchor", s, "indicator %s not found" % s)
            continue
        for fd in F.struct_fields(s):
            ty, n = fd["ty"]["s"], fd["name"]
            cl = classes[s].get(n)
            if NARROW_TY.search(ty):
                S.bad("X5", "narrow-float-field", "%s.%s" % (s, n), "%s.%s has type %s" % (s, n, ty))
            elif cl == "STATE" and re.match(r"[iu](size|8|16|32|64|128)$", ty) and n not in ts.cursors and n not in ts.counters:
                S.bad("X5", "integer-accumulator", "%s.%s" % (s, n), "%s.%s (%s) is integer state that is neither a cursor nor a counter (%s): a fixed-point accumulator quantises the data"
                      % (s, n, ty, ts.unclassified.get(n, "not usize")))
            else:
                S.ok("X5", "%s.%s : %s (%s)" % (s, n, ty, cl))
    return n_fns


def run(tier, repo=None, tag="repo"):
    rep = Report("C13", tier)
    rep.rule("X1", "Minimum/Maximum: the output is a selection of stored raw inputs (no arithmetic on the data path) and the cached-extreme invariant (C01-I6/I7) is inductive", 3)
    rep.rule("X2", "StandardDeviation / BollingerBands: the sqrt operand is clamped non-negative on every path (variance never negative or NaN, absent overflow)", 2)
    rep.rule("X3", "SimpleMovingAverage / MeanAbsoluteDeviation: hypotheses of the forward-error lemma (K add/sub per update over {sum, input, evicted slot}; output = sum / count resp. fresh sum of |slot - mean| / count)", 2)
    rep.rule("X4", "every accumulator equals its window functional in exact arithmetic at every step (C01 invariants for SMA/WMA/SD/MAD/BB; C03 step specifications for MFI and CCI): drift is rounding only", 10)
    rep.rule("X5", "precision discipline on every function reachable from next/reset/new of the anchored indicators: no FloatToFloat/FloatToInt cast, no narrower float, no integer accumulator, no quantising callee", 20)
    configs = ["default"] + (["release"] if tier == "thorough" else [])
    for cfg in configs:
        F = ir.load(cfg, repo, tag)
        S = Sink(rep)
        x1_selection(F, S)
        m2 = MapSink(rep, "X2")
        rules_c09.nonneg_outputs(F, m2, "N1", "StandardDeviation", "finite", "all finite inputs (no overflow)")
        m4 = MapSink(rep, "X4")
        try:
            rules_c01.apply(F, m4)
        except (symex.Unsupported, KeyError, IndexError, TypeError, AttributeError) as e:
            m4.bad("I0", "unrecognised", "C01-invariants", "UNRECOGNISED idiom while establishing the window invariants: %r" % (e,))
        run_units("C13", ["MoneyFlowIndex", "CommodityChannelIndex"], None, rep, F, lambda kind: "X4")
        x3_lemma(F, S, m4.bad_keys)
        rules_c01.reset_premise(F, rep, "X4", ["SimpleMovingAverage", "WeightedMovingAverage", "StandardDeviation", "BollingerBands", "MeanAbsoluteDeviation", "CommodityChannelIndex", "MoneyFlowIndex", "Minimum", "Maximum"])
        n = x5_precision(F, S)
        rep.functions.update(f.path for s in ANCHORS for f in F.fns_of(s))
    rep.configs = configs
    B = ir.load("default", BAD_FIXTURE, "bad")
    C = Sink(None, "C13")
    x5_precision(B, C, anchors=["BadNarrow"], prop="control")
    rep.control("X5 f32 round trip", C.fired("lossy-cast", "f32") or C.fired("narrow-float-local"))
    rep.control("X5 float -> integer cast", C.fired("lossy-cast", "i64"))
    rep.control("X5 integer accumulator", C.fired("integer-accumulator", "BadNarrow.cents"))
    rep.control("X5 quantising callee", C.fired("quantising-callee", "round"))
    rep.explanation = ("gated symbolic post-terms of every accumulator compared with its window functional (exact rational arithmetic); interval evaluation of the sqrt operand; "
                       "structural check of the hypotheses of a worst-case forward-error lemma for SMA and MAD (DESIGN §4 C13); cast / type / callee discipline over the call graph. "
                       "The size of accumulated rounding error for WMA, sliding Welford, CCI and MFI is NOT decided.")
    rep.assumptions = ["IEEE-754 binary64 round-to-nearest; add/sub exact in the subnormal range; no overflow for the magnitudes bounded by the property (<= 1e9, period <= 1000)",
                       "the reference evaluation is a from-scratch f64 (or better) evaluation of the window",
                       "C01's ring lemma (DESIGN §9.9) for the meaning of the window functionals"]
    return rep
