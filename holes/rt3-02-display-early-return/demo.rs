// C11: Display renders NAME(params) from the constructor arguments, for every valid period.
use ta::indicators::ExponentialMovingAverage;

fn main() {
    let mut bad = 0;
    for p in [1usize, 7, 99, 100, 200, 1_000_000] {
        let e = ExponentialMovingAverage::new(p).unwrap();
        let got = format!("{}", e);
        let want = format!("EMA({})", p);
        if got != want {
            println!("VIOLATION C11: Display of EMA::new({}) is {:?}, documented {:?}", p, got, want);
            bad += 1;
        }
    }
    if bad > 0 {
        std::process::exit(1);
    }
    println!("ok");
}
