// C05: a clone produces bit-identical outputs to the original for every continuation; two instances with the same
// parameters and history return bit-identical outputs (no hidden address-/time-/randomness-dependent state).
use ta::indicators::KeltnerChannel;
use ta::{DataItem, Next};

fn bar(l: f64, c: f64, h: f64) -> DataItem {
    DataItem::builder().open(c).high(h).low(l).close(c).volume(1.0).build().unwrap()
}

fn main() {
    // the original lives on the heap, the bars are heap-allocated after it, the clone lives on the stack
    let mut original: Box<KeltnerChannel> = Box::new(KeltnerChannel::new(3, 2.0).unwrap());
    let bars: Vec<Box<DataItem>> = vec![
        Box::new(bar(0.1, 0.2, 0.3)),
        Box::new(bar(0.7, 1.1, 1.3)),
        Box::new(bar(10.1, 10.2, 10.7)),
        Box::new(bar(3.3, 3.4, 3.9)),
    ];
    let mut clone: KeltnerChannel = (*original).clone();
    let mut bad = 0;
    for b in &bars {
        let a = original.next(&**b);
        let c = clone.next(&**b);
        if a.average.to_bits() != c.average.to_bits() || a.upper.to_bits() != c.upper.to_bits() || a.lower.to_bits() != c.lower.to_bits() {
            println!("VIOLATION C05: original {:?}\n                 clone    {:?}", a, c);
            bad += 1;
        }
    }
    println!("original at {:p}, clone at {:p}, first bar at {:p}", &*original, &clone, &*bars[0]);
    if bad > 0 {
        std::process::exit(1);
    }
    println!("ok: clone and original agree bit for bit");
}
