"""C04 — reset() returns every indicator to a state indistinguishable from a fresh one."""
import fieldclass
import ir
import symex
from infra import BAD_FIXTURE, Report, Sink, loc
from ir import short
from terms import cu, show, simp, subterms, is_const, FALSE



def _nan_canon(t):
    """NaN constants compare unequal to themselves as Python floats; as *terms* two NaN literals are the same initial value (f64::NAN)"""
    if isinstance(t, float) and t != t:
        return "NaN"
    if isinstance(t, tuple):
        return tuple(_nan_canon(x) for x in t)
    return t

def subst_pre(t, mapping, lenmap=None):
    """replace ('pre', 'self.f') of PARAMETER fields by their constructor value, and len(pre(buffer)) by the buffer's
    constructor length. The pre-value of state fields and buffers is never substituted (that would hide an un-reset field)."""
    if not isinstance(t, tuple):
        return t
    if t and t[0] == "pre" and t[1] in mapping:
        return mapping[t[1]]
    if t and t[0] == "len" and lenmap and isinstance(t[1], tuple) and t[1][0] == "pre" and t[1][1] in lenmap:
        return lenmap[t[1][1]]
    return tuple(subst_pre(x, mapping, lenmap) for x in t)


def apply(F, S):
    classes, stores = fieldclass.classify_fields(F)
    n_obl = 0
    for s in F.indicators():
        cls = classes[s]
        c = fieldclass.ctor(F, s)
        rfn = F.method(s, "reset", trait="Reset")
        if c is None or c["ok"] is None or rfn is None:
            S.bad("R0", "anchor", s, "missing constructor or Reset impl for %s" % s)
            continue
        init = c["fields"]
        # R1: parameter fields (initialiser mentions a ctor parameter, not a nested struct / buffer) are never stored to
        for fname, cl in cls.items():
            if cl == "FOREIGN":
                S.bad("R0", "helper-struct-field", "%s.%s" % (s, fname), "field %s.%s holds a crate type that is not an indicator: whether it is a parameter or state (and what reset() must do with it) is not decided here (UNRECOGNISED)" % (s, fname))
        for fname, cl in cls.items():
            t = init.get(fname)
            if cl in ("PARAM", "STATE") and t is not None and fieldclass.mentions_param(t, c["params"]):
                writers = [x for x in stores.get((s, fname), []) if not (x[3] == "new" and x[1] == "whole")]
                if writers:
                    w = writers[0]
                    S.bad("R1", "param-mutated", "%s.%s" % (s, fname), "parameter field %s.%s (initialised from a constructor argument) is written by %s" % (s, fname, w[0]), loc(w[2]))
                else:
                    S.ok("R1", "%s.%s" % (s, fname), init=show(t))
        try:
            r = symex.evaluate(F, rfn)
        except symex.Unsupported as e:
            S.bad("R2", "unrecognised-reset", s, "UNRECOGNISED idiom in %s: %s" % (rfn.label, e), loc(rfn.span))
            continue
        ex, st = r["exec"], r["state"]
        # facts: usize constructor parameters are non-zero on the Ok path
        mapping = {"self." + f: t for f, t in init.items() if cls.get(f) == "PARAM"}
        lenmap = {"self." + f: t[2] for f, t in init.items() if cls.get(f) == "BUFFER" and isinstance(t, tuple) and t[0] == "fromelem"}
        reads_by_reset = set(r["reads"])
        st.facts = dict(st.facts)
        for p, ty in c["params"]:
            if ty == "usize":
                st.facts[("==", cu(0), ("arg", p))] = False
                st.facts[("==", ("arg", p), cu(0))] = False
        steps = list(r["steps"])
        gated = any(x[0] == "gsteps" for x in steps)
        for fname, cl in cls.items():
            key = "%s.%s" % (s, fname)
            if cl == "PARAM":
                # "parameters are unchanged by reset": whatever the store list says, the evaluated reset() must not touch them
                if any(k_ == ("self", fname) or k_[:2] == ("self", fname) for k_ in st.store.m):
                    S.bad("R1", "param-reset", key, "reset() of %s leaves parameter `%s` = %s: parameters are unchanged by reset" % (s, fname, show(ex.read_path(st, ("self", fname)))[:120]), loc(rfn.span))
                continue
            n_obl += 1
            try:
                v = ex.read_path(st, ("self", fname))
            except symex.Unsupported as e:
                S.bad("R2", "unrecognised-reset", key, "cannot read %s after reset: %s" % (key, e), loc(rfn.span))
                continue
            v = simp(subst_pre(v, mapping, lenmap), st.facts)
            want = init.get(fname)
            if cl == "STATE":
                if v == ("pre", "self." + fname) or _mentions_pre(v, "self." + fname):
                    S.bad("R2", "unreset", key, "%s does not re-initialise state field `%s` (constructor value %s): stale state survives reset()" % (rfn.label, fname, show(want)), loc(rfn.span), after_reset=show(v))
                elif _nan_canon(v) != _nan_canon(want):
                    S.bad("R2", "reset-value", key, "%s sets `%s` to %s but the constructor initialises it to %s" % (rfn.label, fname, show(v), show(want)), loc(rfn.span))
                else:
                    S.ok("R2", key, cls=cl, new=show(want), reset=show(v))
            elif cl == "BUFFER":
                ok = False
                why = "buffer `%s` is not refilled" % fname
                if isinstance(v, tuple) and v[0] == "fill" and isinstance(want, tuple) and want[0] == "fromelem":
                    base, start, end, val = v[1], v[2], v[3], v[4]
                    if start != cu(0):
                        why = "fill of `%s` starts at %s, not 0" % (fname, show(start))
                    elif end != want[2]:
                        why = "fill of `%s` ends at %s but the buffer has %s slots" % (fname, show(end), show(want[2]))
                    elif val != want[1]:
                        why = "buffer `%s` is refilled with %s but the constructor fills it with %s" % (fname, show(val), show(want[1]))
                    else:
                        ok = True
                elif v == want:
                    ok = True
                if ok:
                    S.ok("R3", key, cls=cl, new=show(want), reset=show(v))
                else:
                    slug = "unreset" if (v == want or (isinstance(v, tuple) and v[0] == "fromelem")) is False and not (isinstance(v, tuple) and v[0] == "fill") else "buffer-fill"
                    S.bad("R3", slug, key, "%s: %s" % (rfn.label, why), loc(rfn.span), after_reset=show(v))
            elif cl == "NESTED":
                mine = [x for x in symex.Exec.flat_steps(steps) if x[1] == "self." + fname and x[2].endswith("::<Reset>::reset")]
                whole = st.store.m.get(("self", fname))
                if len(mine) == 1 and not gated and isinstance(whole, tuple) and whole[0] == "post" and whole[1] == mine[0]:
                    S.ok("R4", key, cls=cl, call=mine[0][2])
                elif not mine:
                    S.bad("R4", "unreset", key, "%s never calls reset() on nested indicator `%s`" % (rfn.label, fname), loc(rfn.span))
                else:
                    S.bad("R4", "nested-reset-shape", key, "%s resets nested `%s` %d time(s) / not on every path / touches it afterwards" % (rfn.label, fname, len(mine)), loc(rfn.span))
        # R6 idempotence: reset reads no STATE field
        bad_reads = [p for p in sorted(reads_by_reset) if p.startswith("self.") and cls.get(p.split(".")[1]) == "STATE" and p.count(".") == 1]
        if bad_reads:
            S.bad("R6", "reset-reads-state", s, "%s reads state field(s) %s: resetting twice may differ from resetting once" % (rfn.label, ", ".join(bad_reads)), loc(rfn.span))
        else:
            S.ok("R6", s, reads=sorted(reads_by_reset))
    return classes


def _mentions_pre(t, name):
    return any(x[0] == "pre" and x[1] == name for x in subterms(t))


RULES = [
    ("R1", "parameter fields (initialised from constructor arguments) are never written after construction", 18),
    ("R2", "every STATE field is assigned by reset(), on every path, the value the constructor gives it", 35),
    ("R3", "every BUFFER is refilled completely (0..len) with the constructor's fill value", 9),
    ("R4", "reset() of every NESTED indicator is called exactly once on every path", 22),
    ("R6", "reset() reads no state field (idempotence)", 22),
]


def run(tier, repo=None, tag="repo"):
    rep = Report("C04", tier)
    for rid, text, floor in RULES:
        rep.rule(rid, text, floor)
    configs = ["default"] + (["release"] if tier == "thorough" else [])
    for cfg in configs:
        F = ir.load(cfg, repo, tag)
        classes = apply(F, Sink(rep))
        rep.functions.update(f.path for f in F.fns if f.name in ("reset", "new"))
    rep.configs = configs
    rep.extra["field_classes"] = classes
    B = ir.load("default", BAD_FIXTURE, "bad")
    C = Sink(None, "C04")
    apply(B, C)
    rep.control("R2 un-reset field", C.fired("unreset", "BadShared.index"))
    rep.explanation = ("field classes from all MIR stores; symbolic evaluation of every `new` and every `reset` (fill loops summarised, nested resets kept "
                       "as step nodes); per field: value after reset == constructor value with parameters substituted")
    rep.assumptions = ["determinism (C05): equal field values imply equal future outputs",
                       "nested indicators' reset() is verified on its own struct (modular)"]
    return rep
