"""C14-U7: the shift clause.  Adding a constant s to every price shifts the level-valued outputs by s and leaves the others unchanged.

A term's *shift weight* w is d(term)/ds; the rules also guarantee the term is affine in s (no product or quotient of two shifted
values, no abs/sqrt of a shifted value, no comparison or max/min between values that shift differently), so the output moves by w*s
exactly in real arithmetic ("within rounding" in the property).  Nested indicators are transfer functions
    equivariant (w_out = w_in)   SMA, EMA, WMA, Minimum, Maximum           -- weighted means with weights summing to one / selections
    invariant   (w_out = 0)      StandardDeviation, MeanAbsoluteDeviation   -- statistics of deviations from the window mean
whose justification (C01's window invariants, C09-N8 EMA convexity) is re-established by the caller; composites, and indicators with a
"previous value" state of their own (TrueRange), are typed by inference over their modular gated terms."""
from fractions import Fraction

import symex
from terms import is_const, lit, show

TOP = "T"
EQUIVARIANT = {"SimpleMovingAverage", "ExponentialMovingAverage", "WeightedMovingAverage", "Minimum", "Maximum"}
INVARIANT = {"StandardDeviation", "MeanAbsoluteDeviation"}
PRICE_GETTERS = {"open", "high", "low", "close"}
# documented behaviour under a shift of all prices (property C14): 1 = moves with the shift, 0 = unchanged
EXPECTED = {
    "SimpleMovingAverage": 1, "ExponentialMovingAverage": 1, "WeightedMovingAverage": 1, "Minimum": 1, "Maximum": 1,
    "StandardDeviation": 0, "MeanAbsoluteDeviation": 0, "TrueRange": 0, "AverageTrueRange": 0, "FastStochastic": 0,
    "MovingAverageConvergenceDivergence": {"macd": 0, "signal": 0, "histogram": 0},
    "BollingerBands": {"average": 1, "upper": 1, "lower": 1},
    "KeltnerChannel": {"average": 1, "upper": 1, "lower": 1},
    "ChandelierExit": {"long": 1, "short": 1},
}
ORDER = ["TrueRange", "AverageTrueRange", "FastStochastic", "MovingAverageConvergenceDivergence", "BollingerBands", "KeltnerChannel", "ChandelierExit"]


class Ctx:
    def __init__(self, outw, statew):
        self.outw, self.statew = outw, statew
        self.sdmean = {}
        self.why = None
        self.mean_field = None

    def fail(self, msg):
        if self.why is None:
            self.why = msg
        return TOP


def comp_of(label):
    return str(label).split("::", 1)[0]


def weight(t, cx):
    if not isinstance(t, tuple) or not t:
        return Fraction(0)
    h = t[0]
    if h == "c":
        return Fraction(0)
    if h == "arg":
        return Fraction(1)
    if h == "get":
        return Fraction(1) if t[1] in PRICE_GETTERS else Fraction(0)
    if h in ("i2f", "ref_to"):
        return weight(t[1], cx)
    if h == "neg":
        w = weight(t[1], cx)
        return w if w == TOP else -w
    if h in ("+", "-"):
        a, b = weight(t[1], cx), weight(t[2], cx)
        if TOP in (a, b):
            return TOP
        return a + b if h == "+" else a - b
    if h == "*":
        a, b = weight(t[1], cx), weight(t[2], cx)
        if TOP in (a, b):
            return TOP
        if a == 0 and b == 0:
            return Fraction(0)
        if a != 0 and b != 0:
            return cx.fail("product of two values that move with the shift: %s" % show(t)[:90])
        k, w = (t[1], b) if a == 0 else (t[2], a)
        if is_const(k) and abs(k[2]) < 1e12:
            return Fraction(k[2]).limit_denominator(10 ** 9) * w
        return cx.fail("a value that moves with the shift is scaled by a non-constant: %s" % show(t)[:90])
    if h == "/":
        a, b = weight(t[1], cx), weight(t[2], cx)
        if TOP in (a, b):
            return TOP
        if b != 0:
            return cx.fail("division by a value that moves with the shift: %s" % show(t[2])[:80])
        if a == 0:
            return Fraction(0)
        if is_const(t[2]) and t[2][2] != 0:
            return a / Fraction(t[2][2]).limit_denominator(10 ** 9)
        return cx.fail("a value that moves with the shift is divided by a non-constant: %s" % show(t)[:90])
    if h in ("abs", "sqrt"):
        a = weight(t[1], cx)
        if a == TOP:
            return TOP
        return Fraction(0) if a == 0 else cx.fail("%s of a value that moves with the shift: %s" % (h, show(t[1])[:80]))
    if h in ("max", "min"):
        ws = [weight(x, cx) for x in t[1:]]
        if TOP in ws:
            return TOP
        if len(set(ws)) != 1:
            return cx.fail("%s over values that shift differently (%s): %s" % (h, ", ".join(str(w) for w in ws), show(t)[:90]))
        return ws[0]
    if h == "gamma":
        a, p = lit(t[1])
        if a[0] in ("<", "<=", "==") and len(a) == 3:
            wa, wb = weight(a[1], cx), weight(a[2], cx)
            if TOP in (wa, wb):
                return TOP
            if wa != wb:
                return cx.fail("comparison between values that shift differently (%s vs %s): %s" % (wa, wb, show(a)[:90]))
        x, y = weight(t[2], cx), weight(t[3], cx)
        if TOP in (x, y):
            return TOP
        if x != y:
            return cx.fail("the two arms under %s shift differently (%s vs %s)" % (show(t[1])[:60], x, y))
        return x
    if h == "pre":
        p = t[1]
        for k, w in cx.statew.items():
            if p == k or p.startswith(k + "."):
                return w
        return Fraction(0)
    if h in ("discr", "sgnpos", "bot"):
        return Fraction(0)
    if h == "ret":
        node = t[1]
        comp = comp_of(node[2])
        win = [weight(a, cx) for a in node[3]]
        if TOP in win:
            return TOP
        w_in = win[0] if win else Fraction(0)
        if comp in INVARIANT:
            cx.sdmean[node[1]] = w_in
            return Fraction(0)
        if comp in EQUIVARIANT:
            return w_in
        if comp in cx.outw and not isinstance(cx.outw[comp], dict):
            if w_in != 1:
                return cx.fail("%s is fed a value that does not move with the prices" % comp)
            return Fraction(cx.outw[comp])
        return cx.fail("component %s has no scalar shift class" % comp)
    if h == "proj" and isinstance(t[1], tuple) and t[1][0] == "ret":
        comp = comp_of(t[1][1][2])
        o = cx.outw.get(comp)
        if isinstance(o, dict) and t[2] in o:
            return Fraction(o[t[2]])
        return cx.fail("field %s of component %s has no shift class" % (t[2], comp))
    if h == "ref":
        return Fraction(1)   # a bar handed on to a component: all its prices move with the shift
    if h == "post" and comp_of(t[1][2]) in INVARIANT and len(t[2]) == 1 and t[2][0] == cx.mean_field:
        win = [weight(a, cx) for a in t[1][3]]
        return TOP if TOP in win else (win[0] if win else Fraction(0))   # the window mean kept by StandardDeviation (C01-I5): moves like its input
    if h == "ucall" and str(t[1]).endswith("::mean") and comp_of(t[1]) in INVARIANT:
        a0 = t[2][0] if t[2] else None
        recv = ".".join(a0[1]) if isinstance(a0, tuple) and a0[0] == "ref" else None
        return cx.sdmean.get(recv, Fraction(1))   # the window mean of what that StandardDeviation is fed (C01-I5)
    if h == "adt" and t[2][1] in ("Some",) and t[3]:
        return weight(t[3][0][1], cx)
    if h == "adt" and t[2][1] in ("None",):
        return None   # no value: compatible with any weight
    return cx.fail("no shift rule for `%s` in %s" % (h, show(t)[:70]))


def mean_field_of(F):
    """the StandardDeviation field its `mean()` accessor returns"""
    g = F.method("StandardDeviation", "mean", trait="")
    if g is None:
        return None
    try:
        r = symex.evaluate(F, g)
    except symex.Unsupported:
        return None
    t = r["ret"]
    return t[1].split(".")[-1] if isinstance(t, tuple) and t[0] == "pre" and t[1].count(".") == 1 else None


def analyse(F, struct, classes, outw):
    """-> ({kind: {field or '': weight}}, why) for every Next impl of struct"""
    res = {}
    mf = mean_field_of(F)
    fns = [f for f in F.fns_of(struct, "next", trait="Next") if not f.derived]
    own = [fd["name"] for fd in F.struct_fields(struct) if classes[struct].get(fd["name"]) == "STATE" and fd["ty"]["s"] in ("f64", "std::option::Option<f64>")]
    for fn in fns:
        r = symex.evaluate(F, fn, canon=True)
        # infer the weight of own "previous value" fields: the assumption must be reproduced by the post-term
        statew = {}
        for f in own:
            chosen = None
            for cand in (Fraction(1), Fraction(0)):
                cx = Ctx(outw, dict(statew, **{"self." + f: cand}))
                cx.mean_field = mf
                post = r["heap"].get("self." + f)
                w = weight(post, cx) if post is not None else cand
                if w is None or w == cand:
                    chosen = cand
                    break
            if chosen is None:
                res[fn.label] = (None, "state field `%s` does not shift consistently from one call to the next" % f)
                break
            statew["self." + f] = chosen
        else:
            cx = Ctx(outw, statew)
            cx.mean_field = mf
            # visit the steps first so that StandardDeviation::mean knows what the deviation was fed
            for st in symex.Exec.flat_steps(r["steps"]):
                weight(("ret", st), cx)
            cx.why = None
            ret = r["ret"]
            out = {}
            if isinstance(ret, tuple) and ret[0] == "adt" and not ret[4]:
                for name, v in ret[3]:
                    out[name] = weight(v, cx)
            else:
                out[""] = weight(ret, cx)
            res[fn.label] = (out, cx.why)
    return res
