// C01 (also C08: flat window -> SD 0; C15 / C09 through BollingerBands' half-width): StandardDeviation(n) is the population SD
// of exactly the last min(t, n) inputs; comparing variances, within tau(t) * (max|x|)^2.
use ta::indicators::{BollingerBands, StandardDeviation};
use ta::Next;

fn pop_var(w: &[f64]) -> f64 {
    let k = w.len() as f64;
    let m = w.iter().sum::<f64>() / k;
    w.iter().map(|v| (v - m) * (v - m)).sum::<f64>() / k
}

fn main() {
    let n = 5;
    let mut sd = StandardDeviation::new(n).unwrap();
    let mut bb = BollingerBands::new(n, 2.0).unwrap();
    let inputs = [10.0, 10.0, 10.0, 10.0, 10.0, 50.0, 10.0, 10.0, 10.0, 10.0, 10.0, -30.0];
    let mut hist: Vec<f64> = vec![];
    let mut bad = 0;
    for (t, &x) in inputs.iter().enumerate() {
        hist.push(x);
        let got = sd.next(x);
        let b = bb.next(x);
        let start = hist.len().saturating_sub(n);
        let want = pop_var(&hist[start..]);
        let tau = 1e-12 + 1e-15 * ((t + 1) as f64).powf(1.5);
        let ok = (got * got - want).abs() <= tau * 2500.0;
        println!("t={} x={:>4} SD={:<20} reference={:<20} BB width={:<8.4} {}", t + 1, x, got, want.sqrt(), b.upper - b.lower, if ok { "" } else { "<-- differs" });
        if !ok {
            bad += 1;
        }
    }
    if bad > 0 {
        println!("VIOLATED: {} outputs are not the SD of the window (a lone outlier entering the window is reported 4% too wide)", bad);
        std::process::exit(1);
    }
    println!("ok");
}
