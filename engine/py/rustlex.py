"""A small Rust tokenizer (enough to find attributes, macro calls and item initialisers without being fooled by
whitespace, comments, strings, raw strings, char literals or lifetimes).  tokens: (kind, text, line)
kind in ident / num / str / char / life / punct"""
import re

_IDENT = re.compile(r"(?:r#)?[A-Za-z_][A-Za-z0-9_]*")
_NUM = re.compile(r"[0-9][0-9A-Za-z_]*(?:\.[0-9][0-9A-Za-z_]*)?(?:[eE][+-]?[0-9_]+)?[A-Za-z0-9_]*")
_CHAR = re.compile(r"'(?:\\(?:x[0-9a-fA-F]{2}|u\{[0-9a-fA-F_]+\}|.)|[^\\'\n])'")
_RAW = re.compile(r"(?:b|c)?r(#*)\"")
_LIFE = re.compile(r"'(?:r#)?[A-Za-z_][A-Za-z0-9_]*")


def tokens(src):
    out = []
    i, n, line = 0, len(src), 1
    while i < n:
        c = src[i]
        if c == "\n":
            line += 1
            i += 1
            continue
        if c.isspace():
            i += 1
            continue
        if src.startswith("//", i):
            j = src.find("\n", i)
            i = n if j < 0 else j
            continue
        if src.startswith("/*", i):
            depth, j = 1, i + 2
            while j < n and depth:
                if src.startswith("/*", j):
                    depth += 1
                    j += 2
                elif src.startswith("*/", j):
                    depth -= 1
                    j += 2
                else:
                    j += 1
            line += src.count("\n", i, j)
            i = j
            continue
        # raw strings r"..", r#".."#, br#".."#, cr".."
        m = _RAW.match(src, i)
        if m:
            close = '"' + m.group(1)
            j = src.find(close, m.end())
            j = n if j < 0 else j + len(close)
            out.append(("str", src[i:j], line))
            line += src.count("\n", i, j)
            i = j
            continue
        if c == '"' or (c in "bc" and src.startswith('"', i + 1)):
            j = i + (1 if c == '"' else 2)
            while j < n and src[j] != '"':
                j += 2 if src[j] == "\\" else 1
            j = min(j + 1, n)
            out.append(("str", src[i:j], line))
            line += src.count("\n", i, j)
            i = j
            continue
        if c == "'" or (c == "b" and src.startswith("'", i + 1)):
            k = i + (0 if c == "'" else 1)
            m = _CHAR.match(src, k)
            if m:
                out.append(("char", src[i:m.end()], line))
                i = m.end()
                continue
            m = _LIFE.match(src, k)
            if m and c == "'":
                out.append(("life", m.group(0), line))
                i = m.end()
                continue
        m = _IDENT.match(src, i)
        if m:
            out.append(("ident", m.group(0), line))
            i = m.end()
            continue
        m = _NUM.match(src, i)
        if m:
            out.append(("num", m.group(0), line))
            i = m.end()
            continue
        if src.startswith("::", i):
            out.append(("punct", "::", line))
            i += 2
            continue
        out.append(("punct", c, line))
        i += 1
    return out


def balanced(toks, i, open_="(", close=")"):
    """toks[i] is the opening delimiter: -> index just past the matching close, tokens in between"""
    pairs = {"(": ")", "[": "]", "{": "}"}
    depth, j = 0, i
    while j < len(toks):
        t = toks[j][1] if toks[j][0] == "punct" else None
        if t in pairs:
            depth += 1
        elif t in pairs.values():
            depth -= 1
            if depth == 0:
                return j + 1, toks[i + 1:j]
        j += 1
    return len(toks), toks[i + 1:]


def text(toks):
    """canonical spelling of a token run (single spaces only where two words would otherwise fuse)"""
    out = ""
    for k, t, _ in toks:
        if out and (out[-1].isalnum() or out[-1] == "_") and (t[0].isalnum() or t[0] == "_"):
            out += " "
        out += t
    return out
