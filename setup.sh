#!/bin/sh
# Offline setup: build the fact-extraction driver and warm the dependency caches.
set -e
cd "$(dirname "$0")"
export CARGO_NET_OFFLINE=true
(cd engine/driver && cargo build --offline 2>&1 | tail -2)
python3 engine/py/extract.py default serde
python3 - <<'PY'
import sys, os
sys.path.insert(0, os.path.join(os.getcwd(), "engine", "py"))
import witness
r = witness.check()
print("witness:", [(x["config"], x["rc"]) for x in r["runs"]], "control fired:", r["control"]["fired"])
PY
echo setup done
