# Self-validation corpus: one-instance-broken variants (MUTANTS: each must be reported by the named
# properties' checks) and behaviour-preserving refactors (BENIGN: all named checks must stay silent).
# An entry is {name, props, edits: [(file, old, new)]}; `old` must occur exactly once, otherwise the
# variant is skipped (the tree has moved on), never counted as a failure.
I = "src/indicators/"
MUTANTS = [
    # ---- C04
    {"name": "C04-sma-reset-omits-sum", "props": ["C04"], "edits": [(I + "simple_moving_average.rs", "        self.count = 0;\n        self.sum = 0.0;\n        for", "        self.count = 0;\n        for")]},
    {"name": "C04-kc-reset-omits-ema", "props": ["C04"], "edits": [(I + "keltner_channel.rs", "        self.atr.reset();\n        self.ema.reset();", "        self.atr.reset();")]},
    {"name": "C04-wma-reset-count-1", "props": ["C04"], "edits": [(I + "weighted_moving_average.rs", "        self.index = 0;\n        self.count = 0;\n        self.weight = 0.0;", "        self.index = 0;\n        self.count = 1;\n        self.weight = 0.0;")]},
    {"name": "C04-er-reset-loop-short", "props": ["C04"], "edits": [(I + "efficiency_ratio.rs", "        for i in 0..self.period {", "        for i in 0..self.period - 1 {")]},
    {"name": "C04-ema-next-mutates-k", "props": ["C04"], "edits": [(I + "exponential_moving_average.rs", "            self.is_new = false;\n            self.current = input;", "            self.is_new = false;\n            self.k = self.k * 1.0;\n            self.current = input;")]},
    {"name": "C04-min-reset-fill-neg-inf", "props": ["C04"], "edits": [(I + "minimum.rs", "            self.deque[i] = f64::INFINITY;\n        }\n    }\n}\n\nimpl Default", "            self.deque[i] = f64::NEG_INFINITY;\n        }\n    }\n}\n\nimpl Default")]},
    # ---- C11
    {"name": "C11-sma-accepts-zero", "props": ["C11"], "edits": [(I + "simple_moving_average.rs", "            0 => Err(TaError::InvalidParameter),\n            _ => Ok(Self {", "            usize::MAX => Err(TaError::InvalidParameter),\n            _ => Ok(Self {")]},
    {"name": "C11-default-sma-10", "props": ["C11"], "edits": [(I + "simple_moving_average.rs", "Self::new(9).unwrap()", "Self::new(10).unwrap()")]},
    {"name": "C11-bb-display-precision", "props": ["C11"], "edits": [(I + "bollinger_bands.rs", "\"BB({}, {})\"", "\"BB({}, {:.0})\"")]},
    {"name": "C11-macd-display-slow-twice", "props": ["C11"], "edits": [(I + "moving_average_convergence_divergence.rs", "            self.slow_ema.period(),\n            self.signal_ema.period()", "            self.slow_ema.period(),\n            self.slow_ema.period()")]},
    {"name": "C11-atr-period-const", "props": ["C11"], "edits": [(I + "average_true_range.rs", "    fn period(&self) -> usize {\n        self.ema.period()", "    fn period(&self) -> usize {\n        14")]},
    {"name": "C11-sma-period-returns-count", "props": ["C11"], "edits": [(I + "simple_moving_average.rs", "    fn period(&self) -> usize {\n        self.period", "    fn period(&self) -> usize {\n        self.count")]},
    {"name": "C11-kc-rejects-negative-multiplier", "props": ["C11"], "edits": [(I + "keltner_channel.rs", "    pub fn new(period: usize, multiplier: f64) -> Result<Self> {\n", "    pub fn new(period: usize, multiplier: f64) -> Result<Self> {\n        if multiplier < 0.0 {\n            return Err(crate::errors::TaError::InvalidParameter);\n        }\n")]},
    {"name": "C11-roc-display-name", "props": ["C11"], "edits": [(I + "rate_of_change.rs", "\"ROC({})\"", "\"RoC({})\"")]},
    # ---- C16
    {"name": "C16-low-lt-open", "props": ["C16"], "edits": [("src/data_item.rs", "if low <= open", "if low < open")]},
    {"name": "C16-drop-high-ge-close", "props": ["C16"], "edits": [("src/data_item.rs", "                && high >= close\n", "")]},
    {"name": "C16-volume-gt-zero", "props": ["C16"], "edits": [("src/data_item.rs", "&& volume >= 0.0", "&& volume > 0.0")]},
    {"name": "C16-not-low-gt-open-accepts-nan", "props": ["C16"], "edits": [("src/data_item.rs", "if low <= open", "if !(low > open)")]},
    {"name": "C16-close-getter-returns-open", "props": ["C16"], "edits": [("src/data_item.rs", "    fn close(&self) -> f64 {\n        self.close", "    fn close(&self) -> f64 {\n        self.open")]},
    {"name": "C16-aggregate-swaps-high-low", "props": ["C16"], "edits": [("src/data_item.rs", "                    open,\n                    high,\n                    low,", "                    open,\n                    high: low,\n                    low: high,")]},
    {"name": "C16-setter-open-also-close", "props": ["C16"], "edits": [("src/data_item.rs", "        self.open = Some(val);\n", "        self.open = Some(val);\n        self.close = Some(val);\n")]},
    # ---- C02
    {"name": "C02-ema-k-2-over-n", "props": ["C02"], "edits": [(I + "exponential_moving_average.rs", "k: 2.0 / (period as f64 + 1.0),", "k: 2.0 / (period as f64),")]},
    {"name": "C02-ema-seed-kx", "props": ["C02"], "edits": [(I + "exponential_moving_average.rs", "            self.current = input;\n        } else {", "            self.current = self.k * input;\n        } else {")]},
    {"name": "C02-ema-one-minus-k-on-input", "props": ["C02"], "edits": [(I + "exponential_moving_average.rs", "self.k * input + (1.0 - self.k) * self.current", "(1.0 - self.k) * input + self.k * self.current")]},
    {"name": "C02-tr-bar-uses-close-not-prev", "props": ["C02"], "edits": [(I + "true_range.rs", "let dist2 = (bar.high() - prev_close).abs();", "let dist2 = (bar.high() - bar.close()).abs();")]},
    {"name": "C02-tr-stores-high", "props": ["C02"], "edits": [(I + "true_range.rs", "self.prev_close = Some(bar.close());", "self.prev_close = Some(bar.high());")]},
    {"name": "C02-macd-ctor-swaps-fast-slow", "props": ["C02", "C15"], "edits": [(I + "moving_average_convergence_divergence.rs", "            fast_ema: Ema::new(fast_period)?,\n            slow_ema: Ema::new(slow_period)?,", "            fast_ema: Ema::new(slow_period)?,\n            slow_ema: Ema::new(fast_period)?,")]},
    {"name": "C02-kc-bar-ema-fed-close", "props": ["C02", "C15"], "edits": [(I + "keltner_channel.rs", "let average = self.ema.next(typical_price);", "let average = self.ema.next(input.close());")]},
    {"name": "C02-kc-atr-period-plus-1", "props": ["C02", "C15"], "edits": [(I + "keltner_channel.rs", "atr: AverageTrueRange::new(period)?,", "atr: AverageTrueRange::new(period + 1)?,")]},
    {"name": "C02-ce-long-from-min", "props": ["C02", "C15"], "edits": [(I + "chandelier_exit.rs", "            long: max - atr,", "            long: min - atr,")]},
    {"name": "C02-macd-histogram-reversed", "props": ["C02", "C09"], "edits": [(I + "moving_average_convergence_divergence.rs", "let histogram = macd - signal;", "let histogram = signal - macd;")]},
    {"name": "C02-atr-bar-path-uses-scalar-tr", "props": ["C02"], "edits": [(I + "average_true_range.rs", "impl<T: High + Low + Close> Next<&T> for AverageTrueRange {\n    type Output = f64;\n\n    fn next(&mut self, input: &T) -> Self::Output {\n        self.ema.next(self.true_range.next(input))", "impl<T: High + Low + Close> Next<&T> for AverageTrueRange {\n    type Output = f64;\n\n    fn next(&mut self, input: &T) -> Self::Output {\n        self.ema.next(self.true_range.next(input.close()))")]},
    # ---- C03
    {"name": "C03-cci-constant-0.15", "props": ["C03"], "edits": [(I + "commodity_channel_index.rs", "(mad * 0.015)", "(mad * 0.15)")]},
    {"name": "C03-rsi-seeds-zero", "props": ["C03"], "edits": [(I + "relative_strength_index.rs", "            up = 0.1;\n            down = 0.1;", "            up = 0.0;\n            down = 0.0;")]},
    {"name": "C03-rsi-down-sign", "props": ["C03", "C07"], "edits": [(I + "relative_strength_index.rs", "down = self.prev_val - input;", "down = input - self.prev_val;")]},
    {"name": "C03-fs-bar-max-fed-low", "props": ["C03", "C15"], "edits": [(I + "fast_stochastic.rs", "let highest = self.maximum.next(input.high());", "let highest = self.maximum.next(input.low());")]},
    {"name": "C03-fs-neutral-zero", "props": ["C03", "C08"], "edits": [(I + "fast_stochastic.rs", "            // therefore it makes sense to return 50\n            50.0", "            // therefore it makes sense to return 50\n            0.0")]},
    {"name": "C03-ppo-div-fast", "props": ["C03"], "edits": [(I + "percentage_price_oscillator.rs", "(fast_val - slow_val) / slow_val * 100.0", "(fast_val - slow_val) / fast_val * 100.0")]},
    {"name": "C03-obv-subtracts-on-rise", "props": ["C03"], "edits": [(I + "on_balance_volume.rs", "self.obv = self.obv + input.volume();", "self.obv = self.obv - input.volume();")]},
    {"name": "C03-obv-compares-with-obv", "props": ["C03"], "edits": [(I + "on_balance_volume.rs", "if input.close() > self.prev_close {", "if input.close() > self.obv {")]},
    {"name": "C03-rsi-prev-not-updated-first", "props": ["C03"], "edits": [(I + "relative_strength_index.rs", "        self.prev_val = input;\n        let up_ema", "        if up != 0.1 {\n            self.prev_val = input;\n        }\n        let up_ema")]},
    # ---- C15
    {"name": "C15-bb-sd-period-plus-1", "props": ["C15"], "edits": [(I + "bollinger_bands.rs", "sd: Sd::new(period)?,", "sd: Sd::new(period + 1)?,")]},
    {"name": "C15-slowstoch-ema-wrong-period", "props": ["C15", "C03"], "edits": [(I + "slow_stochastic.rs", "ema: ExponentialMovingAverage::new(ema_period)?,", "ema: ExponentialMovingAverage::new(stochastic_period)?,")]},
    {"name": "C15-ce-max-period-doubled", "props": ["C15", "C02"], "edits": [(I + "chandelier_exit.rs", "max: Maximum::new(period)?,", "max: Maximum::new(period * 2)?,")]},
    {"name": "C15-atr-steps-ema-twice", "props": ["C15", "C02"], "edits": [(I + "average_true_range.rs", "    fn next(&mut self, input: f64) -> Self::Output {\n        self.ema.next(self.true_range.next(input))", "    fn next(&mut self, input: f64) -> Self::Output {\n        let tr = self.true_range.next(input);\n        self.ema.next(tr);\n        self.ema.next(tr)")]},
    {"name": "C15-cci-sma-fed-close", "props": ["C15", "C03"], "edits": [(I + "commodity_channel_index.rs", "let sma = self.sma.next(tp);", "let sma = self.sma.next(input.close());")]},
    # ---- C10
    {"name": "C10-minimum-reads-high", "props": ["C10"], "edits": [(I + "minimum.rs", "impl<T: Low> Next<&T> for Minimum {", "impl<T: crate::High> Next<&T> for Minimum {"), (I + "minimum.rs", "self.next(input.low())", "self.next(input.high())")]},
    {"name": "C10-sma-bar-hl2", "props": ["C10"], "edits": [(I + "simple_moving_average.rs", "impl<T: Close> Next<&T> for SimpleMovingAverage {", "impl<T: crate::High + crate::Low> Next<&T> for SimpleMovingAverage {"), (I + "simple_moving_average.rs", "self.next(input.close())", "self.next((input.high() + input.low()) / 2.0)")]},
    {"name": "C10-ema-bar-scaled", "props": ["C10"], "edits": [(I + "exponential_moving_average.rs", "self.next(input.close())", "self.next(input.close() * 1.0001)")]},
    {"name": "C10-dataitem-high-returns-low", "props": ["C10", "C16"], "edits": [("src/data_item.rs", "    fn high(&self) -> f64 {\n        self.high", "    fn high(&self) -> f64 {\n        self.low")]},
    {"name": "C19-rsi-bound-close-volume", "props": ["C19"], "edits": [(I + "relative_strength_index.rs", "impl<T: Close> Next<&T> for RelativeStrengthIndex {", "impl<T: Close + crate::Volume> Next<&T> for RelativeStrengthIndex {")]},
    {"name": "C10-wma-bar-skips-zero-volume", "props": ["C10"], "edits": [(I + "weighted_moving_average.rs", "impl<T: Close> Next<&T> for WeightedMovingAverage {", "impl<T: Close + crate::Volume> Next<&T> for WeightedMovingAverage {"), (I + "weighted_moving_average.rs", "        self.next(input.close())", "        if input.volume() < 0.0 {\n            return self.sum;\n        }\n        self.next(input.close())")]},
    {"name": "C19-er-bar-static-bound", "props": ["C19"], "edits": [(I + "efficiency_ratio.rs", "impl<T: Close> Next<&T> for EfficiencyRatio {", "impl<T: Close + 'static> Next<&T> for EfficiencyRatio {")]},
    {"name": "C10-obv-reads-open", "props": ["C10"], "edits": [(I + "on_balance_volume.rs", "impl<T: Close + Volume> Next<&T> for OnBalanceVolume {", "impl<T: Close + Volume + crate::Open> Next<&T> for OnBalanceVolume {"), (I + "on_balance_volume.rs", "        if input.close() > self.prev_close {", "        if input.close() > self.prev_close && input.open() == input.open() {")]},
    # ---- C19
    {"name": "C19-er-no-clone", "props": ["C19"], "edits": [(I + "efficiency_ratio.rs", "#[derive(Debug, Clone)]\npub struct EfficiencyRatio", "#[derive(Debug)]\npub struct EfficiencyRatio")]},
    {"name": "C19-obv-rc-field", "props": ["C19", "C05", "C18"], "edits": [(I + "on_balance_volume.rs", "    obv: f64,\n    prev_close: f64,\n}", "    obv: f64,\n    prev_close: f64,\n    #[cfg_attr(feature = \"serde\", serde(skip))]\n    tag: std::rc::Rc<()>,\n}"), (I + "on_balance_volume.rs", "            obv: 0.0,\n            prev_close: 0.0,\n        }", "            obv: 0.0,\n            prev_close: 0.0,\n            tag: std::rc::Rc::new(()),\n        }")]},
    {"name": "C19-roc-drops-next-f64-pub", "props": ["C19"], "edits": [(I + "money_flow_index.rs", "impl Period for MoneyFlowIndex {\n    fn period(&self) -> usize {\n        self.period\n    }\n}\n", "impl MoneyFlowIndex {\n    pub fn period(&self) -> usize {\n        self.period\n    }\n}\n")]},
    {"name": "C19-tr-no-serde", "props": ["C19", "C06"], "edits": [(I + "true_range.rs", "#[cfg_attr(feature = \"serde\", derive(Serialize, Deserialize))]\n#[derive(Debug, Clone)]\npub struct TrueRange", "#[derive(Debug, Clone)]\npub struct TrueRange")]},
    {"name": "C19-kc-output-no-partialeq", "props": ["C19"], "edits": [(I + "keltner_channel.rs", "#[derive(Debug, Clone, PartialEq)]\npub struct KeltnerChannelOutput", "#[derive(Debug, Clone)]\npub struct KeltnerChannelOutput")]},
]
BENIGN = [
    {"name": "benign-build-conjunct-order", "props": ["C16"], "edits": [("src/data_item.rs", "            if low <= open\n                && low <= close", "            if low <= close\n                && low <= open")]},
    {"name": "benign-build-high-ge-low", "props": ["C16"], "edits": [("src/data_item.rs", "&& low <= high", "&& high >= low")]},
    {"name": "benign-sma-reset-fill", "props": ["C04", "C18", "C05"], "edits": [(I + "simple_moving_average.rs", "        for i in 0..self.period {\n            self.deque[i] = 0.0;\n        }", "        self.deque.fill(0.0);")]},
    {"name": "benign-ema-new-if", "props": ["C11", "C04"], "edits": [(I + "exponential_moving_average.rs", "        match period {\n            0 => Err(TaError::InvalidParameter),\n            _ => Ok(Self {\n                period,\n                k: 2.0 / (period as f64 + 1.0),\n                current: 0.0,\n                is_new: true,\n            }),\n        }", "        if period == 0 {\n            return Err(TaError::InvalidParameter);\n        }\n        Ok(Self {\n            period,\n            k: 2.0 / (period as f64 + 1.0),\n            current: 0.0,\n            is_new: true,\n        })")]},
    {"name": "benign-reset-reorder", "props": ["C04"], "edits": [(I + "weighted_moving_average.rs", "        self.index = 0;\n        self.count = 0;\n        self.weight = 0.0;", "        self.weight = 0.0;\n        self.count = 0;\n        self.index = 0;")]},
    {"name": "benign-ema-incremental-form", "props": ["C02", "C15", "C03"], "edits": [(I + "exponential_moving_average.rs", "self.current = self.k * input + (1.0 - self.k) * self.current;", "self.current = self.current + self.k * (input - self.current);")]},
    {"name": "benign-ema-if-not-is-new", "props": ["C02", "C04"], "edits": [(I + "exponential_moving_average.rs", "        if self.is_new {\n            self.is_new = false;\n            self.current = input;\n        } else {\n            self.current = self.k * input + (1.0 - self.k) * self.current;\n        }", "        if !self.is_new {\n            self.current = self.k * input + (1.0 - self.k) * self.current;\n        } else {\n            self.is_new = false;\n            self.current = input;\n        }")]},
    {"name": "benign-kc-reorder-calls", "props": ["C02", "C15"], "edits": [(I + "keltner_channel.rs", "        let atr = self.atr.next(input);\n        let average = self.ema.next(input);", "        let average = self.ema.next(input);\n        let atr = self.atr.next(input);")]},
    {"name": "benign-max3-nested-max", "props": ["C02", "C05"], "edits": [(I + "true_range.rs", "max3(dist1, dist2, dist3)", "dist3.max(dist1.max(dist2))")]},
    {"name": "benign-tp-times-third", "props": ["C03", "C15"], "edits": [(I + "commodity_channel_index.rs", "(tp - sma) / (mad * 0.015)", "(tp - sma) / (0.015 * mad)")]},
    {"name": "benign-obv-if-structure", "props": ["C03"], "edits": [(I + "on_balance_volume.rs", "        if input.close() > self.prev_close {\n            self.obv = self.obv + input.volume();\n        } else if input.close() < self.prev_close {\n            self.obv = self.obv - input.volume();\n        }", "        let c = input.close();\n        if c < self.prev_close {\n            self.obv -= input.volume();\n        } else if c > self.prev_close {\n            self.obv += input.volume();\n        }")]},
    {"name": "benign-rsi-commuted", "props": ["C03"], "edits": [(I + "relative_strength_index.rs", "100.0 * up_ema / (up_ema + down_ema)", "up_ema * 100.0 / (down_ema + up_ema)")]},
    {"name": "benign-ppo-macd-local", "props": ["C03"], "edits": [(I + "percentage_price_oscillator.rs", "let ppo = (fast_val - slow_val) / slow_val * 100.0;", "let diff = fast_val - slow_val;\n        let ppo = 100.0 * diff / slow_val;")]},
]
