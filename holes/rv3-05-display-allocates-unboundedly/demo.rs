// C12: Display (like next, reset, clone, Debug) returns normally for every valid configuration.
// C18 (spirit): heap use is bounded by the parameters (256 + 64 * period bytes).
// On the patched crate formatting an EMA with period > 64 asks the allocator for (period - 64) TiB and the process aborts.
use ta::indicators::{ExponentialMovingAverage, MovingAverageConvergenceDivergence};

fn main() {
    for &p in &[1usize, 9, 64, 100, 5000] {
        let ema = ExponentialMovingAverage::new(p).unwrap();
        let s = format!("{}", ema);
        assert_eq!(s, format!("EMA({})", p));
        println!("{}", s);
    }
    let macd = MovingAverageConvergenceDivergence::new(12, 26, 9).unwrap();
    println!("{}", macd);
}
