// C19: every indicator "implements Next<&T> for any T providing the price traits it needs".
// A bar type that provides Close but is neither Send nor Sync (it shares its quote through an Rc<Cell<..>>, a perfectly
// ordinary single-threaded design).  On the original crate this compiles and runs (exit 0); on the patched crate the program is
// rejected by the type checker (error[E0277]: `Rc<Cell<f64>>` cannot be sent between threads safely ... required for
// `LiveQuote` to implement `Portable`), i.e. `cargo run` exits non-zero: the impl the property promises does not exist.
use std::cell::Cell;
use std::rc::Rc;
use ta::indicators::ExponentialMovingAverage;
use ta::{Close, Next};

struct LiveQuote {
    last: Rc<Cell<f64>>,
}

impl Close for LiveQuote {
    fn close(&self) -> f64 {
        self.last.get()
    }
}

fn main() {
    let feed = Rc::new(Cell::new(10.0));
    let quote = LiveQuote { last: feed.clone() };
    let mut ema = ExponentialMovingAverage::new(3).unwrap();
    let a = ema.next(&quote);
    feed.set(12.0);
    let b = ema.next(&quote);
    assert_eq!(a, 10.0);
    assert_eq!(b, 11.0);
    println!("ok: EMA accepts a !Send bar type: {} {}", a, b);
}
