// C02: EMA(n) returns its first input unchanged and thereafter k*x + (1-k)*previous with k = 2/(n+1).
use ta::indicators::{ExponentialMovingAverage, MovingAverageConvergenceDivergence};
use ta::Next;

fn main() {
    let mut bad = 0;
    let mut ema = ExponentialMovingAverage::new(3).unwrap();
    let (a, b) = (ema.next(-2.0), ema.next(-4.0));
    if a != -2.0 || b != -3.0 {
        eprintln!("EMA(3) fed -2, -4 returned {}, {} (documented: -2, -3)", a, b);
        bad += 1;
    }
    // visible on positive prices too: the MACD signal line is an EMA of the (negative, in a falling market) MACD line
    let mut macd = MovingAverageConvergenceDivergence::new(3, 6, 4).unwrap();
    let mut fast = ExponentialMovingAverage::new(3).unwrap();
    let mut slow = ExponentialMovingAverage::new(6).unwrap();
    let (mut sig, k) = (0.0_f64, 2.0 / 5.0);
    for (i, x) in [100.0, 98.0, 95.0, 91.0, 90.0].iter().enumerate() {
        let out = macd.next(*x);
        let line = fast.next(*x) - slow.next(*x);
        sig = if i == 0 { line } else { k * line + (1.0 - k) * sig };
        if (out.signal - sig).abs() > 1e-9 {
            eprintln!("step {}: MACD signal {} but EMA(4) of the MACD line is {}", i, out.signal, sig);
            bad += 1;
        }
    }
    std::process::exit(if bad > 0 { 1 } else { 0 });
}
