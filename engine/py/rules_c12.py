"""C12 — next() is total: no panic or out-of-bounds for any input and valid configuration.

Every panic site (MIR Assert, panicking callee) and every loop of the library is enumerated and
discharged by a local rule over cursor/counter typestate; f64 arithmetic never panics, so
NaN / inf / invalid bars need no case analysis."""
import callees
from coverage import _empty_arm
import callgraph
import ir
import symex
import typestate
from cfg import Cfg
from infra import BAD_FIXTURE, Report, Sink, loc
from terms import cu, is_const, leaves, lit, show, simp, subterms


def buffer_of_len(len_term):
    """len(pre(self.b)) -> 'b' (after stripping store/fill layers)"""
    t = len_term
    if isinstance(t, tuple) and t[0] == "len":
        a = t[1]
        while isinstance(a, tuple) and a[0] in ("store", "fill"):
            a = a[1]
        if isinstance(a, tuple) and a[0] == "pre" and a[1].startswith("self.") and a[1].count(".") == 1:
            return a[1].split(".")[1]
    return None


def index_ok(leaf, conds, ts, buf, ex, facts):
    """is `leaf` < len(buf) ?  -> rule name or None"""
    pf = None
    for f in ts.len_fields:
        pf = f
    if leaf == cu(0):
        return "R-const0"
    if isinstance(leaf, tuple) and leaf[0] == "pre" and leaf[1].startswith("self."):
        f = leaf[1].split(".", 1)[1]
        if f in ts.cursors:
            return "R-cursor"
    if isinstance(leaf, tuple) and leaf[0] == "ivar":
        b = ex.ivar_bounds.get(leaf)
        if b:
            if b["array"] is None and b["start"] == cu(0) and isinstance(b["end"], tuple) and b["end"][0] == "pre" and (b["end"][1].count(".") == 1 and b["end"][1].split(".")[-1] in ts.len_fields):
                return "R-range"
            if b["array"] == ("self", buf):
                return "R-iter"
            if b["array"] is None and b["start"] == cu(0) and buffer_of_len(b["end"]) == buf:
                return "R-range-len"  # 0 <= i < len(buf): the loop test itself
    if isinstance(leaf, tuple) and leaf[0] == "ucall" and leaf[1] in ts.index_fns and ts.index_fns[leaf[1]] == buf:
        return "R-enum"
    if isinstance(leaf, tuple) and leaf[0] == "pick" and leaf[1] == cu(0):
        if all(ex.ivar_bounds.get(e, {}).get("array") == ("self", buf) for e in leaf[2]):
            return "R-enum"
    if isinstance(leaf, tuple) and leaf[0] == "%" and isinstance(leaf[2], tuple) and leaf[2][0] == "pre" and (leaf[2][1].count(".") == 1 and leaf[2][1].split(".")[-1] in ts.len_fields):
        return "R-mod"
    if isinstance(leaf, tuple) and leaf[0] == "+" and leaf[2] == cu(1) and leaf[1][0] == "pre":
        f = leaf[1][1].split(".", 1)[1]
        if f in ts.cursors and any(typestate.has_fact(conds, ("<", leaf, ("pre", "self." + p))) or typestate.has_fact(facts, ("<", leaf, ("pre", "self." + p))) for p in ts.len_fields):
            return "R-cursor"
    return None


def le_len(leaf, conds, ts, ex, facts):
    """is `leaf` <= len(buffer) = P ?"""
    if is_const(leaf) and leaf[2] == 0:
        return "R-const0"
    if isinstance(leaf, tuple) and leaf[0] == "pre" and leaf[1].startswith("self."):
        f = leaf[1].split(".", 1)[1]
        if f in ts.cursors:
            return "R-cursor"
        if f in ts.counters and ts.counters[f][1] == "P":
            return "R-counter"
    if isinstance(leaf, tuple) and leaf[0] == "+" and leaf[2] == cu(1) and leaf[1][0] == "pre":
        f = leaf[1][1].split(".", 1)[1]
        for p in ts.len_fields:
            pp = ("pre", "self." + p)
            if f in ts.counters and (typestate.has_fact(conds, ("<", leaf[1], pp)) or typestate.has_fact(conds, ("<=", pp, leaf[1]), want=False)):
                return "R-counter-inc"
            if f in ts.cursors:
                return "R-cursor"
    if isinstance(leaf, tuple) and leaf[0] == "len" and buffer_of_len(leaf) in ts.buffers:
        return "R-len"   # the length of a window buffer of this struct (all of them have length period)
    return None


def discharge(site, ts, ex):
    """-> (rule or None, explanation)"""
    ops = site["operands"]
    facts = site["facts"]
    if site["what"] == "assert":
        kind = site["kind"]
        if kind == "BoundsCheck":
            buf = buffer_of_len(ops.get("len"))
            if buf is None or buf not in ts.buffers or not ts.len_fields:
                return None, "indexed object %s is not a window buffer with the invariant len = period" % show(ops.get("len"))
            rules = set()
            for conds, leaf in leaves(simp(ops["index"], facts)):
                r = index_ok(leaf, conds, ts, buf, ex, facts)
                if r is None:
                    return None, "index %s is not provably < len(%s)" % (show(leaf)[:80], buf)
                rules.add(r)
            return "+".join(sorted(rules)), ""
        if kind == "Overflow" and site.get("op") in ("Add", "Mul", "Sub") and is_const(ops.get("a")) and is_const(ops.get("b")):
            x, y = ops["a"][2], ops["b"][2]
            v = {"Add": x + y, "Mul": x * y, "Sub": x - y}[site["op"]]
            lo_, hi_ = {"u8": (0, 2 ** 8 - 1), "u16": (0, 2 ** 16 - 1), "u32": (0, 2 ** 32 - 1), "u64": (0, 2 ** 64 - 1), "usize": (0, 2 ** 32 - 1),
                        "i8": (-2 ** 7, 2 ** 7 - 1), "i16": (-2 ** 15, 2 ** 15 - 1), "i32": (-2 ** 31, 2 ** 31 - 1), "i64": (-2 ** 63, 2 ** 63 - 1),
                        "isize": (-2 ** 31, 2 ** 31 - 1)}.get(str(site.get("ty")), (0, 127))   # (usize/isize: the narrowest supported target; unknown type: i8)
            if lo_ <= v <= hi_:
                return "R-const-arith", ""
            return None, "constant arithmetic %s %s %s overflows" % (x, site["op"], y)
        if kind == "Overflow" and site.get("op") in ("Add", "Sub") and isinstance(ops.get("a"), tuple) and ops["a"][0] == "pre" \
                and ops["a"][1].startswith("self.") and (ops["a"][1].count(".") == 1 and ops["a"][1].split(".")[-1] in ts.len_fields) and ts.buffers and ops.get("b") == cu(1):
            # a Box<[f64]> of length period exists: 1 <= period <= isize::MAX / 8
            return ("R-period-inc (period + 1 <= isize::MAX)" if site["op"] == "Add" else "R-period-dec (period >= 1)"), ""
        if kind == "Overflow" and site.get("op") == "Add" and isinstance(ops.get("a"), tuple) and ops["a"][0] == "ivar" and ops.get("b") == cu(1):
            bnd = ex.ivar_bounds.get(ops["a"])
            if bnd is not None:
                return "R-ivar-inc (i < bound inside the loop, so i + 1 <= bound does not overflow)", ""
        if kind == "Overflow" and site.get("op") == "Add" and isinstance(ops.get("b"), tuple) and ops["b"][0] == "gamma" \
                and {ops["b"][2], ops["b"][3]} == {cu(0), cu(1)} and isinstance(ops["b"][1], tuple):
            # n + usize::from(c): + 0 cannot overflow; + 1 happens exactly when c holds (resp. does not hold)
            one_when = ops["b"][2] == cu(1)
            a_, pol_ = lit(ops["b"][1])
            f2 = dict(facts)
            f2[a_] = (pol_ == one_when)
            s2 = dict(site)
            s2["operands"] = dict(ops, b=cu(1))
            s2["facts"] = f2
            return discharge(s2, ts, ex)
        if kind == "Overflow" and site.get("op") == "Add":
            a, b = ops.get("a"), ops.get("b")
            if b != cu(1) or not (isinstance(a, tuple) and a[0] == "pre" and a[1].startswith("self.")):
                return None, "checked addition %s + %s is not a cursor/counter increment" % (show(a)[:60], show(b)[:30])
            f = a[1].split(".", 1)[1]
            if f in ts.cursors:
                return "R-cursor-inc", ""
            if f in ts.counters:
                pf, bound = ts.counters[f]
                pp = ("pre", "self." + pf)
                if typestate.has_fact(facts, ("<", a, pp)) or typestate.has_fact(facts, ("<=", pp, a), want=False):
                    return "R-counter-inc", ""
                if bound == "P+1" and (typestate.has_fact(facts, ("<", pp, a), want=False) or typestate.has_fact(facts, ("<=", a, pp))):
                    return "R-counter-inc(P+1; a Box<[f64]> of length P exists, so P < usize::MAX)", ""
                if bound == "P":
                    # the counter invariant n <= period holds at every call boundary (typestate), and a Box<[f64]> of length period exists,
                    # so period <= isize::MAX / 8 and n + 1 cannot overflow whether or not this increment is stored
                    return "R-counter-le-period (n <= period < usize::MAX)", ""
                return None, "`%s + 1` is not dominated by the guard `%s < %s`" % (f, f, pf)
            return None, "`%s + 1`: `%s` is neither a cursor nor a counter" % (f, f)
        if kind in ("RemainderByZero", "DivisionByZero"):
            # the assert's condition is `divisor == 0` (expected false); the message operand is the dividend
            c = ops.get("cond")
            d = None
            if isinstance(c, tuple) and c[0] == "==" :
                d = c[1] if c[2] == cu(0) else (c[2] if c[1] == cu(0) else None)
            if isinstance(d, tuple) and d[0] == "pre" and d[1].startswith("self.") and (d[1].count(".") == 1 and d[1].split(".")[-1] in ts.len_fields):
                return "R-div-period", ""
            if buffer_of_len(d) in ts.buffers and ts.len_fields:
                return "R-div-len (len(buffer) = period >= 1)", ""
            return None, "integer division/remainder by %s, not provably non-zero" % show(d if d is not None else c)[:60]
        if kind in ("MisalignedPointerDereference", "NullPointerDereference") and NO_UNSAFE[0]:
            return "R-safe-reference (compiler-inserted UB check on a reference / Box pointer; cannot fail in a crate without `unsafe`, which C05-S1 enforces)", ""
        return None, "Assert %s has no discharge rule" % kind
    if site["what"] == "slice-index":
        buf = ops["array"][1] if len(ops["array"]) == 2 and ops["array"][0] == "self" else None
        if buf not in ts.buffers:
            return None, "slice of something that is not a window buffer"
        start, end = simp(ops["start"], facts), simp(ops["end"], facts)
        rules = set()
        for conds, leaf in leaves(end):
            r = le_len(leaf, conds, ts, ex, facts)
            if r is None:
                return None, "slice end %s is not provably <= len(%s)" % (show(leaf)[:80], buf)
            rules.add(r)
        upper = ops.get("upper")
        if upper is not None:
            # split_at(mid) of the sub-slice [start, upper): needs mid <= upper, not only mid <= len
            upper = simp(upper, facts)
            ok_up = upper == end or (isinstance(upper, tuple) and upper[0] == "len" and buffer_of_len(upper) == buf) \
                or (upper[0] == "pre" and (upper[1].count(".") == 1 and upper[1].split(".")[-1] in ts.len_fields))
            if not ok_up and ts.lockstep:
                c, n = ts.lockstep
                for lab, (fn, r) in ts.methods.items():
                    if lab == site["fn"] and end in (r["heap"].get("self." + c), ("pre", "self." + c)) and upper in (r["heap"].get("self." + n), ("pre", "self." + n)) \
                            and (end == r["heap"].get("self." + c)) == (upper == r["heap"].get("self." + n)):
                        ok_up = True
            if not ok_up:
                return None, "split point %s is not provably <= the length %s of the slice being split" % (show(end)[:60], show(upper)[:60])
            rules.add("R-split-within")
        if start == cu(0):
            return "R-slice-to(" + "+".join(sorted(rules)) + ")", ""
        # start > 0: need start <= end. lockstep rule
        if ts.lockstep:
            c, n = ts.lockstep
            fn_r = None
            for lab, (fn, r) in ts.methods.items():
                if lab == site["fn"]:
                    fn_r = r
            if fn_r is not None and start == fn_r["heap"].get("self." + c) and end == fn_r["heap"].get("self." + n):
                return "R-lockstep", ""
        return None, "slice start %s is not provably <= end %s" % (show(start)[:60], show(end)[:60])
    return None, "unknown site kind"


def contradicts_invariants(facts, ts):
    """does the set of branch facts contradict the typestate invariants of the struct (cursor < period, counter <= period,
    len(buffer) = period — the latter already rewritten away, leaving x == x)?  Returns a description or None."""
    if not ts.len_fields:
        return None
    pp = ("pre", "self." + list(ts.len_fields)[0])
    curs = {("pre", "self." + c) for c in ts.cursors}
    cnts = {("pre", "self." + n) for n, (pf, bd) in ts.counters.items() if bd == "P"}
    lock = None
    if getattr(ts, "lockstep", None):
        lock = (("pre", "self." + ts.lockstep[0]), ("pre", "self." + ts.lockstep[1]))
    for a, v in facts.items():
        if not isinstance(a, tuple):
            continue
        if lock and ((a[0] == "<=" and a[1] == lock[0] and a[2] == lock[1] and v is False) or (a[0] == "<" and a[1] == lock[1] and a[2] == lock[0] and v is True)):
            return "cursor <= counter (lockstep: while warming up they are equal, afterwards the counter is the period)"
        if a[0] == "==" and a[1] == a[2] == pp and v is False:
            return "len(buffer) == period cannot be false"
        if a[0] == "<" and a[1] in curs and a[2] == pp and v is False:
            return "cursor < period"
        if a[0] == "<=" and a[1] == pp and a[2] in curs and v is True:
            return "cursor < period"
        if a[0] == "<=" and a[1] in cnts | curs and a[2] == pp and v is False:
            return "counter <= period"
        if a[0] == "<" and a[1] == pp and a[2] in cnts | curs and v is True:
            return "counter <= period"
    return None


def _bare_env():
    """nothing assumed: every unknown is any f64 including NaN, and a failed comparison teaches nothing about a NaN-able operand"""
    import signs
    e = signs.Env({}, {})
    e.nan_aware = True
    return e


def locally_false(facts):
    """a branch fact `x < k` / `k < x` (k a constant) that the sign analysis of the expression x itself refutes, with nothing assumed
    about inputs or state (every unknown is "any f64, maybe NaN"): |e| < 0.0, max(|a|, ..) < 0.0, ...  A NaN operand makes the
    comparison false, which is the non-panicking side of `debug_assert!(!(d < 0.0))`."""
    import signs
    for a, v in facts.items():
        if not (isinstance(a, tuple) and len(a) == 3 and a[0] in ("<", "<=") and v is True):
            continue
        x, k = a[1], a[2]
        try:
            if is_const(k) and not is_const(x) and k[1] == "f64":
                iv = signs.evaluate(x, _bare_env())
                if iv.lo > k[2] or (iv.lo == k[2] and (a[0] == "<" or iv.lo_open)):
                    return "the value compared is never %s %s" % ("below" if a[0] == "<" else "at or below", k[2])
            if is_const(x) and not is_const(k) and x[1] == "f64":
                iv = signs.evaluate(k, _bare_env())
                if iv.hi < x[2] or (iv.hi == x[2] and (a[0] == "<" or iv.hi_open)):
                    return "the value compared is never %s %s" % ("above" if a[0] == "<" else "at or above", x[2])
        except Exception:
            continue
    return None


def difference_refutes(facts, cond, ts):
    """Is the branch condition `cond` (together with the dominating `facts`) unsatisfiable over the unsigned integers, given the
    typestate invariants (0 <= cursor < period, counter <= period, period >= 1, lockstep cursor <= counter)?  Decided for
    conjunctions of difference constraints  v + a (<|<=) w + b  by a negative-cycle test (Bellman-Ford); conditionals inside the
    condition are split into their outcomes and every outcome must be refuted.  Anything else: not decided (None)."""
    from norm import Normalizer, assignments, cond_atoms, resolve, EQ_KEY
    if not ts.len_fields:
        return None
    pp = ("pre", "self." + list(ts.len_fields)[0])

    def lin(t):
        if is_const(t) and t[1] == "int":
            return ("Z", int(t[2]))
        if isinstance(t, tuple) and t and t[0] == "pre":
            return (t, 0)
        if isinstance(t, tuple) and len(t) == 3 and t[0] in ("+", "-") and is_const(t[2]) and t[2][1] == "int":
            l = lin(t[1])
            if l is None:
                return None
            return (l[0], l[1] + (int(t[2][2]) if t[0] == "+" else -int(t[2][2])))
        return None

    def edges_of(fs):
        E = []   # (x, y, c): x - y <= c

        def le(a, b, strict):
            la, lb = lin(a), lin(b)
            if la is None or lb is None:
                return False
            E.append((la[0], lb[0], lb[1] - la[1] - (1 if strict else 0)))
            return True
        for a, v in fs.items():
            if not (isinstance(a, tuple) and len(a) == 3 and a[0] in ("<", "<=", "==")):
                continue
            if a[0] == "==":
                if v:
                    le(a[1], a[2], False) and le(a[2], a[1], False)
                continue
            if v:
                le(a[1], a[2], a[0] == "<")
            else:
                le(a[2], a[1], a[0] == "<=")
        return E

    def refuted(fs):
        E = edges_of(fs)
        vs = {"Z", pp}
        for x, y, c in E:
            vs.add(x)
            vs.add(y)
        for v in list(vs):
            if v != "Z":
                E.append(("Z", v, 0))          # unsigned: v >= 0
        E.append(("Z", pp, -1))                # period >= 1
        for c_ in ts.cursors:
            E.append((("pre", "self." + c_), pp, -1))
        for n_, (pf_, bd_) in ts.counters.items():
            E.append((("pre", "self." + n_), pp, 0 if bd_ == "P" else 1))
        if getattr(ts, "lockstep", None):
            E.append((("pre", "self." + ts.lockstep[0]), ("pre", "self." + ts.lockstep[1]), 0))
        for x, y, c in E:
            vs.add(x)
            vs.add(y)
        dist = {v: 0 for v in vs}
        for _ in range(len(vs) + 1):
            changed = False
            for x, y, c in E:            # x <= y + c
                if dist[y] + c < dist[x]:
                    dist[x] = dist[y] + c
                    changed = True
            if not changed:
                return False
        return True                      # still relaxing after |V| rounds: a negative cycle, the constraints are contradictory
    N = Normalizer()
    atoms = cond_atoms(cond) if isinstance(cond, tuple) else []
    n = 0
    for asg in (assignments(atoms, N) if atoms else [{}]):
        n += 1
        if n > 64:
            return None
        asg.pop(EQ_KEY, None)
        c2 = resolve(cond, asg) if atoms else cond
        if not isinstance(c2, tuple) or cond_atoms(c2):
            return None
        a, pol = lit(c2)
        if not (isinstance(a, tuple) and len(a) == 3 and a[0] in ("<", "<=", "==")):
            return None
        fs = dict(facts)
        fs.update(asg)
        fs[a] = pol
        if not refuted(fs):
            return None
    return "the branch contradicts the ring invariants (difference constraints over cursor, counter and period)"


def infeasible_panic(f, blk, sites):
    """every recorded branch into the panicking region that contains block `blk` contradicts an invariant -> rule text, else None"""
    if not sites:
        return None

    def reach(src):
        seen, work = set(), [src]
        while work:
            x = work.pop()
            if x in seen or x not in f.block_by_id:
                continue
            seen.add(x)
            t = f.block_by_id[x]["term"]
            for key in ("target", "otherwise", "unwind"):
                if isinstance(t.get(key), int):
                    work.append(t[key])
            for v_, tg in t.get("targets", []) or []:
                work.append(int(tg))
        return seen
    rel = [(s_, ts_) for s_, ts_ in sites if blk in reach(s_["target"])]
    if not rel:
        return None
    reasons = set()
    from terms import lit
    import typestate as _ty
    for s_, ts_ in rel:
        facts = dict(s_["facts"])
        c = s_["operands"]["cond"]
        if isinstance(c, tuple) and c and c[0] != "gamma":
            a, pol = lit(c)
            facts[a] = pol
        why = contradicts_invariants(facts, ts_)
        if why is None:
            why = locally_false(facts)
        if why is None:
            try:
                why = difference_refutes(dict(s_["facts"]), c, ts_)
            except Exception:
                why = None
        if why is None:
            return None
        reasons.add(why)
    return "R-invariant-assert: the branch into the panic is infeasible (%s)" % "; ".join(sorted(reasons))


NO_UNSAFE = [False]


def apply(F, S, extra=None):
    tss, classes = typestate.all_structs(F)
    a_ = F.ast
    from rules_c05 import hand_written
    NO_UNSAFE[0] = (not any(b["user"] and hand_written(b["span"]) for b in a_["unsafe_blocks"]) and not any(f["unsafe"] and hand_written(f["span"]) for f in a_["fns"])
                    and not any(i["unsafe"] and hand_written(i["span"]) for i in a_["impls"]))
    counts = {"assert": 0, "slice-index": 0}
    visited = set()
    diverge = {}   # fn path -> [(diverge-edge site, typestate)]
    evaluated = 0
    loops = 0
    loops_seen = set()
    blocks_seen = set()
    evaluated_fns = []
    index_calls = set()   # (fn path, line, col) of the slice-index calls recorded as sites
    # P1 + slice-index part of P2: evaluate every hand-written, non-constructor function
    inds_ = set(F.indicators())

    def is_ctor(f_):
        """the constructor of an indicator (C11's subject); a helper that merely happens to be called `new` is not exempt"""
        return f_.name == "new" and not f_.d.get("impl_trait") and f_.self_struct in inds_
    for f in F.fns:
        if is_ctor(f) or f.kind == "Closure":
            continue
        if f.derived and not any(b["term"]["k"] == "assert" for b in f.blocks):
            continue  # derived code without checked operations: its callees are classified under P2
        if f.path in F.helpers():
            continue  # context-bound helper: inlined into (and its sites visited from) every caller
        s = f.self_struct
        ts = tss.get(s)
        cfg = symex.get_cfg(f)
        nloops = len(cfg.loops())
        try:
            if ts is not None and f.label in ts.methods:
                r = ts.methods[f.label][1]
            else:
                r = symex.evaluate(F, f)
            evaluated += 1
        except symex.HasLoop as e:
            S.bad("P3", "loop", f.label, "loop in %s is not driven by a Range / slice iterator (termination not shown): %s" % (f.label, e), loc(f.span))
            continue
        except symex.Unsupported as e:
            S.bad("P1", "unrecognised", f.label, "UNRECOGNISED idiom in %s: %s" % (f.label, e), loc(f.span))
            continue
        if f.trait_short in ("Next", "Reset") and not f.derived and F.local_trait(f.trait_short):
            S.ok("P0", f.label, blocks=len(f.blocks))
        ex = r["exec"]
        loops_seen |= ex.loops_seen
        blocks_seen |= ex.visited
        evaluated_fns.append(f)
        for site in ex.sites:
            if site["what"] == "diverge-edge":
                diverge.setdefault(site["path"], []).append((site, ts or typestate.StructTS("?")))
                continue
            if site["what"] not in ("assert", "slice-index"):
                continue  # f64 division / sqrt never panic (C08/C09 look at them)
            # the operand terms of a site are written over the state of the function being evaluated (`pre(self.x)` of ITS struct),
            # wherever the site's code lives: an associated helper of another type inlined here is judged by the caller's typestate
            ts_site = ts
            key = (site["path"], site["block"], site["what"], site["kind"], site["span"]["line"], site["span"]["col"])
            inst = "%s %s %s @%s" % (site["fn"], site["what"], site["kind"], site["span"]["line"])
            if ts_site is None:
                ts_site = typestate.StructTS("?")
            if False:
                pass
            else:
                rule, why = discharge(site, ts_site, ex)
            visited.add(key)
            if site["what"] == "slice-index":
                index_calls.add((site["path"], site["span"]["line"], site["span"]["col"]))
            counts[site["what"]] = counts.get(site["what"], 0) + 1
            rid = "P1" if site["what"] == "assert" else "P2"
            if rule:
                S.ok(rid, inst, discharged_by=rule, operands={k: show(v)[:80] if isinstance(v, tuple) else str(v) for k, v in site["operands"].items() if k not in ("cond", "expected")})
            else:
                sym = "%s:%s(%s)" % (site["fn"], site["kind"], ",".join(show(v)[:40] for k, v in sorted(site["operands"].items()) if k in ("index", "a", "start", "end")))
                S.bad(rid, "undischarged", sym, "%s in %s can fail: %s" % ("Assert " + site["kind"] if site["what"] == "assert" else "slice range", site["fn"], why), loc(site["span"]))
    # P3: every loop of an evaluated function (and of the helpers inlined into them) was summarised by some evaluation; a loop the
    # evaluator never reached (it pruned the way in) has no termination argument
    ctor_paths = [g.path for g in F.fns if is_ctor(g)]
    for f in evaluated_fns + [g for g in F.fns if (g.path in F.helpers() and not F.only_from_constructors(g.path))
                              or (g.kind == "Closure" and not any(g.path.startswith(c) for c in ctor_paths))]:
        for h in symex.get_cfg(f).loops():
            loops += 1
            if (f.path, h) in loops_seen:
                S.ok("P3", "%s bb%d" % (f.label, h), driver="Iterator::next on Range/slice::Iter/Enumerate (or a counted `i < bound` loop); the exit edge leaves the loop")
            else:
                S.bad("P3", "loop-unvisited", f.label, "the loop at bb%d of %s was never reached by the evaluation: no termination argument" % (h, f.label), loc(f.span))
    # P6: code the evaluator never executed has not been analysed by anyone — a closure that only drop glue or an unmodelled consumer
    # would call, a branch pruned by a fact that does not hold.  Every basic block of every hand-written non-constructor function and
    # closure must have been executed on some path of some evaluation (empty `unreachable` blocks of exhaustive matches excepted).
    ctor_paths_ = [g.path for g in F.fns if is_ctor(g)]
    failed_eval = {f_.path for f_ in F.fns} - {f_.path for f_ in evaluated_fns}
    for f in F.fns:
        if f.derived or is_ctor(f) or any(f.path.startswith(c + "::") for c in ctor_paths_):
            continue
        if f.path in F.helpers() and F.only_from_constructors(f.path):
            continue
        if f.kind != "Closure" and f.path not in F.helpers() and f.path in failed_eval:
            continue  # its evaluation failed: reported above as unrecognised
        missing = [b for b in f.blocks if (f.path, b["id"]) not in blocks_seen and not (b["term"]["k"] == "unreachable" and not b["stmts"]) and not _empty_arm(b)]
        if missing:
            S.bad("P6", "unvisited-code", f.label, "%d basic block(s) of %s (first: bb%d, %s) were never executed by the evaluation: their effects (state writes, panics, loops) are unknown" % (len(missing), f.label, missing[0]["id"], loc(missing[0]["term"]["span"]) if missing[0]["term"].get("span") else "?"), loc(f.span))
        else:
            S.ok("P6", f.label, blocks=len(f.blocks))
    # every Assert terminator of the crate outside `new` must have been visited by an evaluation (or sits in dead code)
    for f in F.fns:
        if is_ctor(f) and not f.derived:
            continue
        for b in f.blocks:
            t = b["term"]
            if t["k"] == "assert":
                hit = any(k[0] == f.path and k[1] == b["id"] for k in visited)
                if not hit and f.path in F.helpers() and F.only_from_constructors(f.path):
                    continue  # reachable from constructors only: C11's subject
                if not hit:
                    S.bad("P1", "unvisited-assert", "%s:%s" % (f.label, t["msg"]["kind"]), "Assert %s in %s was not reached by the evaluation (derived or infeasible code): cannot discharge" % (t["msg"]["kind"], f.label), loc(t["span"]))
    # P2: panicking / unknown callees reachable from anything but constructors
    roots = [f for f in F.fns if not is_ctor(f)]   # closures included: a panic inside a closure is a panic of the function that calls it
    defaults_ok = set()
    for f in F.fns:
        if f.name == "default" and f.trait_short == "Default" and not f.derived:
            try:
                r = symex.evaluate(F, f, symex.Policy(F, modular=False))
                if not any(x[0] == "panic" for x in subterms(r["ret"])) and not any(x[0] in ("unwrap", "gamma") for x in subterms(r["ret"])):
                    defaults_ok.add(f.path)
            except symex.Unsupported:
                pass
    for f in roots:
        for b, t in f.calls():
            cls, fam = callees.classify(t["callee"], F.d["crate"])
            name = callees.callee_name(t["callee"])
            inst = "%s -> %s" % (f.label, name)
            if cls in ("pure", "user", "local", "fmt"):
                continue
            if cls == "serde" and f.derived:
                continue
            if cls == "allocates" and fam == "nopanic" and (f.derived or any(f.path == c_ or f.path.startswith(c_ + "::") for c_ in ctor_paths) or (f.path in F.helpers() and F.only_from_constructors(f.path))):
                continue  # (constructors allocate their window: C11-K2; derived Clone copies it.  Anywhere else an allocation can fail / abort)
            if cls == "may_panic" and fam in ("slice-index",) and (f.path, t["span"]["line"], t["span"]["col"]) in index_calls:
                continue  # discharged above as a site (this very call was recorded by the evaluation)
            if cls == "may_panic" and fam == "unwrap" and f.path in defaults_ok:
                S.ok("P2", inst, discharged_by="R-default: the constructor, evaluated on the default constants, returns Ok on every path")
                continue
            if cls == "may_panic" and fam == "panic":
                bid = b["id"] if isinstance(b, dict) else b
                why = infeasible_panic(f, bid, diverge.get(f.path, []))
                if why:
                    S.ok("P2", "%s bb%s" % (inst, bid), discharged_by=why)
                    continue
            S.bad("P2", "panicking-callee", "%s->%s" % (f.label, callees.strip_turbofish(name)), "%s calls %s (%s/%s): it can panic or is unclassified, and no rule discharges it" % (f.label, name, cls, fam), loc(t["span"]))
    # P8: Debug is the builtin derive (field-by-field, cannot recurse into itself).  The fmt machinery is otherwise opaque here:
    # `write!(f, "{:?}", self)` inside a hand-written Debug is an unbounded recursion the call graph does not show
    for imp in F.impls:
        if imp.get("of_trait") and (imp.get("trait") or "").endswith("fmt::Debug"):
            st_ = (imp.get("self_ty") or {}).get("s", "?")
            dv_ = imp.get("derive") or {}
            if dv_.get("kind") == "Derive" and dv_.get("macro_krate") in ("core", "std"):
                S.ok("P8", "Debug for %s" % st_)
            else:
                S.bad("P8", "debug-handwritten", st_, "Debug for %s is not #[derive(Debug)]: what it does inside the fmt machinery (recursion through `{:?}`, panics) is not analysed" % st_, loc(imp["span"]))
    # P7: stack frames.  A by-value local array of a size fixed in the source lives in the frame of every call; a few kilobytes are
    # plain data, megabytes abort the process (stack overflow is not an unwinding panic, and certainly not a normal return)
    def arr_elems(ty_):
        if not isinstance(ty_, dict):
            return 0
        if ty_.get("k") == "array":
            try:
                n_ = int(ty_.get("len"))
            except (TypeError, ValueError):
                return 10 ** 9   # a length that is not a literal (const generic / expression): unknown, treated as huge
            return n_ * max(1, arr_elems(ty_.get("elem")))
        if ty_.get("k") == "tuple":
            return sum(arr_elems(x_) for x_ in (ty_.get("elems") or []))
        return 0 if ty_.get("k") in ("ref", "rawptr") else max([arr_elems(x_) for x_ in (ty_.get("args") or [])] + [0]) if ty_.get("k") == "adt" and "Box" not in str(ty_.get("path")) and "Vec" not in str(ty_.get("path")) else 0
    for f in F.fns:
        if f.derived:
            continue
        worst = max([arr_elems(l_["ty"]) for l_ in f.locals] + [0])
        if worst > 4096:
            S.bad("P7", "huge-frame", f.label, "%s keeps an array of %d elements in its stack frame: a call overflows the stack instead of returning" % (f.label, worst), loc(f.span))
        else:
            S.ok("P7", f.label, largest_local_array=worst)
    # P5: core::fmt panics ("Formatting argument out of range") when a run-time width / precision exceeds u16::MAX; the fmt
    # machinery is otherwise waved through as non-panicking, so run-time counts are not accepted anywhere in the crate
    for x in F.ast.get("fmt", []):
        ctx = "::".join(x["ctx"]["path"])
        dyn = [p for p in x["pieces"] if "lit" not in p and "Argument(" in str(p.get("opts", "")).split("alignment")[0]]
        if dyn:
            S.bad("P5", "fmt-runtime-count", ctx, "format string in %s takes its width / precision from a run-time value (`{:1$}`): formatting panics when it exceeds 65535" % ctx, loc(x["span"]))
        else:
            S.ok("P5", "%s @%s" % (ctx, x["span"].get("line")), placeholders=sum(1 for p in x["pieces"] if "lit" not in p))
    cyc = callgraph.has_cycle(F)
    if cyc:
        S.bad("P4", "recursion", cyc[0], "recursive call cycle: %s (termination not shown)" % " -> ".join(cyc))
    else:
        S.ok("P4", "call graph is acyclic", fns=len(F.fns))
    return counts, evaluated, loops, tss


def clippy_xref(repo, rep, F):
    """thorough tier: opt-in clippy lints as an independent inventory of panic sites; every site clippy flags must be
    one my own enumeration produced (completeness cross-check, never a verdict by itself)"""
    import json
    import os
    import subprocess
    from extract import CACHE, REPO
    crate = os.path.abspath(repo or REPO)
    env = dict(os.environ, CARGO_NET_OFFLINE="true", CARGO_TARGET_DIR=os.path.join(CACHE, "target-clippy"))
    env.pop("RUSTC_WORKSPACE_WRAPPER", None)
    cmd = ["cargo", "+nightly", "clippy", "--offline", "--lib", "--message-format=json", "--", "-A", "clippy::all",
           "-W", "clippy::indexing_slicing", "-W", "clippy::arithmetic_side_effects", "-W", "clippy::unwrap_used", "-W", "clippy::expect_used",
           "-W", "clippy::panic", "-W", "clippy::integer_division", "-W", "clippy::modulo_arithmetic"]
    # touch nothing in the crate: clippy only reads it
    subprocess.run(["cargo", "+nightly", "clean", "-p", "ta", "--offline"], cwd=crate, env=env, stdout=subprocess.PIPE, stderr=subprocess.PIPE)
    r = subprocess.run(cmd, cwd=crate, env=env, stdout=subprocess.PIPE, stderr=subprocess.PIPE, text=True)
    mine = {"index": set(), "arith": set(), "unwrap": set()}
    for f in F.fns:
        for b in f.blocks:
            t = b["term"]
            sp = t["span"]
            if t["k"] == "assert":
                k = "index" if t["msg"]["kind"] == "BoundsCheck" else "arith"
                mine[k].add((sp["file"], sp["line"]))
            if t["k"] == "call":
                cls, fam = callees.classify(t["callee"], F.d["crate"])
                if cls == "may_panic" and fam in ("slice-index", "index"):
                    mine["index"].add((sp["file"], sp["line"]))
                if cls == "may_panic" and fam == "unwrap":
                    mine["unwrap"].add((sp["file"], sp["line"]))
    kind_of = {"clippy::indexing_slicing": "index", "clippy::arithmetic_side_effects": "arith", "clippy::integer_division": "arith",
               "clippy::modulo_arithmetic": "arith", "clippy::unwrap_used": "unwrap", "clippy::expect_used": "unwrap", "clippy::panic": "unwrap"}
    seen = {}
    missing = []
    for ln in r.stdout.splitlines():
        try:
            m = json.loads(ln)
        except ValueError:
            continue
        if m.get("reason") != "compiler-message":
            continue
        msg = m["message"]
        code = (msg.get("code") or {}).get("code")
        sp = [x for x in msg.get("spans", []) if x.get("is_primary")]
        if code in kind_of and sp:
            key = (sp[0]["file_name"], sp[0]["line_start"])
            seen[code] = seen.get(code, 0) + 1
            if key not in mine[kind_of[code]] and not (code == "clippy::arithmetic_side_effects" and "f64" in msg.get("rendered", "")):
                missing.append((code, key))
    rep.extra["clippy_cross_reference"] = {"cmd": " ".join(cmd), "clippy_findings": seen, "own_inventory": {k: len(v) for k, v in mine.items()},
                                          "clippy_sites_not_in_own_inventory": [list(x) for x in missing][:20]}
    r2 = rep.rule("X1", "cross-reference: every site flagged by clippy's opt-in panic lints is in the checker's own panic-site inventory", 0)
    if missing:
        for code, key in missing[:5]:
            rep.violation("C12:inventory-gap:%s:%s" % (code, key[0]), "X1", "clippy (%s) flags %s:%s but the checker's panic-site inventory has no site there: the enumeration is incomplete" % (code, key[0], key[1]), where="%s:%s" % key)
    else:
        for code, n in sorted(seen.items()):
            r2.ok("%s: %d sites, all in the own inventory" % (code, n))


def run(tier, repo=None, tag="repo"):
    rep = Report("C12", tier)
    rep.rule("P0", "every hand-written Next / Reset body is evaluated (all blocks visited)", 62)
    rep.rule("P1", "every MIR Assert (bounds check, overflow check, division check) outside constructors is discharged by a cursor/counter typestate rule", 20)
    rep.rule("P2", "every panicking callee outside constructors is discharged (slice ranges by typestate, unwrap in default() by the constructor's term); none unclassified", 0)
    rep.rule("P3", "every loop is driven by Iterator::next of a Range / slice iterator (terminates)", 0)
    rep.rule("P4", "no recursion", 1)
    rep.rule("P6", "every basic block of every hand-written non-constructor function and closure is executed by some evaluation", 140)
    rep.rule("P8", "Debug of every crate type is the builtin derive", 25)
    rep.rule("P7", "no hand-written function keeps an array of more than 4096 elements in its stack frame", 150)
    rep.rule("P5", "no format string takes a width / precision from a run-time value (core::fmt panics above u16::MAX)", 20)
    configs = ["default", "serde"] + (["release"] if tier == "thorough" else [])
    from extract import ExtractError
    for cfg in list(configs):
        try:
            F = ir.load(cfg, repo, tag)
        except ExtractError:
            if cfg == "default":
                raise
            configs.remove(cfg)
            rep.notes.append("configuration %s does not build (reported by C06/C19)" % cfg)
            continue
        counts, evaluated, loops, tss = apply(F, Sink(rep))
        rep.functions.update(f.path for f in F.fns)
        rep.extra.setdefault("typestate", {})[cfg] = {s: {"buffers": list(t.buffers), "len_fields": list(t.len_fields), "cursors": t.cursors,
                                                          "counters": {k: list(v) for k, v in t.counters.items()}, "lockstep": t.lockstep, "index_fns": t.index_fns,
                                                          "unclassified": t.unclassified} for s, t in tss.items() if t.buffers}
    rep.configs = configs
    B = ir.load("default", BAD_FIXTURE, "bad")
    C = Sink(None, "C12")
    try:
        apply(B, C)
    except Exception as e:
        rep.notes.append("fixture analysis: %r" % (e,))
    rep.control("P3 loop not driven by an iterator", C.fired("loop", "BadDiv"))
    rep.control("P1 unguarded index arithmetic", C.fired("undischarged", "BadDiv"))
    if tier == "thorough":
        try:
            clippy_xref(repo, rep, ir.load("default", repo, tag))
        except Exception as e:  # the cross-reference is auxiliary
            rep.notes.append("clippy cross-reference unavailable: %r" % (e,))
    rep.explanation = ("dev-profile MIR (overflow checks and debug assertions on): all Assert terminators and panicking callees outside constructors are "
                       "enumerated by symbolically evaluating every hand-written function (every block is visited), each site is discharged with its operand "
                       "terms and dominating branch facts against the inferred cursor (c < period = len) / counter (n <= period) typestate; loops are "
                       "iterator-driven; the call graph is acyclic. Constructors are C11-K2.")
    rep.assumptions = ["state reached through new/default/clone/next/reset (a hostile deserialised state is out of scope)",
                       "allocation failure is not a panic of interest", "no hand-written unsafe (C05-S1)", "user getters do not panic"]
    return rep
