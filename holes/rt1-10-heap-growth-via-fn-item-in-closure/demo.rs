// C18: feeding further inputs causes no net growth in live heap memory beyond 256 + 64*period bytes;
// an indicator retains nothing of the stream beyond its window.
use std::alloc::{GlobalAlloc, Layout, System};
use std::sync::atomic::{AtomicIsize, Ordering};
use ta::indicators::WeightedMovingAverage;
use ta::Next;

struct Counting;
static LIVE: AtomicIsize = AtomicIsize::new(0);
unsafe impl GlobalAlloc for Counting {
    unsafe fn alloc(&self, l: Layout) -> *mut u8 {
        LIVE.fetch_add(l.size() as isize, Ordering::SeqCst);
        System.alloc(l)
    }
    unsafe fn dealloc(&self, p: *mut u8, l: Layout) {
        LIVE.fetch_sub(l.size() as isize, Ordering::SeqCst);
        System.dealloc(p, l)
    }
}
#[global_allocator]
static A: Counting = Counting;

fn main() {
    let period = 4usize;
    let mut wma = WeightedMovingAverage::new(period).unwrap();
    for i in 0..100 {
        wma.next(i as f64); // warm-up
    }
    let before = LIVE.load(Ordering::SeqCst);
    for i in 0..100_000u32 {
        let x = if i % 10_000 == 0 { 2.0e6 } else { (i % 17) as f64 };
        wma.next(x);
    }
    let growth = LIVE.load(Ordering::SeqCst) - before;
    let bound = (256 + 64 * period) as isize;
    if growth > bound {
        eprintln!("C18 violated: live heap grew by {} bytes while feeding 100000 inputs to WMA({}) (bound {} bytes)", growth, period, bound);
        std::process::exit(1);
    }
}
