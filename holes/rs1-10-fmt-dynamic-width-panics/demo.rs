// C12: Debug (like next, reset, clone, Display, serialization) returns normally for every valid configuration, large periods included.
use ta::indicators::ExponentialMovingAverage;

fn main() {
    let r = std::panic::catch_unwind(|| {
        let ema = ExponentialMovingAverage::new(100_000).unwrap(); // valid: EMA allocates no window
        let text = format!("{:?}", ema); // "Formatting argument out of range"
        assert!(text.contains("100000"));
    });
    if r.is_err() {
        eprintln!("C12 violated: Debug of ExponentialMovingAverage::new(100_000) panicked");
        std::process::exit(1);
    }
}
