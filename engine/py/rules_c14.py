"""C14 — outputs are covariant with the price unit (scaling clause) by dimension inference;
Maximum(x) = -Minimum(-x) by mirror isomorphism of the two implementations."""
from fractions import Fraction

import invariants
import ir
import symex
from infra import BAD_FIXTURE, Report, Sink, loc
from norm import Normalizer
from terms import CMP, is_const, show, subterms
import math

BAR = ("ref", ("a0",), None)
POLY = "poly"
PRICE = (Fraction(1), Fraction(0))
VOL = (Fraction(0), Fraction(1))
ZERO = (Fraction(0), Fraction(0))

EXPECTED = {
    "SimpleMovingAverage": PRICE, "ExponentialMovingAverage": PRICE, "WeightedMovingAverage": PRICE, "Minimum": PRICE, "Maximum": PRICE,
    "StandardDeviation": PRICE, "MeanAbsoluteDeviation": PRICE, "TrueRange": PRICE, "AverageTrueRange": PRICE,
    "MovingAverageConvergenceDivergence": {"macd": PRICE, "signal": PRICE, "histogram": PRICE},
    "BollingerBands": {"average": PRICE, "upper": PRICE, "lower": PRICE}, "KeltnerChannel": {"average": PRICE, "upper": PRICE, "lower": PRICE},
    "ChandelierExit": {"long": PRICE, "short": PRICE},
    "FastStochastic": ZERO, "SlowStochastic": ZERO, "RateOfChange": ZERO, "EfficiencyRatio": ZERO,
    "PercentagePriceOscillator": {"ppo": ZERO, "signal": ZERO, "histogram": ZERO}, "CommodityChannelIndex": ZERO, "MoneyFlowIndex": ZERO,
    "OnBalanceVolume": VOL,
}
EXCLUDED = {"RelativeStrengthIndex": "fixed 0.1 seeds (excluded by the property itself)"}


def dstr(d):
    if d is None:
        return "undetermined"
    if d == POLY:
        return "any"
    if isinstance(d, tuple) and d and d[0] == "var":
        return "?"
    return "price^%s*volume^%s" % (d[0], d[1]) if d[1] != 0 else ("price^%s" % d[0] if d[0] != 0 else "dimensionless")


class Unknown(Exception):
    pass


class LF:
    """linear form  c + sum coef_i * var_i  over Q^2 (price, volume)"""
    __slots__ = ("c", "t")

    def __init__(self, c=ZERO, t=None):
        self.c = c
        self.t = {k: v for k, v in (t or {}).items() if v != 0}

    def add(self, o, k=1):
        t = dict(self.t)
        for v, cf_ in o.t.items():
            t[v] = t.get(v, 0) + k * cf_
        return LF((self.c[0] + k * o.c[0], self.c[1] + k * o.c[1]), t)

    def scale(self, k):
        return LF((self.c[0] * k, self.c[1] * k), {v: c * k for v, c in self.t.items()})

    def concrete(self):
        return not self.t

    def key(self):
        return (self.c, tuple(sorted(self.t.items())))


def lf(d):
    return LF(d)


class Deg:
    def __init__(self):
        self.sol = {}         # var -> LF
        self.conflicts = []
        self.progress = False

    def resolve(self, d):
        if d == POLY:
            return d
        for _ in range(50):
            hit = [v for v in d.t if v in self.sol]
            if not hit:
                return d
            v = hit[0]
            c = d.t[v]
            t = dict(d.t)
            del t[v]
            d = LF(d.c, t).add(self.sol[v], c)
        return d

    def concrete(self, d):
        d = self.resolve(d)
        if d == POLY:
            return POLY
        return d.c if d.concrete() else None

    def unify(self, a, b, what, la=None, lb=None):
        if a == POLY:
            return b
        if b == POLY:
            return a
        a, b = self.resolve(a), self.resolve(b)
        diff = a.add(b, -1)
        if diff.concrete():
            if diff.c != ZERO:
                lit_ = None
                if la is not None and a.concrete() and a.c == ZERO:
                    lit_ = (la, b.c if b.concrete() else None)
                elif lb is not None and b.concrete() and b.c == ZERO:
                    lit_ = (lb, a.c if a.concrete() else None)
                self.conflicts.append((what, a.c if a.concrete() else None, b.c if b.concrete() else None, lit_))
                return b if (la is not None) else a
            return a
        v = sorted(diff.t)[0]
        c = diff.t[v]
        rest = dict(diff.t)
        del rest[v]
        self.sol[v] = LF(diff.c, rest).scale(Fraction(-1) / c)
        self.progress = True
        return self.resolve(a)

    def deg(self, t):
        """-> (degree LF or POLY, literal-or-None)"""
        h = t[0]
        if h == "c":
            if t[1] == "f64":
                v = t[2]
                if v == 0 or math.isinf(v) or math.isnan(v):
                    return POLY, None
                return lf(ZERO), v
            return lf(ZERO), None
        if h == "arg":
            return (lf(PRICE) if t[1] == "a0" else lf(ZERO)), None
        if h == "get":
            return lf(VOL if t[1] == "volume" else PRICE), None
        if h == "pre":
            return LF(ZERO, {t[1]: Fraction(1)}), None
        if h in ("+", "-"):
            (a, la), (b, lb) = self.deg(t[1]), self.deg(t[2])
            return self.unify(a, b, "operands of `%s` in %s" % (h, show(t)[:90]), la, lb), None
        if h in ("*", "/"):
            (a, _), (b, _) = self.deg(t[1]), self.deg(t[2])
            if a == POLY or b == POLY:
                return POLY, None
            return a.add(b, 1 if h == "*" else -1), None
        if h in ("neg", "abs", "ref_to"):
            return self.deg(t[1])[0], None
        if h == "sqrt":
            a = self.deg(t[1])[0]
            return (POLY if a == POLY else a.scale(Fraction(1, 2))), None
        if h in ("max", "min"):
            d, l = self.deg(t[1])
            for x in t[2:]:
                d2, l2 = self.deg(x)
                d = self.unify(d, d2, "operands of `%s`" % h, l, l2)
                l = None
            return d, None
        if h in ("i2f", "int_cast", "len", "ivar", "ovf", "discr", "sgnpos", "is_some", "not", "and"):
            if h in ("sgnpos", "not", "and"):
                for x in t[1:]:
                    if isinstance(x, tuple):
                        self.deg(x)
            return lf(ZERO), None
        if h in CMP:
            (a, la), (b, lb) = self.deg(t[1]), self.deg(t[2])
            self.unify(a, b, "comparison %s" % show(t)[:90], la, lb)
            return lf(ZERO), None
        if h == "gamma":
            self.deg(t[1])
            (a, la), (b, lb) = self.deg(t[2]), self.deg(t[3])
            return self.unify(a, b, "arms of a conditional", la, lb), None
        if h == "select":
            return self.deg(t[1])[0], None
        if h == "store":
            (a, la), (v, lv) = self.deg(t[1]), self.deg(t[3])
            return self.unify(a, v, "value stored into a window", la, lv), None
        if h == "fromelem":
            return self.deg(t[1])
        if h == "fill":
            (a, la), (v, lv) = self.deg(t[1]), self.deg(t[4])
            return self.unify(a, v, "fill value", la, lv), None
        if h == "accum":
            (a, la), (b, lb) = self.deg(t[1]), self.deg(t[2])
            return self.unify(a, b, "accumulator and its increment", la, lb), None
        if h == "pick":
            d, l = self.deg(t[1])
            for e in t[2]:
                d2, l2 = self.deg(e)
                d = self.unify(d, d2, "loop-selected value", l, l2)
                l = None
            if len(t) > 4:
                self.deg(t[4])
            return d, None
        if h == "lv":
            return LF(ZERO, {"lv:%s:%s" % (t[1], t[2]): Fraction(1)}), None
        if h == "adt":
            for n, v in t[3]:
                self.deg(v)
            return lf(ZERO), None
        if h in ("ref", "boxref", "bot", "unit", "constval", "fn", "partial"):
            return POLY, None
        raise Unknown()


def analyse(F, struct):
    a = invariants.analysis(F, struct, "positive")
    D = Deg()
    init = a.init_terms
    items = []

    def numeric_path(p):
        """only f64-carrying state takes part (integer cursors, counters, periods and flags are dimensionless by type)"""
        parts = p.split(".")[1:]
        s_ = struct
        ty = None
        for name in parts:
            if name.startswith("@") or name.isdigit():
                continue
            fs = F.struct_fields(s_) or []
            fd = [f for f in fs if f["name"] == name]
            if not fd:
                return True
            ty = fd[0]["ty"]
            if ty.get("k") == "adt" and ty.get("krate") == F.d["crate"]:
                s_ = ir.short(ty["path"])
        return ty is None or "f64" in ty["s"]

    for p, t in init.items():
        if isinstance(t, tuple) and t and t[0] == "adt":
            continue
        if not numeric_path(p):
            continue
        items.append(("init " + p, ("pre", p), t))
    outs = {}
    for lab, (fn, r) in a.methods.items():
        for k, t in r["heap"].items():
            if not k.startswith("self"):
                continue
            for p, leaf in invariants.flatten(t, k, {}).items():
                if isinstance(leaf, tuple) and leaf and leaf[0] == "adt":
                    continue
                if not numeric_path(p):
                    continue
                items.append(("%s: %s'" % (lab, p), ("pre", p), leaf))
        if fn.trait_short == "Next":
            ret = r["ret"]
            if isinstance(ret, tuple) and ret[0] == "adt":
                for n, v in ret[3]:
                    outs[(lab, n)] = v
            else:
                outs[(lab, "")] = ret
    unknown = []
    for what, lhs, rhs in items:
        ncon = len(D.conflicts)
        try:
            dl, _ = D.deg(lhs)
            dr, lr = D.deg(rhs)
            D.unify(dl, dr, what, None, lr)
        except Unknown:
            del D.conflicts[ncon:]
            unknown.append((what, lhs, rhs))
    out_deg = {}
    for key, t in outs.items():
        ncon = len(D.conflicts)
        try:
            out_deg[key] = D.concrete(D.deg(t)[0])
        except Unknown:
            del D.conflicts[ncon:]
            out_deg[key] = None
    seen = set()
    confl = []
    for c in D.conflicts:
        k = (c[0], c[1], c[2], c[3])
        if k not in seen:
            seen.add(k)
            confl.append(c)
    return a, D, out_deg, confl, unknown


def data_valued(t):
    """does the term carry an f64 data value (input, window slot, loop-carried float)?"""
    for x in subterms(t):
        if x[0] in ("select", "get", "lv", "ret", "accum") or x == ("arg", "a0") or (x[0] == "c" and x[1] == "f64"):
            return True
    return False


def unstrict(t):
    """identify `<=` with `<` on data-valued comparisons (see mirror)"""
    if not isinstance(t, tuple):
        return t
    if t and t[0] == "<=" and len(t) == 3 and (data_valued(t[1]) or data_valued(t[2])):
        return ("<", unstrict(t[1]), unstrict(t[2]))
    return tuple(unstrict(x) for x in t)


def mirror(t):
    """Maximum -> Minimum renaming on terms"""
    if isinstance(t, str):
        return (t.replace("Maximum", "Minimum").replace("maximum", "minimum").replace("find_max_index", "find_min_index").replace("max_index", "min_index"))
    if not isinstance(t, tuple):
        return t
    if t and t[0] == "c" and t[1] == "f64" and isinstance(t[2], float) and math.isinf(t[2]):
        return ("c", "f64", -t[2])
    if t and t[0] in ("<", "<=") and len(t) == 3 and (data_valued(t[1]) or data_valued(t[2])):
        # the order is reversed, the strictness kept (in the step `input <= cached` is not `input < cached`: it is certainly true
        # when the cached slot was just overwritten; where strictness is immaterial — the rescan — the caller applies `unstrict`)
        return (t[0], mirror(t[2]), mirror(t[1]))
    if t and t[0] == "get" and t[1] in ("high", "low"):
        return ("get", "low" if t[1] == "high" else "high", mirror(t[2]))
    return tuple(mirror(x) for x in t)


def apply(F, S):
    for struct in sorted(set(EXPECTED) | set(EXCLUDED)):
        if struct not in F.adt_by_short:
            S.bad("U3", "anchor", struct, "%s not found" % struct)
            continue
        try:
            a, D, out_deg, confl, unknown = analyse(F, struct)
        except symex.Unsupported as e:
            S.bad("U2", "unrecognised", struct, "UNRECOGNISED idiom: %s" % e)
            continue
        if struct in EXCLUDED:
            lits = [c for c in confl if c[3] is not None]
            others = [c for c in confl if c[3] is None]
            if lits and not others and all(abs(c[3][0] - 0.1) < 1e-12 for c in lits):
                S.ok("U4", "%s: the only inhomogeneity is the literal 0.1 used as %s" % (struct, dstr(lits[0][3][1])), excluded=EXCLUDED[struct], occurrences=len(lits))
            elif not confl:
                S.ok("U4", "%s is dimensionally homogeneous now (the exclusion is no longer needed)" % struct)
            else:
                c = (others or lits)[0]
                S.bad("U4", "unexpected-inhomogeneity", struct, "%s: besides its documented 0.1 seeds it mixes dimensions: %s (%s vs %s)" % (struct, c[0], dstr(c[1]), dstr(c[2])))
            continue
        bad = False
        for c in confl:
            bad = True
            if c[3] is not None:
                S.bad("U2", "inhomogeneous-constant", "%s:%s" % (struct, c[3][0]), "%s: the literal %s is used where a value of dimension %s is expected (%s): the output is not covariant with the price unit"
                      % (struct, c[3][0], dstr(c[3][1]), c[0]))
            else:
                S.bad("U2", "dimension-conflict", "%s:%s" % (struct, c[0][:60]), "%s: %s relate values of dimension %s and %s" % (struct, c[0], dstr(c[1]), dstr(c[2])))
        for what, lhs, rhs in unknown:
            bad = True
            S.bad("U2", "undetermined", "%s:%s" % (struct, what[:50]), "%s: dimension of %s cannot be determined (UNRECOGNISED operation in %s)" % (struct, what, show(rhs)[:80]))
        if bad:
            continue
        S.ok("U2", "%s: all +, -, comparisons, max, conditionals and stores are dimensionally consistent" % struct,
             fields={k: dstr(D.concrete(LF(ZERO, {k: Fraction(1)})) or ("var",)) for k in sorted(D.sol) if k.startswith("self")})
        exp = EXPECTED[struct]
        for (lab, fld), d in sorted(out_deg.items()):
            want = exp[fld] if isinstance(exp, dict) else exp
            if isinstance(exp, dict) and fld not in exp:
                S.bad("U3", "output-field", "%s.%s" % (struct, fld), "undocumented output field %s" % fld)
                continue
            if d == want or d == POLY:
                S.ok("U3", "%s%s : %s" % (lab, ("." + fld) if fld else "", dstr(want)))
            else:
                S.bad("U3", "output-dimension", "%s%s" % (lab, ("." + fld) if fld else ""), "%s%s has dimension %s; documented: %s" % (lab, ("." + fld) if fld else "", dstr(d) if d else "undetermined", dstr(want)))
    # U5 Maximum(x) = -Minimum(-x).  Semantic route: each of the two equals its own window-extreme specification (the rules of C01-I6/I7:
    # cached-extreme step, whole-window first-extreme rescan, +-inf fill), so both return the exact extreme of the same window and the
    # identity follows.  Only if that cannot be shown are the two implementations compared with each other, function by function.
    import rules_c01
    from infra import Sink as _Sink
    probe = _Sink(None, "C14")
    try:
        rules_c01.extreme_unit(F, probe, "Minimum", "U5")
        rules_c01.extreme_unit(F, probe, "Maximum", "U5", transform=mirror)
        spec_ok = not probe.bad_keys and probe.ok_count == 2
    except (symex.Unsupported, KeyError, IndexError, TypeError, AttributeError):
        spec_ok = False
    if spec_ok:
        S.ok("U5", "Minimum = window minimum and Maximum = window maximum (each against its own specification)", route="specification")
    N = Normalizer()
    for name in (() if spec_ok else ("next", "reset", "find_max_index", "new")):
        fmax = [f for f in F.fns_of("Maximum", name) if not f.derived]
        for fx in fmax:
            mname = name.replace("max", "min")
            cands = [f for f in F.fns_of("Minimum", mname) if not f.derived and f.next_input == fx.next_input and f.trait_short == fx.trait_short]
            if not cands:
                S.bad("U5", "mirror-missing", fx.label, "Minimum has no counterpart of %s" % fx.label)
                continue
            fn = cands[0]
            pol = symex.Policy(F, modular=True)
            try:
                rx, rn = symex.evaluate(F, fx, pol, canon=True), symex.evaluate(F, fn, pol, canon=True)
            except symex.Unsupported as e:
                S.bad("U5", "mirror-unrecognised", fx.label, "cannot compare %s with its Minimum counterpart: UNRECOGNISED idiom (%s)" % (fx.label, str(e)[:140]), loc(fx.span))
                continue
            mx = {"ret": unstrict(mirror(rx["ret"])), **{mirror(k): unstrict(mirror(v)) for k, v in rx["heap"].items()}}
            mn = {"ret": unstrict(rn["ret"]), **{k: unstrict(v) for k, v in rn["heap"].items()}}
            diffs = [k for k in set(mx) | set(mn) if N.key(mx.get(k)) != N.key(mn.get(k))]
            if diffs:
                k = sorted(diffs)[0]
                S.bad("U5", "mirror", fx.label, "%s is not the mirror image of %s under {<  <-> >, +inf <-> -inf, high <-> low}: `%s` is %s vs %s — Maximum(x) = -Minimum(-x) no longer holds branch for branch"
                      % (fx.label, fn.label, k, show(mx.get(k))[:110], show(mn.get(k))[:110]), loc(fx.span))
            else:
                S.ok("U5", "%s ~ %s" % (fx.label, fn.label))
    # U6 no f32 anywhere
    f32 = []
    for f in F.fns:
        for l in f.locals:
            if "f32" in l["ty"]["s"]:
                f32.append(f.label)
    for a_ in F.d["adts"]:
        for v in a_["variants"]:
            for fd in v["fields"]:
                if "f32" in fd["ty"]["s"]:
                    f32.append(a_["name"] + "." + fd["name"])
    if f32:
        S.bad("U6", "f32", f32[0], "f32 appears in %s: arithmetic is no longer all-f64" % ", ".join(sorted(set(f32))[:4]))
    else:
        S.ok("U6", "no f32 in any local, field or cast", fns=len(F.fns))


def shift_clause(F, rep):
    import fieldclass
    import rules_c01
    import rules_c09
    import shiftweight as sw
    from rules_c09 import _Map
    S = Sink(rep)
    # premises for the leaf indicators: weighted means with weights summing to one, selections, deviations from the window mean
    m = _Map(rep, {"I1": "U7", "I2": "U7", "I3": "U7", "I4": "U7", "I5": "U7", "I6": "U7", "I7": "U7", "L0": "U7", "N8": "U7"})
    try:
        rules_c01.apply(F, m)
        rules_c01.extreme_unit(F, m, "Minimum", "I6")
        rules_c01.extreme_unit(F, m, "Maximum", "I7", transform=mirror)
        rules_c09.apply(F, m)
    except (symex.Unsupported, KeyError, IndexError, TypeError, AttributeError) as e:
        Sink.bad(m, "U7", "unrecognised", "window-invariants", "UNRECOGNISED idiom while establishing the premises of the shift clause: %r" % (e,))
    classes, _ = fieldclass.classify_fields(F)
    outw = {"TrueRange": 0, "AverageTrueRange": 0, "FastStochastic": 0}
    for struct in sw.ORDER:
        want = sw.EXPECTED[struct]
        try:
            res = sw.analyse(F, struct, classes, outw)
        except symex.Unsupported as e:
            S.bad("U7", "unrecognised", struct, "UNRECOGNISED idiom while typing %s for the shift clause: %s" % (struct, e))
            continue
        if not res:
            S.bad("U7", "anchor", struct, "%s has no Next impl" % struct)
        for lab, (out, why) in sorted(res.items()):
            if out is None:
                S.bad("U7", "shift-state", lab, "%s: %s" % (lab, why))
                continue
            for fld, w in sorted(out.items()):
                exp = want[fld] if isinstance(want, dict) else want
                if isinstance(want, dict) and fld not in want:
                    continue
                name = "%s%s" % (lab, ("." + fld) if fld else "")
                if w == sw.TOP:
                    S.bad("U7", "not-shift-affine", name, "%s does not react to a shift of all prices by a plain multiple of the shift: %s" % (name, why))
                elif w != exp:
                    S.bad("U7", "shift-weight", name, "%s moves by %s x the shift; documented: %s" % (name, w, "moves with the prices" if exp else "unchanged"))
                else:
                    S.ok("U7", "%s: shift weight %s" % (name, w))


def run(tier, repo=None, tag="repo"):
    rep = Report("C14", tier)
    rep.rule("U2", "dimension inference: every +, -, comparison, max, conditional and store relates values of one dimension; non-zero literals only in dimensionless positions", 21)
    rep.rule("U3", "the inferred dimension of every output equals the documented one (price, dimensionless, volume)", 44)
    rep.rule("U4", "RSI's only inhomogeneity is its documented 0.1 seed (built-in positive control)", 1)
    rep.rule("U5", "Maximum(x) = -Minimum(-x): each equals its window-extreme specification (else: Maximum's functions are mirror images of Minimum's under {< <-> >, +inf <-> -inf, high <-> low})", 1)
    rep.rule("U6", "no f32 anywhere", 1)
    rep.rule("U7", "shift clause: adding a constant to every price moves SMA/EMA/WMA/Minimum/Maximum and the Bollinger/Keltner/Chandelier levels by it and leaves SD, MAD, TrueRange, ATR, MACD, FastStochastic unchanged (shift weights over modular terms; leaf indicators by their window invariants / EMA convexity)", 20)
    F = ir.load("default", repo, tag)
    apply(F, Sink(rep))
    shift_clause(F, rep)
    rep.configs = ["default"]
    rep.functions.update(f.path for f in F.fns if f.trait_short in ("Next", "Reset") or f.name == "new")
    rep.explanation = ("units-of-measure soundness: if every +, -, comparison, max and conditional relates values of equal degree in (price, volume), */ add/subtract degrees, "
                       "sqrt halves and the only constants in degree != 0 positions are 0 and +-inf, then scaling all prices by c > 0 scales every value of degree d by c^d "
                       "and leaves every comparison unchanged - exactly for powers of two. Degrees are inferred by unification over the fully inlined gated terms (per field path). "
                       "The shift clause is decided by shift weights over the modular terms of the composites, with the leaf indicators' behaviour taken from their window invariants (U7)")
    rep.assumptions = ["no overflow/underflow under the scaling", "shift clause: real arithmetic (the property grants rounding); the shift keeps prices positive"]
    return rep
