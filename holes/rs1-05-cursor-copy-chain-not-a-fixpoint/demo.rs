// C12: next() must return normally for every valid period and every input sequence, including NaN / infinities.
use ta::indicators::EfficiencyRatio;
use ta::Next;

fn main() {
    let r = std::panic::catch_unwind(|| {
        let mut er = EfficiencyRatio::new(3).unwrap();
        for i in 0..6 {
            er.next(10.0 + i as f64);
        }
        er.next(f64::INFINITY); // index out of bounds: the len is 3 but the index is 3
    });
    if r.is_err() {
        eprintln!("C12 violated: EfficiencyRatio::new(3).next(inf) panicked");
        std::process::exit(1);
    }
}
