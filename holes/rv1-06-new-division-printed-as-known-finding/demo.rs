// C07: RSI in [0, 100] whenever U + D != 0.   C03: RSI = 100*U/(U+D).
// On a strictly rising stream RSI(1) has U = last gain > 0 and D = 0, so U + D != 0 and RSI = 100 exactly (the KNOWN finding of C08 is
// about U + D == 0, i.e. a *flat* stream; nothing is flat here).
use ta::indicators::RelativeStrengthIndex;
use ta::Next;

fn main() {
    let mut rsi = RelativeStrengthIndex::new(1).unwrap();
    let mut bad = 0;
    let mut x = 100.0;
    for t in 0..60 {
        x *= 1.0031 + 0.0007 * ((t % 7) as f64); // strictly rising, about +0.5 % per step
        let got = rsi.next(x);
        let want = if t == 0 { 50.0 } else { 100.0 };
        if !(got >= 0.0 && got <= 100.0 + 1e-9) || (got - want).abs() > 1e-9 {
            bad += 1;
            if bad <= 3 {
                println!("t={} x={} RSI={} documented={}", t + 1, x, got, want);
            }
        }
    }
    if bad > 0 {
        println!("VIOLATED: {} of 60 outputs on a rising (not flat) stream", bad);
        std::process::exit(1);
    }
    println!("ok");
}
