// C12: next() must return normally for every valid period and arbitrarily many calls.
use ta::indicators::WeightedMovingAverage;
use ta::Next;

fn main() {
    let r = std::panic::catch_unwind(|| {
        let mut wma = WeightedMovingAverage::new(32).unwrap();
        for i in 0..100 {
            wma.next(i as f64);
        }
    });
    if r.is_err() {
        eprintln!("C12 violated: WeightedMovingAverage::new(32).next panicked (index out of bounds)");
        std::process::exit(1);
    }
}
