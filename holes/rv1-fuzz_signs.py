import sys, random, math
sys.path.insert(0, '/verif/engine/py')
import signs
from signs import Iv, Env, INF
from terms import mk_gamma, lit
random.seed(int(sys.argv[1]) if len(sys.argv) > 1 else 1)
ATOMS = [("arg", "a"), ("arg", "b"), ("arg", "c"), ("arg", "k")]
SPECIAL = [0.0, 1.0, -1.0, 0.5, 2.0, 100.0, -0.0]
def rnd_iv():
    ch = random.random()
    pts = [-INF, -100.0, -1.0, 0.0, 0.5, 1.0, 100.0, INF]
    lo = random.choice(pts); hi = random.choice(pts)
    if lo > hi: lo, hi = hi, lo
    lo_open = random.random() < 0.4 or lo == -INF
    hi_open = random.random() < 0.4 or hi == INF
    iv = Iv(lo, hi, lo_open, hi_open, nz=False)
    if iv.is_bot(): return rnd_iv()
    if random.random() < 0.2: iv.nz = True
    if iv.is_bot(): return rnd_iv()
    return iv
def sample(iv):
    for _ in range(100):
        r = random.random()
        if r < 0.3:
            cands = [iv.lo, iv.hi, 0.0, 1.0, -1.0, iv.lo + 1e-9 if math.isfinite(iv.lo) else 0.0, iv.hi - 1e-9 if math.isfinite(iv.hi) else 0.0]
            v = random.choice(cands)
        else:
            lo = max(iv.lo, -1e3); hi = min(iv.hi, 1e3)
            if lo > hi: lo, hi = (iv.lo, iv.lo + 10) if math.isfinite(iv.lo) else (iv.hi - 10, iv.hi)
            v = random.uniform(lo, hi)
        if not math.isfinite(v): continue
        if v < iv.lo or v > iv.hi: continue
        if v == iv.lo and iv.lo_open: continue
        if v == iv.hi and iv.hi_open: continue
        if iv.nz and v == 0: continue
        return v
    return None
def rnd_term(d):
    if d == 0 or random.random() < 0.25:
        if random.random() < 0.3:
            return ("c", "f64", random.choice(SPECIAL))
        return random.choice(ATOMS)
    op = random.choice(["+", "-", "*", "/", "neg", "abs", "sqrt", "max", "min", "gamma", "convex", "convex2", "sq"])
    if op in ("+", "-", "*", "/"):
        return (op, rnd_term(d-1), rnd_term(d-1))
    if op in ("neg", "abs", "sqrt"):
        return (op, rnd_term(d-1))
    if op in ("max", "min"):
        return (op, rnd_term(d-1), rnd_term(d-1))
    if op == "sq":
        t = rnd_term(d-1); return ("*", t, t)
    if op == "gamma":
        c = (random.choice(["<", "<=", "=="]), rnd_term(d-1), rnd_term(d-1))
        if random.random() < 0.3: c = ("not", c)
        return ("gamma", c, rnd_term(d-1), rnd_term(d-1))
    k = ("arg", "k")
    a, b = rnd_term(d-1), rnd_term(d-1)
    if op == "convex":
        return ("+", ("*", k, a), ("*", ("-", ("c", "f64", 1.0), k), b))
    return ("+", b, ("*", k, ("-", a, b)))
class NaNv(Exception): pass
def conc(t, v):
    h = t[0]
    if h == "c": return float(t[2])
    if h == "arg": return v[t]
    if h == "+": return conc(t[1], v) + conc(t[2], v)
    if h == "-": return conc(t[1], v) - conc(t[2], v)
    if h == "*": return conc(t[1], v) * conc(t[2], v)
    if h == "/":
        a, b = conc(t[1], v), conc(t[2], v)
        if b == 0:
            if a == 0 or a != a: return float("nan")
            return math.copysign(INF, a) * math.copysign(1.0, b)
        return a / b
    if h == "neg": return -conc(t[1], v)
    if h == "abs": return abs(conc(t[1], v))
    if h == "sqrt":
        a = conc(t[1], v)
        if a != a or a < 0: return float("nan")
        return math.sqrt(a)
    if h in ("max", "min"):
        a, b = conc(t[1], v), conc(t[2], v)
        if a != a: return b
        if b != b: return a
        return max(a, b) if h == "max" else min(a, b)
    if h == "gamma":
        return conc(t[2], v) if cond(t[1], v) else conc(t[3], v)
    raise Exception(h)
def cond(c, v):
    if c[0] == "not": return not cond(c[1], v)
    a, b = conc(c[1], v), conc(c[2], v)
    return {"<": a < b, "<=": a <= b, "==": a == b}[c[0]]
bad = 0
N = int(sys.argv[2]) if len(sys.argv) > 2 else 20000
for it in range(N):
    ivs = {a: rnd_iv() for a in ATOMS}
    ivs[("arg", "k")] = random.choice([Iv(0.0, 1.0), Iv(0.0, 1.0, True, False), rnd_iv()])
    t = rnd_term(random.randint(1, 3))
    env = Env(dict(ivs), {})
    try:
        r = signs.evaluate(t, env)
    except Exception as e:
        print("EXC", t, e); continue
    for _ in range(30):
        v = {}
        for a in ATOMS:
            v[a] = sample(ivs[a])
        if any(x is None for x in v.values()): break
        try:
            c = conc(t, v)
        except OverflowError:
            continue
        # restrict to the finite-input/no-nan-in-comparisons premise: skip when any comparison sees NaN? keep it simple
        problem = None
        if c != c:
            if not r.nan: problem = "NaN not flagged"
        elif r.is_bot():
            problem = "bot but value %r" % c
        else:
            if c < r.lo or c > r.hi: problem = "outside"
            elif c == r.lo and r.lo_open and math.isfinite(c): problem = "at open lo"
            elif c == r.hi and r.hi_open and math.isfinite(c): problem = "at open hi"
            elif c == 0 and r.nz: problem = "zero but nz"
        if problem:
            bad += 1
            print("UNSOUND:", problem, "\n  term", t, "\n  ivs", {a[1]: str(ivs[a]) for a in ATOMS}, "\n  vals", {a[1]: v[a] for a in ATOMS}, "\n  concrete", c, "abstract", r)
            break
    if bad >= 12: break
print("done, bad =", bad)
