"""Thorough tier extras: self-validation of the property's checker on the mutant / benign corpus and on the
seeded changes written by independent sub-agents. The results speak about the checker, not about /repo:
they are recorded in the evidence (and printed) but never produce a VIOLATION by themselves."""
import os
import threading

import seedcheck
import selfval


def extras(prop, rep):
    vs = [dict(v, props=[prop]) for v in selfval.load_variants() if prop in v["props"]]
    out = [None] * len(vs)
    queue = list(enumerate(vs))
    lock = threading.Lock()

    def worker(slot):
        while True:
            with lock:
                if not queue:
                    return
                i, v = queue.pop(0)
            out[i] = selfval.run_variant(v, 200 + slot)

    nthreads = min(12, max(1, len(vs)))
    ths = [threading.Thread(target=worker, args=(s,)) for s in range(nthreads)]
    for t in ths:
        t.start()
    for t in ths:
        t.join()
    selfval.drop_slots()
    summary = {"mutants": 0, "caught": 0, "missed": [], "benign": 0, "silent": 0, "false_alarms": [], "skipped": [], "errors": []}
    details = []
    for r in out:
        if r is None:
            continue
        if r.get("skipped"):
            summary["skipped"].append(r["name"])
            continue
        x = r["results"].get(prop, {})
        if x.get("error"):
            summary["errors"].append(r["name"])
            continue
        if r["kind"] == "mutant":
            summary["mutants"] += 1
            if x.get("rc") == 1 and x.get("keys"):
                summary["caught"] += 1
            else:
                summary["missed"].append(r["name"])
        else:
            summary["benign"] += 1
            if x.get("rc") == 0:
                summary["silent"] += 1
            else:
                summary["false_alarms"].append(r["name"])
        details.append({"variant": r["name"], "kind": r["kind"], "rc": x.get("rc"), "keys": x.get("keys", [])[:3]})
    seeds = []
    if os.path.isdir(seedcheck.SEEDED):
        for sid in sorted(os.listdir(seedcheck.SEEDED)):
            if sid.split("-")[0] != prop:
                continue
            res = seedcheck.run(sid, [prop])
            x = res.get(prop, {})
            seeds.append({"seed": sid, "caught_by_this_check": x.get("rc") == 1, "keys": x.get("keys", [])[:3]})
    # behaviour-preserving churn written by independent agents: this check must stay silent on every patch
    churn = {"patches": 0, "silent": 0, "alarms": []}
    try:
        import benigncheck
        from concurrent.futures import ThreadPoolExecutor
        work = []
        if os.path.isdir(benigncheck.CHURN):
            for g in sorted(os.listdir(benigncheck.CHURN)):
                gd = os.path.join(benigncheck.CHURN, g)
                if os.path.isdir(gd):
                    work += [(g, f) for f in sorted(os.listdir(gd)) if f.endswith(".diff")]
        with ThreadPoolExecutor(max_workers=12) as ex:
            res = list(ex.map(lambda gf: benigncheck.run_one(gf[0], gf[1], [prop]), work))
        for (g, f), r in zip(work, res):
            churn["patches"] += 1
            if not r:
                churn["silent"] += 1
            else:
                churn["alarms"].append({"patch": "%s/%s" % (g, f), "keys": (r.get(prop) or {}).get("keys", [])[:3] if isinstance(r.get(prop), dict) else str(r)[:120]})
    except Exception as e:  # the corpus run is about the checker; it never decides the property
        churn["error"] = repr(e)[:200]
    rep.extra["self_validation"] = {"summary": summary, "variants": details, "seeded_changes": seeds, "churn": churn,
                                    "note": "run on scratch copies outside /repo and /verif; static analysis only, the variants are never executed"}
    rep.notes.append("self-validation: %d/%d mutants caught, %d/%d benign silent, %d skipped; seeds of this property caught by this check: %d/%d"
                     % (summary["caught"], summary["mutants"], summary["silent"], summary["benign"], len(summary["skipped"]),
                        sum(1 for s in seeds if s["caught_by_this_check"]), len(seeds)))
    rep.notes.append("churn: %d/%d behaviour-preserving refactorings silent%s" % (churn["silent"], churn["patches"],
                     "" if not churn["alarms"] else " (alarms: %s)" % ", ".join(a["patch"] for a in churn["alarms"])))
    for a in churn["alarms"]:
        print("SELFVAL-FALSE-ALARM property=%s churn=%s" % (prop, a["patch"]))
    for m in summary["missed"]:
        print("SELFVAL-MISSED property=%s mutant=%s" % (prop, m))
    for m in summary["false_alarms"]:
        print("SELFVAL-FALSE-ALARM property=%s benign=%s" % (prop, m))
