// C01: WeightedMovingAverage(n) = sum_i i*x_i / (k(k+1)/2) over exactly the last k = min(t,n) inputs (newest heaviest), any sign.
use ta::indicators::WeightedMovingAverage;
use ta::Next;

fn main() {
    let xs = [-4.0, -2.0, 3.0, -5.0, -1.0, 2.0, -7.5];
    let n = 3usize;
    let mut wma = WeightedMovingAverage::new(n).unwrap();
    let mut bad = 0;
    for t in 0..xs.len() {
        let got = wma.next(xs[t]);
        let lo = (t + 1).saturating_sub(n);
        let w = &xs[lo..=t];
        let k = w.len() as f64;
        let num: f64 = w.iter().enumerate().map(|(i, v)| (i as f64 + 1.0) * v).sum();
        let want = num / (k * (k + 1.0) / 2.0);
        let ok = (got - want).abs() <= 1e-9;
        println!("t={} x={:>5} got={:>8.4} want={:>8.4} {}", t + 1, xs[t], got, want, if ok { "" } else { "MISMATCH" });
        if !ok { bad += 1; }
    }
    if bad > 0 {
        eprintln!("C01 violated: {} of {} WMA outputs differ from the weighted window mean", bad, xs.len());
        std::process::exit(1);
    }
}
