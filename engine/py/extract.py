"""Fact extraction: runs the ta-facts rustc driver over a crate directory
(by default /repo) under `cargo +nightly check`, with caching keyed on the
content hash of the analysed tree, and returns the parsed fact base.

The hash is recomputed on every invocation, so an edited tree is always
re-extracted; the per-property commands of one run share one extraction.
"""
import fcntl
import hashlib
import json
import os
import shutil
import subprocess
import sys
import time
import uuid

VERIF = os.path.dirname(os.path.dirname(os.path.dirname(os.path.abspath(__file__))))
CACHE = os.path.join(VERIF, ".cache")
DRIVER_DIR = os.path.join(VERIF, "engine", "driver")
DRIVER = os.path.join(DRIVER_DIR, "target", "debug", "ta-facts")
REPO = os.environ.get("TA_REPO", "/repo")

CONFIGS = {
    # name: (cargo feature args, profile args)
    "default": ([], []),
    "serde": (["--features", "serde"], []),
    "release": ([], ["--release"]),
}


class ExtractError(Exception):
    pass


def _sysroot():
    return subprocess.check_output(["rustc", "+nightly", "--print", "sysroot"], text=True).strip()


def ensure_driver():
    """Build the driver if its binary is missing or older than its sources."""
    srcs = [os.path.join(DRIVER_DIR, "Cargo.toml")] + [
        os.path.join(DRIVER_DIR, "src", f) for f in os.listdir(os.path.join(DRIVER_DIR, "src"))
    ]
    newest = max(os.path.getmtime(s) for s in srcs)
    if os.path.exists(DRIVER) and os.path.getmtime(DRIVER) >= newest:
        return
    os.makedirs(CACHE, exist_ok=True)
    with open(os.path.join(CACHE, "driver.lock"), "w") as lk:
        fcntl.flock(lk, fcntl.LOCK_EX)
        if os.path.exists(DRIVER) and os.path.getmtime(DRIVER) >= newest:
            return
        env = dict(os.environ, CARGO_NET_OFFLINE="true")
        r = subprocess.run(["cargo", "build", "--offline"], cwd=DRIVER_DIR, env=env,
                           stdout=subprocess.PIPE, stderr=subprocess.STDOUT, text=True)
        if r.returncode != 0:
            raise ExtractError("driver build failed:\n" + r.stdout[-4000:])


def tree_hash(crate_dir, config):
    h = hashlib.sha256()
    h.update(config.encode())
    paths = []
    # everything cargo / rustc can read from the package directory takes part in the key (sources, manifest, lock file, build script,
    # `.cargo/config.toml`, `rust-toolchain`, path dependencies kept in the tree, ...): all files except build output and VCS data
    for root, dirs, files in os.walk(crate_dir, followlinks=False):
        dirs[:] = sorted(d for d in dirs if not (root == crate_dir and d in ("target", ".git")))
        for f in sorted(files):
            paths.append(os.path.join(root, f))
    for p in paths:
        h.update(os.path.relpath(p, crate_dir).encode())
        h.update(b"\0")
        if os.path.islink(p):
            h.update(b"->" + os.readlink(p).encode())
        else:
            try:
                with open(p, "rb") as fh:
                    h.update(fh.read())
            except OSError:
                h.update(b"<unreadable>")
        h.update(b"\0")
    with open(DRIVER, "rb") as fh:
        h.update(hashlib.sha256(fh.read()).digest())
    return h.hexdigest()[:32]


KEEP_FACTS = 150          # most recently used fact files kept
SCRATCH_TTL_S = 3 * 3600  # target dirs of scratch trees (seeds, corpus variants) unused for this long are dropped
PERMANENT_TAGS = ("repo", "bad")


def prune():
    """Bound the size of .cache: old fact files and the target dirs of scratch trees (never those of /repo or the fixture)."""
    try:
        fdir = os.path.join(CACHE, "facts")
        files = sorted((os.path.join(fdir, f) for f in os.listdir(fdir) if not f.startswith("tmp-")), key=os.path.getmtime, reverse=True)
        for f in files[KEEP_FACTS:]:
            os.remove(f)
        now = time.time()
        for e in os.listdir(CACHE):
            if not e.startswith("target-"):
                continue
            body = e[len("target-"):]
            if body.startswith("witness-"):
                body = body[len("witness-"):]
            tag = body.rsplit("-", 1)[0] if body.rsplit("-", 1)[-1] in CONFIGS else body
            if tag in PERMANENT_TAGS:
                continue
            locks = [os.path.join(CACHE, x) for x in os.listdir(CACHE) if x.startswith("extract-%s-" % tag) and x.endswith(".lock")]
            last = max([os.path.getmtime(x) for x in locks] + [os.path.getmtime(os.path.join(CACHE, e))])
            if now - last > SCRATCH_TTL_S:
                shutil.rmtree(os.path.join(CACHE, e), ignore_errors=True)
                for x in locks:
                    try:
                        os.remove(x)
                    except OSError:
                        pass
    except OSError:
        pass


def drop_scratch(tag):
    """Remove the target dirs and lock files of one scratch tree (called by the seed / corpus runners when they are done with it)."""
    if tag in PERMANENT_TAGS or not os.path.isdir(CACHE):
        return
    for e in os.listdir(CACHE):
        if e.startswith("target-%s-" % tag) or e == "target-witness-%s" % tag or e == "witness-%s" % tag:
            shutil.rmtree(os.path.join(CACHE, e), ignore_errors=True)
        elif e.startswith("extract-%s-" % tag) and e.endswith(".lock"):
            try:
                os.remove(os.path.join(CACHE, e))
            except OSError:
                pass


def extract(config="default", crate_dir=None, use_cache=True, target_tag=None):
    """Return the fact base (dict) of `crate_dir` for `config`."""
    crate_dir = os.path.abspath(crate_dir or REPO)
    ensure_driver()
    feat, prof = CONFIGS[config]
    os.makedirs(os.path.join(CACHE, "facts"), exist_ok=True)
    key = tree_hash(crate_dir, config)
    cached = os.path.join(CACHE, "facts", "%s-%s.json" % (key, config))
    if use_cache and os.path.exists(cached):
        try:
            with open(cached) as fh:
                d = json.load(fh)
            d["_cache"] = "hit"
            d["_tree_hash"] = key
            try:
                os.utime(cached)
            except OSError:
                pass
            return d
        except (OSError, ValueError):
            pass  # evicted or half-written by a concurrent run: extract again
    prune()
    # one target dir per (crate dir identity, config): dependencies stay warm
    tag = target_tag or hashlib.sha256(crate_dir.encode()).hexdigest()[:10]
    tgt = os.path.join(CACHE, "target-%s-%s" % (tag, config))
    os.makedirs(tgt, exist_ok=True)
    with open(os.path.join(CACHE, "extract-%s-%s.lock" % (tag, config)), "w") as lk:
        fcntl.flock(lk, fcntl.LOCK_EX)
        if use_cache and os.path.exists(cached):
            try:
                with open(cached) as fh:
                    d = json.load(fh)
                d["_cache"] = "hit"
                d["_tree_hash"] = key
                return d
            except (OSError, ValueError):
                pass
        # cargo's freshness cache would skip the wrapper: drop the member's fingerprints
        for prof_dir in ("debug", "release"):
            fp = os.path.join(tgt, prof_dir, ".fingerprint")
            if os.path.isdir(fp):
                for e in os.listdir(fp):
                    if not any(e.startswith(p) for p in ("serde", "proc-macro2", "quote", "syn", "unicode-ident", "serde_derive", "serde_core")):
                        shutil.rmtree(os.path.join(fp, e), ignore_errors=True)
        nonce = uuid.uuid4().hex
        out = os.path.join(CACHE, "facts", "tmp-%s.json" % nonce)
        env = dict(os.environ)
        env.update({
            "CARGO_NET_OFFLINE": "true",
            "LD_LIBRARY_PATH": os.path.join(_sysroot(), "lib") + ":" + env.get("LD_LIBRARY_PATH", ""),
            "RUSTFLAGS": "-Zmir-opt-level=0 -Awarnings",
            "RUSTC_WORKSPACE_WRAPPER": DRIVER,
            "CARGO_TARGET_DIR": tgt,
            "TA_FACTS_OUT": out,
            "TA_FACTS_NONCE": nonce,
            "TA_FACTS_CONFIG": config,
        })
        env.pop("RUSTC_WRAPPER", None)
        cmd = ["cargo", "+nightly", "check", "--offline", "--lib"] + feat + prof
        t0 = time.time()
        r = subprocess.run(cmd, cwd=crate_dir, env=env, stdout=subprocess.PIPE,
                           stderr=subprocess.STDOUT, text=True)
        if r.returncode != 0:
            raise ExtractError("cargo check failed for %s [%s]:\n%s" % (crate_dir, config, r.stdout[-6000:]))
        if not os.path.exists(out):
            raise ExtractError("driver did not run (no fact file) for %s [%s]:\n%s" % (crate_dir, config, r.stdout[-2000:]))
        with open(out) as fh:
            d = json.load(fh)
        if d.get("nonce") != nonce:
            raise ExtractError("stale fact file (nonce mismatch)")
        d["_extract_s"] = round(time.time() - t0, 2)
        d["_cmd"] = " ".join(cmd)
        os.replace(out, cached)
        d["_cache"] = "miss"
        d["_tree_hash"] = key
        return d


if __name__ == "__main__":
    cfgs = sys.argv[1:] or ["default", "serde"]
    for c in cfgs:
        d = extract(c)
        print(c, d["_cache"], d["_tree_hash"], len(d["fns"]), "fns")
