"""Whole-crate call graph over resolved callees."""
import callees


def local_edges(F, f):
    """(callee Fn, span) for crate-local callees of f, incl. closures constructed in f"""
    out = []
    for b, t in f.calls():
        g = F.resolve_callee(t["callee"])
        if g is not None:
            out.append((g, t["span"]))
        else:
            for g in F.generic_candidates(t["callee"]):
                out.append((g, t["span"]))
    import json
    import re
    for b in f.blocks:
        for st in b["stmts"]:
            if st["k"] == "assign" and st["rv"]["k"] == "aggregate" and st["rv"].get("agg") == "closure":
                g = F.fn_by_path.get(st["rv"]["path"])
                if g is not None:
                    out.append((g, st["span"]))
        # crate functions used as *values* (`.map(Self::new)`, `fold(a, helper)`): whoever receives them may call them
        blobs = [(json.dumps(st_), st_.get("span")) for st_ in b["stmts"]]
        if b["term"]["k"] == "call":
            blobs.append((json.dumps(b["term"]["args"]), b["term"]["span"]))
        for blob, sp in blobs:
            for m in re.finditer(r'"fn": \{"path": "([^"]+)"', blob):
                g = F.fn_by_path.get(m.group(1))
                if g is not None:
                    out.append((g, sp))
    return out


def reach(F, roots):
    """-> {path: chain (list of labels from a root)}"""
    chains = {}
    work = []
    for r in roots:
        if r.path not in chains:
            chains[r.path] = [r.label]
            work.append(r)
    while work:
        f = work.pop()
        for g, sp in local_edges(F, f):
            if g.path not in chains:
                chains[g.path] = chains[f.path] + [g.label]
                work.append(g)
    return chains


def external_sites(F, roots):
    """all call sites to non-local callees reachable from roots: (fn, term, cls, fam, chain)"""
    chains = reach(F, roots)
    out = []
    for p, chain in chains.items():
        f = F.fn_by_path[p]
        for b, t in f.calls():
            cls, fam = callees.classify(t["callee"], F.d["crate"])
            if cls != "local":
                out.append((f, t, cls, fam, chain))
    return out, chains


def has_cycle(F):
    """recursion check: returns a cycle (list of labels) or None"""
    color = {}
    stack = []

    def dfs(f):
        color[f.path] = 1
        stack.append(f.label)
        for g, _ in local_edges(F, f):
            c = color.get(g.path, 0)
            if c == 1:
                return stack[stack.index(g.label):] + [g.label]
            if c == 0:
                r = dfs(g)
                if r:
                    return r
        stack.pop()
        color[f.path] = 2
        return None

    for f in F.fns:
        if color.get(f.path, 0) == 0:
            r = dfs(f)
            if r:
                return r
    return None
