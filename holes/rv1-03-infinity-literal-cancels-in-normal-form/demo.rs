// C03: PPO = 100*(EMA_fast - EMA_slow)/EMA_slow, signal = EMA(PPO), histogram = PPO - signal, on streams of positive prices,
//      within tau(t)*c*100.  (Also C09: histogram == ppo - signal; C15: PPO line = combination of standalone EMAs.)
use ta::indicators::{ExponentialMovingAverage, PercentagePriceOscillator};
use ta::Next;

fn main() {
    let mut ppo = PercentagePriceOscillator::new(12, 26, 9).unwrap();
    let (mut f, mut s, mut g) = (
        ExponentialMovingAverage::new(12).unwrap(),
        ExponentialMovingAverage::new(26).unwrap(),
        ExponentialMovingAverage::new(9).unwrap(),
    );
    let mut bad = 0;
    for t in 0..40 {
        // quiet positive prices with one spike (a bad tick / a split-unadjusted print)
        let x = if t == 20 { 100.0 } else { 10.0 + 0.1 * ((t % 5) as f64) };
        let o = ppo.next(x);
        let (fv, sv) = (f.next(x), s.next(x));
        let line = 100.0 * (fv - sv) / sv;
        let sig = g.next(line);
        let ok = (o.ppo - line).abs() <= 1e-9 && (o.signal - sig).abs() <= 1e-9 && o.histogram == o.ppo - o.signal;
        if !ok {
            bad += 1;
            if bad <= 4 {
                println!("t={} x={} ppo={} signal={} histogram={}   documented: ppo={} signal={}", t + 1, x, o.ppo, o.signal, o.histogram, line, sig);
            }
        }
    }
    if bad > 0 {
        println!("VIOLATED: {} outputs differ from the documented formula (NaN from the spike on, for ever)", bad);
        std::process::exit(1);
    }
    println!("ok");
}
