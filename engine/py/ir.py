"""Loader and accessors over the fact base."""
import re
from extract import extract


def short(path):
    """last path segment without generics: 'indicators::minimum::Minimum' -> 'Minimum'"""
    if path is None:
        return None
    p = re.sub(r"<.*>", "", path)
    return p.split("::")[-1]


class Fn:
    def __init__(self, d, facts):
        self.d = d
        self.facts = facts
        self.path = d["path"]
        self.name = d["name"]
        self.kind = d["kind"]
        self.span = d["span"]
        self.mir = d["mir"]
        self.impl_self = d.get("impl_self")
        self.impl_trait = d.get("impl_trait")
        self.impl_trait_args = d.get("impl_trait_args", [])
        # produced by a derive or a foreign macro; a `macro_rules!` of this crate expands to the crate's own, hand-written code
        dv = d.get("impl_derive")
        # (the `#[automatically_derived]` attribute alone proves nothing: anyone may write it on a hand-written impl)
        # ... and "expanded from a macro of some other crate" is not "a derive whose semantics the rules know": derived means the
        # expansion of one of the derive macros of core/std or serde_derive; a `macro_rules!` template of a dependency is ordinary code
        self.derived = bool(dv) and dv.get("kind") == "Derive" and dv.get("macro_krate") in ("core", "std", "serde_derive")
        self.blocks = [b for b in self.mir["blocks"] if not b["cleanup"]]
        self.block_by_id = {b["id"]: b for b in self.mir["blocks"]}
        self.locals = self.mir["locals"]
        self.arg_count = self.mir["arg_count"]

    @property
    def self_struct(self):
        if self.impl_self and self.impl_self.get("k") == "adt":
            return short(self.impl_self["path"])
        return None

    @property
    def is_ctor(self):
        """THE constructor of a type: an inherent associated function called `new` (not an inner fn, not a trait method)"""
        return self.name == "new" and not self.impl_trait and self.self_struct is not None and self.kind != "Closure"

    @property
    def trait_short(self):
        return short(self.impl_trait) if self.impl_trait else None

    @property
    def next_input(self):
        """for Next impls: 'f64' or '&T' etc."""
        if self.trait_short == "Next" and self.impl_trait_args:
            return self.impl_trait_args[0]["s"]
        return None

    @property
    def label(self):
        s = self.self_struct
        if s and self.impl_trait:
            targs = ",".join(a["s"] for a in self.impl_trait_args)
            return "%s::<%s%s>::%s" % (s, self.trait_short, ("<%s>" % targs) if targs else "", self.name)
        if s:
            return "%s::%s" % (s, self.name)
        return self.path

    def debug_names(self):
        """local index -> user variable name"""
        out = {}
        for dbg in self.mir["debug"]:
            p = dbg.get("place")
            if p and not p["proj"]:
                out[p["local"]] = dbg["name"]
        return out

    def succs(self, b):
        """normal (non-unwind) successors of block dict b"""
        t = b["term"]
        k = t["k"]
        if k == "goto":
            return [t["target"]]
        if k == "switch":
            return [x[1] for x in t["targets"]] + [t["otherwise"]]
        if k in ("call", "assert", "drop"):
            return [t["target"]] if t.get("target") is not None else []
        return []

    def calls(self):
        for b in self.blocks:
            if b["term"]["k"] == "call":
                yield b, b["term"]


class Facts:
    def __init__(self, d):
        self.d = d
        self.config = d.get("config")
        self.fns = [Fn(f, self) for f in d["fns"]]
        self.fn_by_path = {}
        for f in self.fns:
            self.fn_by_path.setdefault(f.path, f)
        self.adts = {a["path"]: a for a in d["adts"]}
        self.adt_by_short = {}
        for a in d["adts"]:
            self.adt_by_short.setdefault(a["name"], a)
        self.impls = d["impls"]
        self.ast = d["ast"]
        self._mark_getter_calls()
        self._resolve_sealed_defaults()

    def _mark_getter_calls(self):
        """`input.close()` on the caller's bar type is modelled as a pure read.  That is right for the price-getter traits only:
        crate traits all of whose methods (as implemented in this crate) take `&self` alone and return f64.  Any other crate
        trait method called on a type parameter (`S::next(&mut s, x)`, `R::reset(..)`) is NOT a getter."""
        by_trait = {}
        for f in self.fns:
            if f.impl_trait:
                by_trait.setdefault(f.impl_trait, []).append(f)
        self.getter_traits = set()
        for tr, fns in by_trait.items():
            if all(f.arg_count == 1 and f.locals[1]["ty"].get("k") == "ref" and not f.locals[1]["ty"].get("mut")
                   and f.locals[0]["ty"].get("s") == "f64" for f in fns):
                self.getter_traits.add(tr)
        for f in self.fns:
            for b in f.mir["blocks"]:
                t = b["term"]
                if t["k"] == "call":
                    c = t["callee"]
                    if c.get("local") and c.get("trait") and not c.get("resolved") and c["trait"] not in self.getter_traits:
                        c["not_getter"] = True

    def _resolve_sealed_defaults(self):
        """A call `<T as Tr>::m` on a type parameter, where the crate trait Tr has a blanket impl
        `impl<T: ..> Tr for T` (so no other impl can exist) and m is a provided method with a body in
        the crate, can only run that body: resolve it like a local call."""
        blanket = set()
        for i in self.impls:
            if i.get("of_trait") and i["self_ty"].get("k") == "param" and i.get("trait_krate") == self.d["crate"]:
                overridden = {it["name"] for it in i.get("items", [])}
                blanket.add((i["trait"], frozenset(overridden)))
        if not blanket:
            return
        for f in self.fns:
            for b in f.mir["blocks"]:
                t = b["term"]
                if t["k"] != "call":
                    continue
                c = t["callee"]
                if c.get("local") and c.get("trait") and not c.get("resolved") and (c.get("self_ty") or {}).get("k") == "param":
                    for tr, over in blanket:
                        if tr == c["trait"] and c["name"] not in over and c["path"] in self.fn_by_path:
                            c["resolved"] = c["path"]
                            c["resolved_args"] = c.get("path_args")
                            c["resolved_local"] = True
                            c["resolved_krate"] = self.d["crate"]
                            c["sealed_default"] = True

    # ---- inventory ----
    CONSUMER_RE = __import__("re").compile(r"iter::Iterator(>)?::(fold|sum|product|for_each|count|any|all|position|rposition|max_by|min_by|max_by_key|min_by_key|reduce|try_fold|try_for_each|find|find_map|last|nth)$|iter::traits::accum::(Sum|Product)")

    def loopy(self, f):
        """the function iterates: a CFG loop, or a call that consumes an iterator (an internal loop)"""
        k = ("loopy", f.path)
        c = self.__dict__.setdefault("_loopy", {})
        if k not in c:
            import callees
            import cfg as cfgmod
            v = cfgmod.Cfg(f).has_loop()
            if not v:
                for b, t in f.calls():
                    if self.CONSUMER_RE.search(callees.strip_all_turbofish(callees.callee_name(t["callee"])) or ""):
                        v = True
                        break
            c[k] = v
        return c[k]

    def helpers(self):
        """{path: set of caller paths} of context-bound helpers: functions that cannot be named from outside the crate, are not
        trait-impl methods or closures, have at least one crate-local call site and no loop.  The evaluator inlines them into
        every caller, so they are analysed in their callers' contexts (a guard around the call protects the helper's body)."""
        if getattr(self, "_helpers", None) is not None:
            return self._helpers
        import cfg as cfgmod
        callers = {}
        for f in self.fns:
            for b, t in f.calls():
                g = self.resolve_callee(t["callee"])
                if g is not None:
                    callers.setdefault(g.path, set()).add(f.path)
        # functions used as values (passed to an adaptor, stored): they can be called from contexts the call graph does not show
        import json
        import re as _re
        as_value = set()
        for f in self.fns:
            if not f.d.get("mir"):
                continue
            for b in f.mir["blocks"]:
                blobs = [json.dumps(st_) for st_ in b["stmts"]]
                if b["term"]["k"] == "call":
                    blobs.append(json.dumps(b["term"]["args"]))
                for blob in blobs:
                    for m in _re.finditer(r'"fn": \{"path": "([^"]+)"', blob):
                        as_value.add(m.group(1))
        out = {}
        for f in self.fns:
            if f.kind not in ("Fn", "AssocFn") or f.d.get("exported", True) or f.derived:
                continue  # (methods of a crate-private trait are not exported either: they qualify)
            if f.path in as_value:
                continue
            if f.path not in callers or not f.d.get("mir"):
                continue
            try:
                if self.loopy(f):
                    continue
            except Exception:
                continue
            out[f.path] = callers[f.path]
        self._helpers = out
        return out

    def only_from_constructors(self, path):
        """True if every transitive caller chain of the helper `path` starts in a constructor (`new`)"""
        hs = self.helpers()
        seen, work = set(), [path]
        while work:
            p = work.pop()
            if p in seen:
                continue
            seen.add(p)
            for c in hs.get(p, ()):  # callers
                f = self.fn_by_path.get(c)
                if f is None:
                    return False
                if c in hs:
                    work.append(c)
                elif not f.is_ctor:
                    return False
        return True

    def root_callers(self, path):
        """the functions at which the caller chains of a context-bound helper / closure start (the helper's own path if it is neither)"""
        hs = self.helpers()
        roots, seen, work = set(), set(), [path]
        while work:
            p = work.pop()
            if p in seen:
                continue
            seen.add(p)
            f = self.fn_by_path.get(p)
            if f is not None and f.kind == "Closure":
                work.append(f.d.get("parent") or "?")
            elif p in hs:
                work.extend(hs[p])
            else:
                roots.add(p)
        return roots

    def impls_of(self, trait_short, struct_short=None):
        out = []
        for i in self.impls:
            if i.get("of_trait") and short(i["trait"]) == trait_short:
                st = i["self_ty"]
                if st.get("k") == "adt" and (struct_short is None or short(st["path"]) == struct_short):
                    out.append(i)
        return out

    def local_trait(self, name):
        for t in self.d["traits"]:
            if short(t["path"]) == name:
                return t
        return None

    def indicators(self):
        """crate structs under indicators:: that implement the crate's Reset trait (sorted short names)"""
        names = set()
        for i in self.impls_of("Reset"):
            if i.get("trait_krate") == self.d["crate"]:
                names.add(short(i["self_ty"]["path"]))
        return sorted(names)

    def struct_fields(self, struct_short):
        a = self.adt_by_short.get(struct_short)
        if not a or a["kind"] != "Struct":
            return None
        return a["variants"][0]["fields"]

    def fns_of(self, struct_short, name=None, trait=None):
        out = []
        for f in self.fns:
            if f.self_struct == struct_short and (name is None or f.name == name):
                if trait is None or f.trait_short == trait or (trait == "" and not f.impl_trait):
                    out.append(f)
        return out

    def method(self, struct_short, name, trait=None, next_input=None):
        c = [f for f in self.fns_of(struct_short, name, trait) if next_input is None or f.next_input == next_input]
        return c[0] if c else None

    def resolve_callee(self, callee, subst=None):
        """Fn object of a crate-local callee (resolved through impls), else None.  `subst` maps the type parameters of the
        function being evaluated to the types it was instantiated with (for calls that are generic in the caller)."""
        p = callee.get("resolved") if callee.get("resolved_local") else None
        if p is None and callee.get("local"):
            p = callee.get("path")
        if p is None:
            return None
        f = self.fn_by_path.get(p)
        if f is not None:
            return f
        cands = self.generic_candidates(callee)
        if len(cands) == 1:
            return cands[0]
        if not cands:
            return None
        want = []
        for a in (callee.get("targs") or [])[1:]:
            if a.get("k") == "param" and subst and a.get("name") in subst:
                a = subst[a["name"]]
            want.append(a)

        def same(x, y):
            if x.get("s") == y.get("s"):
                return True
            # `&T` for the caller's T matches the impl written for `&T` with its own T
            return x.get("k") == y.get("k") == "ref" and (x.get("to") or {}).get("k") == (y.get("to") or {}).get("k") == "param"
        hits = [c for c in cands if len(c.impl_trait_args) == len(want) and all(same(x, y) for x, y in zip(c.impl_trait_args, want))]
        return hits[0] if len(hits) == 1 else None

    def generic_candidates(self, callee):
        """all crate impls a trait-method call on a crate type can dispatch to (the call is generic in the trait's arguments)"""
        st = callee.get("self_ty") or {}
        if not (callee.get("trait") and st.get("k") == "adt" and st.get("krate") == self.d["crate"]):
            return []
        return [f for f in self.fns if f.impl_trait == callee["trait"] and f.name == callee.get("name") and f.impl_self and f.impl_self.get("path") == st.get("path")]


_loaded = {}


EXPECTED_FLAGS = {"default": (True, True), "serde": (True, True), "release": (False, False)}


def load(config="default", crate_dir=None, tag=None):
    key = (config, crate_dir)
    if key not in _loaded:
        d = extract(config, crate_dir, target_tag=tag)
        # the analysis assumes what each configuration means: debug assertions and overflow checks on in default / serde, off in
        # release.  A `.cargo/config.toml` or a `[profile]` entry can change that for the analysed build only.
        want = EXPECTED_FLAGS.get(config)
        got = (bool(d.get("overflow_checks")), bool(d.get("debug_assertions")))
        if want is not None and got != want:
            from extract import ExtractError
            raise ExtractError("configuration `%s` was built with overflow_checks=%s, debug_assertions=%s (expected %s, %s): a profile / cargo "
                               "configuration in the tree changes what the analysed build is" % (config, got[0], got[1], want[0], want[1]))
        _loaded[key] = Facts(d)
    return _loaded[key]
