// C12: next() is total -- no panic / out-of-bounds for any input and any valid configuration.
use std::panic;
use ta::indicators::SimpleMovingAverage;
use ta::Next;

fn main() {
    let r = panic::catch_unwind(|| {
        let mut sma = SimpleMovingAverage::new(100).unwrap();
        let mut last = 0.0;
        for i in 0..100 {
            last = sma.next(i as f64);
        }
        last
    });
    match r {
        Ok(v) => assert_eq!(v, 49.5),
        Err(_) => {
            eprintln!("C12 violated: SimpleMovingAverage(100) panicked (index out of bounds) at its 100th ordinary input");
            std::process::exit(1);
        }
    }
}
