"""Per-function CFG utilities: reverse post-order, dominators, post-dominators, natural loops."""


class Cfg:
    EXIT = -1

    def __init__(self, fn):
        self.fn = fn
        self.entry = fn.blocks[0]["id"]
        self.succ = {}
        self.pred = {}
        ids = []
        # blocks that can never continue (unreachable / diverging call) are left out of the graph
        self.div = set()
        for b in fn.mir["blocks"]:
            t = b["term"]
            if t["k"] in ("unreachable", "resume", "terminate") or (t["k"] == "call" and t.get("target") is None):
                self.div.add(b["id"])
        # ... and so are blocks that can only lead to such blocks (building the panic message, then panicking)
        changed = True
        while changed:
            changed = False
            for b in fn.mir["blocks"]:
                if b["id"] in self.div or b["cleanup"] or b["term"]["k"] == "return":
                    continue
                ss = [s for s in fn.succs(b) if not fn.block_by_id[s]["cleanup"]]
                if ss and all(s in self.div for s in ss):
                    self.div.add(b["id"])
                    changed = True
        # reachable, non-cleanup blocks only
        work = [self.entry]
        seen = {self.entry}
        while work:
            b = work.pop()
            ids.append(b)
            blk = fn.block_by_id[b]
            ss = [s for s in fn.succs(blk) if not fn.block_by_id[s]["cleanup"] and s not in self.div]
            self.succ[b] = ss
            for s in ss:
                self.pred.setdefault(s, []).append(b)
                if s not in seen:
                    seen.add(s)
                    work.append(s)
        self.ids = sorted(ids)
        self.pred.setdefault(self.entry, [])
        self.rpo = self._rpo()
        self.idom = self._dominators(self.entry, self.succ, self.pred, self.rpo)
        # post-dominators on the reversed graph with a virtual exit
        exits = [b for b in self.ids if not self.succ[b]]
        rsucc = {b: list(self.pred.get(b, [])) for b in self.ids}
        rsucc[self.EXIT] = exits
        rpred = {b: list(self.succ[b]) for b in self.ids}
        for e in exits:
            rpred[e] = rpred[e] + [self.EXIT]
        rpred[self.EXIT] = []
        order = self._rpo_generic(self.EXIT, rsucc)
        self.ipdom = self._dominators(self.EXIT, rsucc, rpred, order)
        self.back_edges = [(a, b) for a in self.ids for b in self.succ[a] if self.dominates(b, a)]

    def _rpo_generic(self, entry, succ):
        seen = set()
        post = []
        stack = [(entry, iter(succ.get(entry, [])))]
        seen.add(entry)
        while stack:
            n, it = stack[-1]
            adv = False
            for s in it:
                if s not in seen:
                    seen.add(s)
                    stack.append((s, iter(succ.get(s, []))))
                    adv = True
                    break
            if not adv:
                post.append(n)
                stack.pop()
        return post[::-1]

    def _rpo(self):
        return self._rpo_generic(self.entry, self.succ)

    @staticmethod
    def _dominators(entry, succ, pred, order):
        idx = {b: i for i, b in enumerate(order)}
        idom = {entry: entry}
        changed = True
        while changed:
            changed = False
            for b in order:
                if b == entry:
                    continue
                ps = [p for p in pred.get(b, []) if p in idom]
                if not ps:
                    continue
                new = ps[0]
                for p in ps[1:]:
                    a, c = p, new
                    while a != c:
                        while idx.get(a, 1 << 30) > idx.get(c, 1 << 30):
                            a = idom[a]
                        while idx.get(c, 1 << 30) > idx.get(a, 1 << 30):
                            c = idom[c]
                    new = a
                if idom.get(b) != new:
                    idom[b] = new
                    changed = True
        return idom

    def diverges(self, b):
        return b in self.div

    def dominates(self, a, b):
        """a dominates b"""
        while True:
            if a == b:
                return True
            if b not in self.idom or self.idom[b] == b:
                return False
            b = self.idom[b]

    def has_loop(self):
        return bool(self.back_edges)

    def loops(self):
        """natural loops: header -> set of blocks"""
        if hasattr(self, "_loops"):
            return self._loops
        out = {}
        self._loops = out
        for a, h in self.back_edges:
            body = out.setdefault(h, {h})
            work = [a]
            while work:
                n = work.pop()
                if n not in body:
                    body.add(n)
                    work.extend(self.pred.get(n, []))
        return out
