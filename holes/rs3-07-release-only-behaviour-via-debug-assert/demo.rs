// C01: SimpleMovingAverage(n) returns the mean of exactly the last min(t, n) inputs — "no padding while warming up".
// Build with `cargo run --release`: in a debug build (what `cargo test` and the harness's driver use) the patched crate is correct.
use ta::indicators::SimpleMovingAverage;
use ta::Next;

fn main() {
    let mut sma = SimpleMovingAverage::new(4).unwrap();
    let xs = [4.0, 8.0, 6.0, 2.0, 10.0];
    let mut bad = 0;
    for (t, &x) in xs.iter().enumerate() {
        let got = sma.next(x);
        let lo = (t + 1).saturating_sub(4);
        let win = &xs[lo..=t];
        let want = win.iter().sum::<f64>() / win.len() as f64;
        if (got - want).abs() > 1e-12 {
            println!("VIOLATION C01: after {:?} SMA(4) = {} but the mean of the last {} inputs is {}", &xs[..=t], got, win.len(), want);
            bad += 1;
        }
    }
    if bad > 0 {
        std::process::exit(1);
    }
    println!("ok (debug_assertions = {})", cfg!(debug_assertions));
}
