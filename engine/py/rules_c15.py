"""C15 — composite indicators agree with wiring their public building blocks by hand."""
import ir
import specs
from infra import Report
from rules_spec import run_units

RULE = {"ctor": "W1", "feed": "W2", "feed-count": "W2", "feed-extra": "W2", "output": "W3", "post-state": "W3"}


def run(tier, repo=None, tag="repo"):
    rep = Report("C15", tier)
    rep.rule("W1", "each composite builds its parts with the public constructor and the documented parameter", 20)
    rep.rule("W2", "each part is stepped exactly once per call with the documented series", 22)
    rep.rule("W3", "the composite's outputs are the documented combination of the parts' outputs", 20)
    rep.rule("W0", "state shape / recognised idioms", 0)
    F = ir.load("default", repo, tag)
    run_units("C15", specs.COMPOSITES, None, rep, F, lambda k: RULE.get(k, "W0"))
    # BollingerBands has no SimpleMovingAverage inside: its middle band is StandardDeviation's running mean.  In exact arithmetic that mean is
    # the window mean (C01-I3), the band reads exactly it (I5), and SimpleMovingAverage's output is the window mean too (I1, ring premises L0):
    # the three invariants are re-established here, so "BollingerBands.average equals SimpleMovingAverage" holds up to rounding
    rep.rule("W4", "BollingerBands.average = StandardDeviation's running mean = the window mean = SimpleMovingAverage's output, in exact arithmetic (C01's I1, I3, I5 with the ring-lemma premises)", 3)
    import rules_c01
    import symex
    from infra import Sink
    from rules_c09 import _Map
    m4 = _Map(rep, {"I1": "W4", "I3": "W4", "I5": "W4", "L0": "W4"})
    try:
        rules_c01.apply(F, m4)
    except (symex.Unsupported, KeyError, IndexError, TypeError, AttributeError) as e:
        Sink.bad(m4, "W4", "unrecognised", "window-invariants", "UNRECOGNISED idiom while establishing the window invariants: %r" % (e,))
    rep.configs = ["default"]
    rep.explanation = ("by the modular term match each composite's step is the documented combination of step results of components that are of the public "
                       "type, built by the public constructor with the documented parameter and stepped once per call with the documented series; a user "
                       "wiring the same public parts runs the same deterministic step functions on the same inputs (bit-identical). BollingerBands.average vs "
                       "SimpleMovingAverage (different algorithm): equal in exact arithmetic by the window invariants (W4); NOT decided: their numeric agreement within tau(t)")
    rep.assumptions = ["determinism (C05)", "BollingerBands' middle band is StandardDeviation's running mean; its numeric agreement with SimpleMovingAverage is not decided"]
    return rep
