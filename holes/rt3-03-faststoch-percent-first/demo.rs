// C07: FastStochastic stays in [0, 100] (1e-9 slack) for every stream of finite prices with a non-degenerate window.
// Also C03 (equals 100*(x-low_n)/(high_n-low_n)) and C14 (shift invariance "within rounding").
use ta::indicators::FastStochastic;
use ta::Next;

fn main() {
    let mut worst: f64 = 0.0;
    let mut shown = 0;
    // a quiet market at a large price level: prices near 1e6 moving in steps of ~1e-6 (well inside the 1e12 magnitude bound)
    let mut seed: u64 = 0x9E3779B97F4A7C15;
    for trial in 0..2000 {
        let mut fs = FastStochastic::new(3).unwrap();
        let base = 1.0e6 + trial as f64;
        for step in 0..20 {
            seed = seed.wrapping_mul(6364136223846793005).wrapping_add(1442695040888963407);
            let d = ((seed >> 40) % 1000) as f64 * 1.0e-9;
            let x = base + d;
            let v = fs.next(x);
            let excess = if v > 100.0 { v - 100.0 } else if v < 0.0 { -v } else { 0.0 };
            if excess > 1e-9 {
                if shown < 5 {
                    println!("VIOLATION C07: trial {} step {} price {:.10} -> FastStochastic = {:.12} (outside [0,100] by {:.3e})", trial, step, x, v, excess);
                    shown += 1;
                }
                if excess > worst { worst = excess; }
            }
        }
    }
    if worst > 0.0 {
        println!("worst excursion outside [0,100]: {:.6e} (allowed slack 1e-9)", worst);
        std::process::exit(1);
    }
    println!("ok: all outputs inside [0,100]");
}
