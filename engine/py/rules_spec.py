"""Shared driver for the spec-matching properties C02, C03, C15."""
import fieldclass
import ir
import specs
import symex
from infra import Report, Sink


def run_units(prop, units, kinds, rep, F, rule_of):
    S = Sink(rep)
    classes, _ = fieldclass.classify_fields(F)
    for u in units:
        try:
            res = specs.check_unit(F, u, classes)
        except symex.Unsupported as e:
            S.bad(rule_of("unrecognised"), "unrecognised", u, "UNRECOGNISED idiom while evaluating %s: %s" % (u, e))
            continue
        for ok, kind, inst, msg, where, facts in res:
            if kinds is not None and kind not in kinds:
                continue
            rid = rule_of(kind)
            if ok:
                S.ok(rid, inst, **facts)
            else:
                S.bad(rid, kind, inst, msg, where, **facts)
        rep.functions.update(f.path for f in F.fns_of(u))
    return S
