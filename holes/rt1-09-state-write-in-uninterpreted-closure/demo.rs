// C17 (and C01): SimpleMovingAverage forgets — after any history the output equals that of a fresh indicator fed only
// the last n inputs, within tau(t) = 1e-12 + 1e-15*t^1.5 times the largest magnitude in the whole history.
use ta::indicators::SimpleMovingAverage;
use ta::Next;

fn main() {
    let n = 4;
    let history = [1.0, 2.0, 5.0e6, 3.0, 4.0, 5.0, 6.0, 7.0, 8.0, 9.0];
    let mut long = SimpleMovingAverage::new(n).unwrap();
    let mut out_long = 0.0;
    for &x in &history {
        out_long = long.next(x);
    }
    let mut fresh = SimpleMovingAverage::new(n).unwrap();
    let mut out_fresh = 0.0;
    for &x in &history[history.len() - n..] {
        out_fresh = fresh.next(x);
    }
    let t = history.len() as f64;
    let tol = (1e-12 + 1e-15 * t.powf(1.5)) * 5.0e6;
    let textbook = (6.0 + 7.0 + 8.0 + 9.0) / 4.0;
    if (out_long - out_fresh).abs() > tol || (out_long - textbook).abs() > tol {
        eprintln!(
            "C17/C01 violated: after the spike left the window SMA(4) returns {} but a fresh indicator fed the last 4 inputs returns {} (tolerance {:e})",
            out_long, out_fresh, tol
        );
        std::process::exit(1);
    }
}
