// C01: SimpleMovingAverage(n) is the mean of exactly the last min(t, n) inputs, in every state reachable through the public API.
use ta::indicators::SimpleMovingAverage;
use ta::Next;

// On the original crate `rewind` does not exist: the call below then resolves to this no-op, so that the same program
// builds against both trees (an inherent method takes precedence over a trait method).
trait MaybeRewind {
    fn rewind(&mut self) {}
}
impl MaybeRewind for SimpleMovingAverage {}

fn main() {
    let mut sma = SimpleMovingAverage::new(3).unwrap();
    sma.next(1.0);
    sma.next(2.0);
    sma.rewind();
    let got = sma.next(3.0);
    let want = (1.0 + 2.0 + 3.0) / 3.0;
    if (got - want).abs() > 1e-9 {
        eprintln!("C01 violated: SMA(3) after inputs 1, 2, 3 is {} (expected {})", got, want);
        std::process::exit(1);
    }
}
