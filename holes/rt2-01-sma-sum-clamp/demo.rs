// C01: SimpleMovingAverage(n) must return the mean of exactly the last min(t,n) inputs, for inputs of any sign.
use ta::indicators::SimpleMovingAverage;
use ta::Next;

fn main() {
    let xs = [-4.0, -2.0, 3.0, 5.0, -1.0, 2.0];
    let n = 3usize;
    let mut sma = SimpleMovingAverage::new(n).unwrap();
    let mut bad = 0;
    for t in 0..xs.len() {
        let got = sma.next(xs[t]);
        let lo = (t + 1).saturating_sub(n);
        let w = &xs[lo..=t];
        let want: f64 = w.iter().sum::<f64>() / w.len() as f64;
        let ok = (got - want).abs() <= 1e-9;
        println!("t={} x={:>5} got={:>8.4} want={:>8.4} {}", t + 1, xs[t], got, want, if ok { "" } else { "MISMATCH" });
        if !ok { bad += 1; }
    }
    if bad > 0 {
        eprintln!("C01 violated: {} of {} SMA outputs differ from the window mean", bad, xs.len());
        std::process::exit(1);
    }
}
