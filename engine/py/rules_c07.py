"""C07 — bounded oscillators stay inside their documented range (shape + sign corollaries of the documented formulas)."""
import invariants
import ir
import signs
import symex
from infra import BAD_FIXTURE, Report, Sink, loc
from norm import Poly, Rat
from rules_c09 import KeyedNormalizer, poly_interval
from signs import INF, Iv
from terms import cf, is_const, leaves, show, subterms

BAR = ("ref", ("a0",), None)
X = ("arg", "a0")


def mono_nonneg(p, N, env):
    """every monomial of p is >= 0 under the atom intervals"""
    for mono, coef in p.t.items():
        v = Iv.point(float(coef))
        for atom, e in mono:
            t = N.key2term.get(atom)
            a = signs.evaluate(t, env) if t is not None else Iv.top()
            for _ in range(e):
                v = signs.mul(v, a)
        if not (v.lo >= 0):
            return False, "monomial %s has sign %s" % (mono, v)
    return True, ""


def ratio_in(t, env, c):
    """0 <= t <= c whenever the denominator is non-zero: t = n/d with n, d, c*d - n all sums of non-negative monomials"""
    N = KeyedNormalizer()
    r = N.rat(t)
    for name, p in (("numerator", r.n), ("denominator", r.d), ("c*denominator - numerator", r.d.scale(c) - r.n)):
        ok, why = mono_nonneg(p, N, env)
        if not ok:
            # try the negated fraction (-n)/(-d)
            ok2 = all(mono_nonneg(q, N, env)[0] for q in (-r.n, -r.d, (-r.d).scale(c) - (-r.n)))
            if ok2:
                return True, ""
            return False, "%s: %s" % (name, why)
    return True, ""


def subst(t, mapping, frozen=()):
    if t in mapping:
        return mapping[t]
    if t in frozen:
        return t
    if isinstance(t, tuple):
        return tuple(subst(x, mapping, frozen) for x in t)
    return t


def _degree(t, atoms):
    """price dimension of a term over the given price atoms: atoms 1, constants 0, * adds, / subtracts, +/- take the larger; None = unknown"""
    if t in atoms:
        return 1
    if is_const(t):
        return 0
    if isinstance(t, tuple) and t and t[0] in ("+", "-") and len(t) == 3:
        a, b = _degree(t[1], atoms), _degree(t[2], atoms)
        return None if a is None or b is None else max(a, b)
    if isinstance(t, tuple) and t and t[0] == "*" and len(t) == 3:
        a, b = _degree(t[1], atoms), _degree(t[2], atoms)
        return None if a is None or b is None else a + b
    if isinstance(t, tuple) and t and t[0] == "/" and len(t) == 3:
        a, b = _degree(t[1], atoms), _degree(t[2], atoms)
        return None if a is None or b is None else a - b
    if isinstance(t, tuple) and t and t[0] in ("neg", "abs") and len(t) == 2:
        return _degree(t[1], atoms)
    return None


def rounded_difference(t, atoms):
    """a +/- node whose operands carry price dimension but are not both exact values (one of `atoms`): the difference of rounded
    price-sized intermediates has absolute error ulp(price), which a later division by the window range amplifies"""
    for s_ in subterms(t):
        if isinstance(s_, tuple) and s_ and s_[0] in ("+", "-") and len(s_) == 3:
            da, db = _degree(s_[1], atoms), _degree(s_[2], atoms)
            if da is None or db is None:
                return "cannot bound the rounding of %s (unrecognised operand)" % show(s_)[:80]
            if max(da, db) >= 1 and not (s_[1] in atoms and s_[2] in atoms):
                # a sum/difference of differences of exact values is fine (each is exact to half an ulp of the *difference*)
                if all(isinstance(o, tuple) and o and o[0] == "-" and len(o) == 3 and o[1] in atoms and o[2] in atoms for o in (s_[1], s_[2])):
                    continue
                return ("%s combines price-sized values after they were rounded (scaled or divided before the subtraction): the error is "
                        "ulp(price), not ulp(difference), and the division by the window range amplifies it beyond the 1e-9 slack" % show(s_)[:90])
    return None


def fast_stochastic(F, S):
    ok_all = True
    for fn in F.fns_of("FastStochastic", "next", trait="Next"):
        r = symex.evaluate(F, fn, canon=True)
        steps = list(symex.Exec.flat_steps(r["steps"]))
        mn = [s for s in steps if s[2].startswith("Minimum::")]
        mx = [s for s in steps if s[2].startswith("Maximum::")]
        if len(mn) != 1 or len(mx) != 1:
            S.bad("AP", "shape", fn.label, "%s does not step one Minimum and one Maximum" % fn.label, loc(fn.span))
            ok_all = False
            continue
        lo, hi = ("ret", mn[0]), ("ret", mx[0])
        a, b = mn[0][3][0], mx[0][3][0]
        g = lambda n: ("get", n, BAR)
        bad_leaf = None
        slug_ = "affine-position"
        for conds, leaf in leaves(r["ret"]):
            if is_const(leaf):
                if not (0.0 <= leaf[2] <= 100.0):
                    bad_leaf = "constant arm %s outside [0,100]" % leaf[2]
                continue
            # which value is positioned between the extremes?
            xs = [t for t in (X, g("close"), g("high"), g("low"), g("open")) if any(s_ == t for s_ in subterms(leaf))]
            xs = [t for t in xs if t not in (a, b) or (a == b == t)]
            x = xs[0] if xs else (a if a == b else None)
            if x is None:
                bad_leaf = "cannot identify the positioned value in %s" % show(leaf)[:100]
                break
            below = (a == x) or (a == g("low") and x in (g("close"), g("open"), g("high")))
            above = (b == x) or (b == g("high") and x in (g("close"), g("open"), g("low")))
            if not below:
                bad_leaf = "the window minimum is taken over %s, which is not known to be <= the positioned value %s" % (show(a), show(x))
                break
            if not above:
                bad_leaf = "the window maximum is taken over %s, which is not known to be >= the positioned value %s" % (show(b), show(x))
                break
            P, Q = ("arg", "$p"), ("arg", "$q")
            env = signs.Env({P: Iv(0.0, INF), Q: Iv(0.0, INF), lo: Iv(-INF, INF, True, True)}, {})
            leaf2 = subst(leaf, {x: ("+", lo, P), hi: ("+", ("+", lo, P), Q)}, frozen=(lo,))
            ok, why = ratio_in(leaf2, env, 100.0)
            if not ok:
                bad_leaf = "%s is not of the form 100*(x - lo)/(hi - lo): %s" % (show(leaf)[:100], why)
                break
            # ratio_in is a statement about the real-valued rational function.  The property allows 1e-9 of rounding slack, which a handful of
            # correctly rounded operations keeps (relative error ~1e-16 each) *unless* a difference of two price-sized values is taken after they
            # were rounded: then the absolute error is ulp(price), and dividing by the (possibly tiny) range amplifies it without bound
            # (red-team hole rt3-03: (x*100 - lo*100)/(hi - lo) reaches 105 at price level 1e6).  So every +/- between price-dimension
            # operands must be between exact values: the positioned value and the two extremes themselves
            hz = rounded_difference(leaf, (x, lo, hi))
            if hz:
                bad_leaf = "%s: %s" % (show(leaf)[:100], hz)
                slug_ = "cancellation-after-rounding"
                break
        if bad_leaf:
            ok_all = False
            S.bad("AP", slug_, fn.label, "%s: %s" % (fn.label, bad_leaf), loc(fn.span))
        else:
            S.ok("AP", "%s in [0,100]" % fn.label, contract="Minimum.step(v) <= v <= Maximum.step(v) (window extremes: re-established by the I6/I7 instances of this rule)", min_over=show(a), max_over=show(b))
    return ok_all


def apply(F, S):
    # RW: RSI
    a = invariants.analysis(F, "RelativeStrengthIndex", "positive")
    for lab, (fn, r) in a.methods.items():
        if fn.trait_short != "Next":
            continue
        env = a.base_env()
        bad = None
        for conds, leaf in leaves(r["ret"]):
            e2 = env.child()
            for c_, pol in conds:
                e2.assume(c_, pol)
            ok, why = ratio_in(leaf, e2, 100.0)
            if not ok:
                bad = why
        if bad:
            S.bad("RW", "ratio-part-whole", lab, "%s is not 100 * A/(A+B) with A, B >= 0: %s" % (lab, bad), loc(fn.span))
        else:
            S.ok("RW", "%s in [0,100]" % lab, shape="100*U/(U+D), U and D non-negative (gains/losses split by direction, EMA with k in (0,1])")
    # RW: MFI (totals non-negative is the property's own conditioning premise)
    for fn in F.fns_of("MoneyFlowIndex", "next", trait="Next"):
        r = symex.evaluate(F, fn, canon=True)
        # the flow totals: f64 scalar state whose update reads its own previous value (identified by shape, not by name)
        posts = {k: v for k, v in r["heap"].items() if k.count(".") == 1 and invariants.path_type(F, "MoneyFlowIndex", k) == "f64"
                 and any(x == ("pre", k) for x in subterms(v))}
        bad = None
        for conds, leaf in leaves(r["ret"]):
            if is_const(leaf):
                if not 0 <= leaf[2] <= 100:
                    bad = "constant arm %s" % leaf[2]
                continue
            atoms = {}
            leaf2 = leaf
            for i, (k, v) in enumerate(sorted(posts.items())):
                sym = ("arg", "$T%d" % i)
                atoms[sym] = Iv(0.0, INF)
                from terms import simp
                facts = {c_: pol for c_, pol in conds}
                leaf2 = subst(leaf2, {simp(v, facts): sym, v: sym})
            ok, why = ratio_in(leaf2, signs.Env(atoms, {}), 100.0)
            if not ok:
                bad = why
        if bad:
            S.bad("RW", "ratio-part-whole", fn.label, "%s is not 100 * P/(P+N) over its two flow totals: %s" % (fn.label, bad), loc(fn.span))
        else:
            S.ok("RW", "%s in [0,100]" % fn.label, shape="100*P/(P+N) over the running totals", premise="in exact arithmetic the totals are sums of the non-negative flows in the window (step specification, re-checked under this rule); their floating-point residue is the property own conditioning clause")
    # AP: FastStochastic
    fs_ok = fast_stochastic(F, S)
    # CC: SlowStochastic = EMA(FastStochastic), EMA convex
    ema_convex = False
    from rules_c09 import apply as c09_apply
    probe = Sink(None, "C09")
    try:
        c09_apply(F, probe)
        ema_convex = not probe.fired("ema-not-convex")
    except Exception:
        ema_convex = False
    for fn in F.fns_of("SlowStochastic", "next", trait="Next"):
        r = symex.evaluate(F, fn, canon=True)
        ret = r["ret"]
        shape = (isinstance(ret, tuple) and ret[0] == "ret" and ret[1][2].startswith("ExponentialMovingAverage::") and len(ret[1][3]) == 1
                 and isinstance(ret[1][3][0], tuple) and ret[1][3][0][0] == "ret" and ret[1][3][0][1][2].startswith("FastStochastic::"))
        if shape and ema_convex and fs_ok:
            S.ok("CC", "%s in [0,100]" % fn.label, shape="EMA.step(FastStochastic.step(input)); EMA is a convex combination; FastStochastic in [0,100]")
        else:
            S.bad("CC", "convex-combination", fn.label, "%s: %s" % (fn.label, "output is not EMA(FastStochastic(input))" if not shape else ("EMA step is not a convex combination" if not ema_convex else "FastStochastic is not shown to be in range")), loc(fn.span))
    # ER >= 0
    a = invariants.analysis(F, "EfficiencyRatio", "positive")
    for lab, (fn, r) in a.methods.items():
        if fn.trait_short != "Next":
            continue
        v = signs.evaluate(r["ret"], a.base_env())
        if v.lo >= 0:
            S.ok("ER", "%s >= 0" % lab, interval=str(v))
        else:
            S.bad("ER", "may-be-negative", lab, "%s can be negative (%s)" % (lab, v), loc(fn.span))


def er_at_most_one(F, S):
    """ER <= 1 by the triangle inequality: |x_t - x_{t-n}| <= sum of |successive differences| along a chain from x_{t-n} to x_t.
    Hypotheses checked on the code: (a) C03-O4 (numerator |reference - input|, denominator a sum from 0 of |previous - element| with
    `previous` carried through the scan and seeded with the reference); (b) the scan visits the ring in storage order starting
    after the write cursor: its slice bounds are exactly [cursor', count') followed by [0, cursor') of the updated window, with
    cursor and counter in lockstep — then the last element visited is the slot just written, i.e. the input (ring lemma)."""
    import rules_c03
    import typestate
    from terms import cu
    fn = F.method("EfficiencyRatio", "next", trait="Next", next_input="f64")
    if fn is None:
        S.bad("ER1", "anchor", "EfficiencyRatio", "EfficiencyRatio::next(f64) not found")
        return
    probe = Sink(None, "C07")
    try:
        rules_c03.er_facts(F, probe)
    except (symex.Unsupported, KeyError, IndexError, TypeError) as e:
        probe.bad_keys.append("C07:unrecognised:%r" % (e,))
    if probe.bad_keys:
        S.bad("ER1", "triangle-premise", fn.label, "%s: the numerator / denominator shapes of C03-O4 do not hold (%s), so the triangle inequality has nothing to apply to" % (fn.label, "; ".join(probe.bad_keys)[:200]), loc(fn.span))
        return
    ts = typestate.all_structs(F)[0]["EfficiencyRatio"]
    r = ts.methods.get(fn.label, (None, None))[1] or symex.evaluate(F, fn, canon=True)
    ex = r["exec"]
    if not ts.lockstep or not ts.buffers:
        S.bad("ER1", "triangle-premise", fn.label, "%s: no cursor/counter lockstep over one ring" % fn.label, loc(fn.span))
        return
    c, n = ts.lockstep
    buf = list(ts.buffers)[0]
    pc_, pn_ = r["heap"].get("self." + c), r["heap"].get("self." + n)
    spans = []
    for iv, b in sorted(ex.ivar_bounds.items(), key=lambda kv: kv[0][1]):
        if b.get("array") == ("self", buf):
            spans.append((b["start"], b["end"]))
    want = [(pc_, pn_), (cu(0), pc_)]
    if spans == want:
        S.ok("ER1", "%s <= 1: |reference - input| <= sum of |successive differences| from the reference to the input (scan [cursor', count') then [0, cursor'))" % fn.label)
    else:
        S.bad("ER1", "scan-order", fn.label, "%s: the volatility scan covers %s; the chain from the reference value to the new input needs [cursor', count') then [0, cursor')"
              % (fn.label, [(show(a)[:40], show(b)[:40]) for a, b in spans]), loc(fn.span))


def run(tier, repo=None, tag="repo"):
    rep = Report("C07", tier)
    rep.rule("ER1", "EfficiencyRatio <= 1: hypotheses of the triangle inequality (C03-O4 shapes; the scan runs from the slot after the write cursor round to the slot just written)", 1)
    rep.rule("RW", "RSI and MFI are 100*A/(A+B): numerator, denominator and 100*denominator - numerator are sums of non-negative monomials", 3)
    rep.rule("AP", "FastStochastic is 100*(x - lo)/(hi - lo) with lo/hi the window extremes of series bracketing x", 2)
    rep.rule("CC", "SlowStochastic is EMA(FastStochastic) and the EMA step is a convex combination", 2)
    rep.rule("ER", "EfficiencyRatio is a quotient of non-negatives (>= 0)", 2)
    F = ir.load("default", repo, tag)
    try:
        apply(F, Sink(rep))
        er_at_most_one(F, Sink(rep))
        # RW's premise for MFI "the two totals are sums of the non-negative flows in the window" is MFI's step specification (C03)
        from rules_spec import run_units
        run_units("C07", ["MoneyFlowIndex"], None, rep, F, lambda kind: "RW")
        # AP's premise "window minimum <= x <= window maximum" is the contract of Minimum / Maximum: re-established here with C01's rules
        import rules_c01
        from rules_c09 import _Map
        from rules_c14 import mirror
        m_ = _Map(rep, {"I6": "AP", "I7": "AP"})
        try:
            rules_c01.extreme_unit(F, m_, "Minimum", "I6")
            rules_c01.extreme_unit(F, m_, "Maximum", "I7", transform=mirror)
        except (symex.Unsupported, KeyError, IndexError, TypeError, AttributeError) as e:
            Sink.bad(m_, "AP", "unrecognised", "Minimum/Maximum", "UNRECOGNISED idiom while establishing the window-extreme contract: %r" % (e,))
        # the sign facts are about totals / extremes of the window since construction or reset: stale state surviving reset() breaks them
        rep.rule("RP", "reset() restores the constructor state of the five bounded oscillators and of the EMA / Minimum / Maximum they embed (C04's rules); no other method writes their state", 8)
        rules_c01.reset_premise(F, rep, "RP", ["RelativeStrengthIndex", "FastStochastic", "SlowStochastic", "MoneyFlowIndex", "EfficiencyRatio", "ExponentialMovingAverage", "Minimum", "Maximum"])
    except symex.Unsupported as e:
        rep.violation("C07:unrecognised", "RW", "UNRECOGNISED idiom: %s" % e)
    rep.configs = ["default"]
    rep.functions.update(f.path for f in F.fns if f.self_struct in ("RelativeStrengthIndex", "FastStochastic", "SlowStochastic", "MoneyFlowIndex", "EfficiencyRatio", "ExponentialMovingAverage"))
    rep.explanation = ("the range of each bounded oscillator is a corollary of its documented formula plus sign facts: ratio-of-part-to-whole (monomial sign "
                       "analysis of the rational normal form), affine position between window extremes, convex combination. EfficiencyRatio <= 1 by the triangle inequality, whose hypotheses (chain of "
                       "successive differences from the reference to the input) are checked (ER1). NOT decided: MFI's conditioning clause, the 1e-9 rounding slack")
    rep.assumptions = ["finite positive prices / valid bars, volume >= 0, non-zero denominator (the property's premises)",
                       "Minimum / Maximum return the extremes of the window that contains the value just fed (C01-I6/I7, re-established in this check)", "MFI: in exact arithmetic the totals are sums of the window's non-negative flows (its step specification, re-checked here); their floating-point residue is the property's own conditioning clause"]
    return rep
