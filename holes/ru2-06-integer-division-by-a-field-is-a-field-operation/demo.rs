// C01 (also C09-N9, C11 "Default::default() behaves as new(9)", C13): WeightedMovingAverage(n) = sum_i i*x_i / (k(k+1)/2) over the
// last min(t, n) inputs, for EVERY period n >= 1 (the quantifier samples 1..=1024), within tau(t) * max|x|.
use ta::indicators::WeightedMovingAverage;
use ta::Next;

fn reference(w: &[f64]) -> f64 {
    let k = w.len() as f64;
    let num: f64 = w.iter().enumerate().map(|(i, v)| (i + 1) as f64 * v).sum();
    num / (k * (k + 1.0) / 2.0)
}

fn main() {
    let mut bad_periods = vec![];
    for &n in &[1usize, 2, 3, 4, 5, 6, 7, 8, 9, 10, 11, 13, 14, 20, 100, 1000] {
        let mut wma = if n == 9 { WeightedMovingAverage::default() } else { WeightedMovingAverage::new(n).unwrap() };
        let mut hist: Vec<f64> = vec![];
        let mut worst = 0.0f64;
        let (mut g, mut w) = (0.0, 0.0);
        for t in 0..60usize {
            let x = 100.0 + ((t * 7919) % 101) as f64 * 0.25;
            hist.push(x);
            let got = wma.next(x);
            let start = hist.len().saturating_sub(n);
            let want = reference(&hist[start..]);
            let tau = 1e-12 + 1e-15 * ((t + 1) as f64).powf(1.5);
            let e = (got - want).abs() / (tau * 125.0);
            if e > worst {
                worst = e;
                g = got;
                w = want;
            }
        }
        println!("WMA({:>4}): worst error {:.3e} x tolerance   (e.g. {} vs reference {})", n, worst, g, w);
        if worst > 1.0 {
            bad_periods.push(n);
        }
    }
    if !bad_periods.is_empty() {
        println!("VIOLATED for periods {:?} (every period that does not divide 840; identically 0 for period > 840)", bad_periods);
        std::process::exit(1);
    }
    println!("ok");
}
