"""C18-G4: static bincode (fixed-int) size formula of every indicator as a linear form in its constructor
parameters, from the field types and the symbolic constructor term; checked against 256 + 64 * sum(periods)."""
import fieldclass
from ir import short
from terms import show


def size_of(F, ty, init, params):
    """-> (const, {param: coef}) or raises ValueError"""
    k = ty.get("k")
    s = ty["s"]
    if k == "prim":
        if s in ("f64", "usize", "u64", "i64", "isize"):
            return 8, {}
        if s == "bool":
            return 1, {}
        raise ValueError("primitive %s" % s)
    if k == "adt":
        name = short(ty["path"])
        if name == "Option" and ty["args"] and ty["args"][0]["s"] == "f64":
            return 9, {}
        if name == "Box" and ty["args"] and ty["args"][0].get("k") == "slice":
            if not (isinstance(init, tuple) and init[0] == "fromelem"):
                raise ValueError("buffer not created by from_elem: %s" % show(init)[:60])
            ln = init[2]
            if isinstance(ln, tuple) and ln[0] == "arg" and ln[1] in params:
                return 8, {ln[1]: 8}
            if isinstance(ln, tuple) and ln[0] == "c":
                return 8 + 8 * int(ln[2]), {}
            raise ValueError("buffer length %s is not a constructor parameter" % show(ln)[:60])
        fields = F.struct_fields(name)
        if fields is None or not (isinstance(init, tuple) and init[0] == "adt"):
            raise ValueError("type %s" % s)
        d = dict(init[3])
        c, co = 0, {}
        for f in fields:
            c2, co2 = size_of(F, f["ty"], d.get(f["name"]), params)
            c += c2
            for p, v in co2.items():
                co[p] = co.get(p, 0) + v
        return c, co
    raise ValueError("type %s" % s)


def g4(F, rep):
    r = rep.rule("G4", "static bincode size formula: const <= 256 and <= 64 bytes per unit of each period; buffer lengths are constructor parameters", 22)
    for s in F.indicators():
        c = fieldclass.ctor(F, s)
        if c is None or c["ok"] is None:
            rep.violation("C18:size-formula:%s" % s, "G4", "no analysable constructor for %s" % s)
            continue
        params = [p for p, ty in c["params"] if ty == "usize"]
        try:
            const, coef = size_of(F, {"k": "adt", "s": s, "path": s, "args": []}, c["ok"], params)
        except ValueError as e:
            rep.violation("C18:size-formula:%s" % s, "G4", "serialized size of %s is not a static linear form in its periods: %s" % (s, e))
            continue
        form = " + ".join(["%d" % const] + ["%d*%s" % (v, p) for p, v in sorted(coef.items())])
        if const <= 256 and all(v <= 64 for v in coef.values()):
            r.ok(s, bincode_size=form, bound="256 + 64*(sum of periods)")
        else:
            rep.violation("C18:size-bound:%s" % s, "G4", "serialized size of %s is %s, above the bound 256 + 64*(sum of periods)" % (s, form))
