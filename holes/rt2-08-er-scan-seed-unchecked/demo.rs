// C03: EfficiencyRatio(n) = |x_t - x_{t-n}| / sum of |successive differences| over those n steps.
// C07: EfficiencyRatio stays in [0, 1] whenever the denominator is non-zero.
use ta::indicators::EfficiencyRatio;
use ta::Next;

fn main() {
    let n = 3usize;
    let xs = [90.0, 95.0, 100.0, 40.0, 10.0, 11.0, 12.0, 10.5];
    let mut er = EfficiencyRatio::new(n).unwrap();
    let mut bad = 0;
    for t in 0..xs.len() {
        let got = er.next(xs[t]);
        // from scratch: reference = x_{t-n} (first price while warming up)
        let lo = if t >= n { t - n } else { 0 };
        let num = (xs[t] - xs[lo]).abs();
        let den: f64 = (lo..t).map(|i| (xs[i + 1] - xs[i]).abs()).sum();
        let want = if t == 0 { 1.0 } else { num / den };
        let ok = (got - want).abs() <= 1e-9 && got <= 1.0 + 1e-9;
        println!("t={} x={:>5} ER={:.6} formula={:.6} {}", t + 1, xs[t], got, want, if ok { "" } else { "MISMATCH" });
        if !ok { bad += 1; }
    }
    if bad > 0 {
        eprintln!("C03/C07 violated on {} step(s): ER differs from the formula (and leaves [0,1])", bad);
        std::process::exit(1);
    }
}
