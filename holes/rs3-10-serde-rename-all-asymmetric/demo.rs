// C06: with the serde feature, serialize -> deserialize at any point of a stream yields an indicator with the same
// future outputs. Needs `ta` with feature "serde" plus serde_json (any self-describing serde format shows the same).
use ta::indicators::ExponentialMovingAverage;
use ta::Next;

fn main() {
    let mut ema = ExponentialMovingAverage::new(5).unwrap();
    for x in [10.0, 11.0, 12.5, 11.75] {
        ema.next(x);
    }
    let text = serde_json::to_string(&ema).unwrap();
    println!("serialized: {}", text);
    let back: Result<ExponentialMovingAverage, _> = serde_json::from_str(&text);
    match back {
        Ok(mut copy) => {
            let (a, b) = (ema.next(13.0), copy.next(13.0));
            if a.to_bits() != b.to_bits() {
                println!("VIOLATION C06: outputs differ after round-trip: {} vs {}", a, b);
                std::process::exit(1);
            }
            println!("ok: round-trip preserved the state");
        }
        Err(e) => {
            println!("VIOLATION C06: the indicator's own serialized form cannot be deserialized: {}", e);
            std::process::exit(1);
        }
    }
    // bincode (positional) still round-trips: the crate's serde unit test stays green
    let bytes = bincode::serialize(&ema).unwrap();
    let _same: ExponentialMovingAverage = bincode::deserialize(&bytes).unwrap();
}
