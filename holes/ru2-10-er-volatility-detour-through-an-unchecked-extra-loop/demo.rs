// C03 (also C17): EfficiencyRatio(n) = |x_t - x_{t-n}| / sum of |x_j - x_{j-1}| over those n steps (positive prices,
// well-conditioned: the stream below has no flat stretch), within tau(t) * c, scale 1.
use ta::indicators::EfficiencyRatio;
use ta::Next;

fn main() {
    let mut worst_all = 0.0f64;
    for &n in &[3usize, 4, 5, 14] {
        let mut er = if n == 14 { EfficiencyRatio::default() } else { EfficiencyRatio::new(n).unwrap() };
        let mut hist: Vec<f64> = vec![];
        let mut worst = 0.0f64;
        let (mut g, mut w) = (0.0, 0.0);
        for t in 0..200usize {
            let x = 100.0 + ((t * 7919) % 101) as f64 * 0.25;
            hist.push(x);
            let got = er.next(x);
            if hist.len() <= n {
                continue; // warm-up convention not at issue here
            }
            let k = hist.len() - 1;
            let num = (hist[k] - hist[k - n]).abs();
            let den: f64 = (k - n + 1..=k).map(|j| (hist[j] - hist[j - 1]).abs()).sum();
            let want = num / den;
            let e = (got - want).abs();
            if e > worst {
                worst = e;
                g = got;
                w = want;
            }
        }
        println!("ER({:>2}): worst |ER - documented| = {:.3e}   (e.g. {} vs {})", n, worst, g, w);
        worst_all = worst_all.max(worst);
    }
    if worst_all > 1e-9 {
        println!("VIOLATED: for every period > 4 the volatility contains a detour through slot 0 of the ring");
        std::process::exit(1);
    }
    println!("ok");
}
