"""C08 — flat or zero-flow windows give finite, neutral outputs.
Necessary condition: no f64 division by a possibly-zero, data-derived denominator without a dominating zero guard;
guarded arms return the documented neutral constants; sqrt operands are non-negative."""
import invariants
import ir
import signs
import specs
import srcnames
import symex
from infra import BAD_FIXTURE, Report, Sink, loc
from terms import show

# named exceptions: (function label, denominator name) -> reason.  An exception that no longer matches a site is reported as stale.
def _pres(t):
    from terms import subterms
    return {x[1] for x in subterms(t) if x[0] == "pre"}


def exc_price_level(den, F=None, s=None):
    """the denominator is a price itself: a window slot or the input, selected by conditions, with no arithmetic"""
    from terms import is_const, leaves

    def level(l):
        if isinstance(l, tuple) and l[0] == "gamma":
            return level(l[2]) and level(l[3])
        if isinstance(l, tuple) and l[0] in ("*", "/") and len(l) == 3:
            # a price level scaled by a non-zero constant is zero exactly when the level is
            if l[0] == "/" and is_const(l[2]) and l[2][2] != 0:
                return level(l[1])
            if l[0] == "*" and is_const(l[2]) and l[2][2] != 0:
                return level(l[1])
            if l[0] == "*" and is_const(l[1]) and l[1][2] != 0:
                return level(l[2])
            return False
        return isinstance(l, tuple) and (l == ("arg", "a0") or l[0] == "get" or (l[0] == "select" and isinstance(l[1], tuple) and l[1][0] == "pre"))
    return all(level(l) for _, l in leaves(den))


_counting = {}


def counting_fields(F, s):
    """state paths of `s` that only ever count calls: usize parameters and counters (typestate), and f64 fields whose every write
    is a constant, the old value, or the old value + 1.0 (WMA's `weight`).  Computed from the post-terms, no names involved."""
    k = (id(F), s)
    if k in _counting:
        return _counting[k]
    import typestate
    from terms import leaves
    structs, classes = typestate.all_structs(F)
    ts = structs[s]
    out = set()
    for f in F.struct_fields(s):
        n, ty = f["name"], f["ty"]["s"]
        if ty == "usize" and (classes[s].get(n) == "PARAM" or n in ts.counters):
            out.add("self." + n)
        elif ty == "f64" and classes[s].get(n) == "STATE":
            pre = ("pre", "self." + n)
            posts = [r["heap"].get("self." + n) for _, (fn, r) in ts.methods.items()]
            posts = [t for t in posts if t is not None]
            ints = {"self." + g["name"] for g in F.struct_fields(s) if g["ty"]["s"] == "usize" and (classes[s].get(g["name"]) == "PARAM" or g["name"] in ts.counters)}

            def counting(l):
                if l == pre or l[0] == "c" or l == ("+", pre, ("c", "f64", 1.0)):
                    return True
                return l[0] == "i2f" and bool(_pres(l[1])) and _pres(l[1]) <= ints
            if posts and all(counting(l) for t in posts for _, l in leaves(t)):
                out.add("self." + n)
    _counting[k] = out
    return out


def exc_weight_only(den, F=None, s=None):
    """the denominator is built from call-counting fields (weight / count / period) and constants only"""
    if not (bool(_pres(den)) and _pres(den) <= counting_fields(F, s)):
        return False
    # ... and combined so that "every counting field >= 1" carries over: sums, products and quotients with positive literals only
    # (`weight - 40.0` mentions only a counting field too, and is zero on the 40th call)
    def pos(t):
        if not isinstance(t, tuple) or not t:
            return False
        if t[0] == "c":
            return t[1] in ("f64", "int") and isinstance(t[2], (int, float)) and t[2] > 0
        if t[0] == "pre":
            return True
        if t[0] in ("i2f",):
            return pos(t[1])
        if t[0] in ("+", "*", "/") and len(t) == 3:
            return pos(t[1]) and pos(t[2])
        if t[0] == "gamma":
            return pos(t[2]) and pos(t[3])
        return False
    return pos(den)


# named exceptions: function label -> (predicate on the denominator term, reason). An exception that matches no unguarded division is reported as stale.
EXCEPTIONS = {
    "RateOfChange::<Next<f64>>::next": (exc_price_level,
        "a price level: slot i of the ring is read only after it was written (count gating; the first call uses the input itself), so it is zero only if a zero price was fed, outside the premise"),
    "WeightedMovingAverage::<Next<f64>>::next": (exc_weight_only,
        "weight = count as f64 after the first call's increment (the first call always takes the `count < period` branch because period >= 1; reset zeroes count and weight together), hence weight >= 1 and the denominator >= 1"),
}
NEUTRAL = {"FastStochastic": 50.0, "CommodityChannelIndex": 0.0}


def v6_flat_exact_zero(F, S):
    """RateOfChange and TrueRange return 0 EXACTLY on a flat window.  Every data atom of the evaluated output (input, bar getters,
    window slots, the remembered previous close) is replaced by one symbol v; the term must then reduce to the literal 0 using only
    rewrites that are exact in binary64: x - x = 0, 0 * y = 0 and 0 / y = 0 for finite non-zero y, |0| = 0, max(0, 0) = 0.
    `v*100/v - 100` does not reduce this way — and indeed is +-1.4e-14 for one price in forty."""
    from terms import cf, is_const, leaves, mk_gamma, show, simp
    V = ("flat", "v")
    Z = cf(0.0)

    def is_zero(t):
        return is_const(t) and t[1] in ("f64", "int") and t[2] == 0

    def data_field(path):
        parts = path.split(".")
        if len(parts) < 2 or parts[0] != "self":
            return False
        return True

    def red(t, struct):
        if not isinstance(t, tuple) or not t:
            return t
        h = t[0]
        if t == ("arg", "a0") or h in ("get", "select"):
            return V
        if h == "pre" and isinstance(t[1], str) and t[1].startswith("self."):
            f0 = t[1].split(".")[1]
            ty = next((x["ty"]["s"] for x in (F.struct_fields(struct) or []) if x["name"] == f0), "")
            return V if ("f64" in ty and "usize" not in ty) else t
        if h == "gamma":
            a, b = red(t[2], struct), red(t[3], struct)
            return a if a == b else ("gamma", t[1], a, b)
        xs = tuple(red(x, struct) if isinstance(x, tuple) else x for x in t[1:])
        if h == "-" and len(xs) == 2 and xs[0] == xs[1]:
            return Z
        if h == "-" and len(xs) == 2 and is_zero(xs[1]):
            return xs[0]
        if h == "+" and len(xs) == 2 and (is_zero(xs[0]) or is_zero(xs[1])):
            return xs[1] if is_zero(xs[0]) else xs[0]
        if h == "*" and len(xs) == 2 and (is_zero(xs[0]) or is_zero(xs[1])):
            o = xs[1] if is_zero(xs[0]) else xs[0]
            if o == V or (is_const(o) and o[2] == o[2] and abs(o[2]) != float("inf")):
                return Z
        def nonzero(y):
            # v, a non-zero literal, and their products / quotients (v / 100.0: one percent of the price)
            if y == V or (is_const(y) and y[2] == y[2] and y[2] not in (0, 0.0) and abs(y[2]) != float("inf")):
                return True
            return isinstance(y, tuple) and len(y) == 3 and y[0] in ("*", "/") and nonzero(y[1]) and nonzero(y[2])
        if h == "/" and len(xs) == 2 and is_zero(xs[0]) and nonzero(xs[1]):
            return Z
        if h in ("abs", "neg") and len(xs) == 1 and is_zero(xs[0]):
            return Z
        if h in ("max", "min") and xs and all(is_zero(x) for x in xs):
            return Z
        return (h,) + xs
    for struct, kinds in (("RateOfChange", ["f64"]), ("TrueRange", ["f64", "&T"])):
        for kind in kinds:
            fn = F.method(struct, "next", trait="Next", next_input=kind)
            if fn is None:
                S.bad("V6", "anchor", "%s:%s" % (struct, kind), "%s::next(%s) not found" % (struct, kind))
                continue
            try:
                r = symex.evaluate(F, fn, symex.Policy(F, modular=False), canon=True)
            except symex.Unsupported as e:
                S.bad("V6", "unrecognised", fn.label, "UNRECOGNISED idiom: %s" % e, loc(fn.span))
                continue
            t = red(r["ret"], struct)
            bad = [lf for _, lf in leaves(t) if not is_zero(lf)]
            if bad:
                S.bad("V6", "flat-not-exact-zero", fn.label, "%s on a flat window evaluates to %s, which does not reduce to the literal 0 by exact rewrites: the documented 'exactly 0' holds in real arithmetic only" % (fn.label, show(bad[0])[:120]), loc(fn.span))
            else:
                S.ok("V6", "%s: 0 exactly on a flat window" % fn.label)


def apply(F, S, exceptions=EXCEPTIONS):
    sites = {}
    sq = {}
    for s in F.indicators():
        try:
            a = invariants.analysis(F, s, "positive")
        except (symex.Unsupported, KeyError, TypeError, AttributeError) as e:
            S.bad("V1", "unrecognised", s, "UNRECOGNISED idiom while analysing %s: %r" % (s, e))
            continue
        for e in a.errors:
            S.bad("V1", "unrecognised", s, "UNRECOGNISED idiom: %s" % e)
        for lab, (fn, r) in a.methods.items():
            for site in r["exec"].sites:
                if site["what"] == "fdiv":
                    env = a.site_env(site)
                    den = signs.evaluate(site["operands"]["den"], env)
                    g = F.fn_by_path[site["path"]]
                    nm = srcnames.div_names(g, site["block"], site["stmt"])
                    key = (site["fn"], site["block"], site["stmt"])
                    # a division inside a context-bound helper / closure belongs to the method it is inlined into (first root reaching it):
                    # moving `a / b` into a private accessor is not a new division
                    owner = lab if (g.path in F.helpers() or g.kind == "Closure") else site["fn"]
                    rec = sites.setdefault(key, {"fn": owner, "den": nm[1], "num": nm[0], "span": site["span"], "visits": [], "guards": []})
                    rec["visits"].append((s, den, show(site["operands"]["den"])[:120]))
                    rec.setdefault("den_terms", []).append(site["operands"]["den"])
                    if not den.contains_zero():
                        # was it an equality guard that excluded zero?  evaluate again without the `!=` facts
                        env2 = a.base_env()
                        eqs = []
                        for at, truth in site["facts"].items():
                            if at[0] == "==" and truth is False:
                                eqs.append(at)
                            else:
                                env2.assume(at, truth)
                        if eqs and signs.evaluate(site["operands"]["den"], env2).contains_zero():
                            rec["guards"].append((s, lab, r, eqs))
                elif site["what"] == "sqrt":
                    env = a.site_env(site)
                    arg = signs.evaluate(site["operands"]["arg"], env)
                    key = (site["fn"], site["span"]["line"], site["span"]["col"])
                    rec = sq.setdefault(key, {"fn": site["fn"], "span": site["span"], "visits": []})
                    rec["visits"].append((s, arg, show(site["operands"]["arg"])[:120]))
    used_exc = set()
    ordinal = {}
    for key in sorted(sites, key=lambda k: (k[0], k[1], k[2])):
        rec = sites[key]
        base = (rec["fn"], rec["den"])
        ordinal[base] = ordinal.get(base, 0) + 1
        inst = "%s: %s / %s%s" % (rec["fn"], rec["num"], rec["den"], "" if ordinal[base] == 1 else " #%d" % ordinal[base])
        unsafe = [(s, d, t) for (s, d, t) in rec["visits"] if d.contains_zero() or d.is_bot() and False]
        if not unsafe:
            S.ok("V1", inst, denominator=str(rec["visits"][0][1]), contexts=sorted({v[0] for v in rec["visits"]}))
            continue
        exc = exceptions.get(rec["fn"])
        if exc and all(exc[0](d, F, unsafe[0][0]) for d in rec.get("den_terms", [])):
            used_exc.add(rec["fn"])
            S.ok("V1", inst, named_exception=exc[1], denominator=str(unsafe[0][1]))
            continue
        S.bad("V1", "div-unguarded", "%s:%s" % (rec["fn"], invariants.origin_signature(F, unsafe[0][0], rec["den_terms"][0])),
              "%s divides by `%s` (= %s, interval %s in the context of %s) without a dominating zero guard: on a flat / zero-flow window this is 0/0 = NaN"
              % (rec["fn"], rec["den"], unsafe[0][2], unsafe[0][1], ", ".join(sorted({u[0] for u in unsafe}))), loc(rec["span"]))
    for fnl in exceptions:
        if fnl not in used_exc:
            S.bad("V1", "stale-exception", fnl, "the named exception for %s no longer matches any unguarded division: remove it" % fnl)
    # V3 sqrt operands
    for key, rec in sorted(sq.items()):
        bad = [(s, d, t) for (s, d, t) in rec["visits"] if not (d.lo >= 0)]
        inst = "%s: sqrt" % rec["fn"]
        if bad:
            S.bad("V3", "sqrt-negative", rec["fn"], "%s takes the square root of %s (interval %s): a negative rounding residue gives NaN on a flat window" % (rec["fn"], bad[0][2], bad[0][1]), loc(rec["span"]))
        else:
            S.ok("V3", inst, operand=str(rec["visits"][0][1]))
    # V4 a zero / equality guard must not test a quantity that carries the rounding residue of a running total
    from terms import leaves as _leaves, is_const as _is_const, subterms as _subterms

    def running_totals(s_, r_):
        tot = set()
        for k_, t_ in r_["heap"].items():
            for p_, leaf_ in invariants.flatten(t_, k_, {}).items():
                if not isinstance(leaf_, tuple) or invariants.path_type(F, s_, p_) != "f64":
                    continue
                subs_ = list(_subterms(leaf_))
                if any(x == ("pre", p_) for x in subs_) and any(x[0] in ("arg", "get") for x in subs_):
                    tot.add(p_)
        return tot

    reported = set()
    for key in sorted(sites, key=lambda k: (k[0], k[1], k[2])):
        rec = sites[key]
        for (s_, lab_, r_, eqs) in rec["guards"]:
            tot = running_totals(s_, r_)
            for at in eqs:
                dep = sorted({x[1] for side in (at[1], at[2]) for x in _subterms(side) if x[0] == "pre" and x[1] in tot})
                if dep:
                    kk = "%s:%s" % (lab_, invariants.origin_signature(F, s_, dep))
                    if kk in reported:
                        continue
                    reported.add(kk)
                    S.bad("V4", "residue-prone-guard", kk,
                          "%s guards the division by `%s` with an exact equality on a quantity derived from the running total(s) %s: after earlier activity such totals keep rounding residue, the test fails on a flat window and residue is divided by residue"
                          % (lab_, rec["den"], ", ".join(dep)), loc(rec["span"]))
    for s in F.indicators():
        try:
            a = invariants.analysis(F, s, "positive")
        except Exception:
            continue
        for lab, (fn, r) in a.methods.items():
            if fn.trait_short != "Next":
                continue
            # running totals of this (inlined) indicator: f64 state whose update depends on its own previous value and on the input
            totals = set()
            for k, t in r["heap"].items():
                for p_, leaf in invariants.flatten(t, k, {}).items():
                    if not isinstance(leaf, tuple):
                        continue
                    me = ("pre", p_)
                    subs = list(_subterms(leaf))
                    if invariants.path_type(F, s, p_) != "f64":
                        continue  # cursors, counters and flags carry no rounding residue
                    if any(x == me for x in subs) and any(x[0] in ("arg", "get") for x in subs):
                        totals.add(p_)
            ret = r["ret"]
            seen_guard = set()
            for conds, leaf in _leaves(ret):
                if not _is_const(leaf):
                    continue
                for atom, pol in conds:
                    if atom[0] != "==" or atom in seen_guard:
                        continue
                    seen_guard.add(atom)
                    sides = [x for x in (atom[1], atom[2]) if not _is_const(x)]
                    if not sides or not any(y[0] in ("select", "accum", "arg", "get", "/", "*", "+", "-", "abs", "sqrt") for x in sides for y in [x]):
                        continue
                    dep = sorted({x[1] for side in sides for x in _subterms(side) if x[0] == "pre" and x[1] in totals})
                    inst = "%s: guard `%s == %s` returning %s" % (lab, show(atom[1])[:40], show(atom[2])[:40], leaf[2])
                    kk = "%s:%s" % (lab, invariants.origin_signature(F, s, dep))
                    if dep and kk in reported:
                        continue
                    if dep:
                        reported.add(kk)
                        S.bad("V4", "residue-prone-guard", kk,
                              "%s decides its degenerate-window arm (constant %s) by an exact equality on a quantity derived from the running total(s) %s: after earlier activity such totals keep rounding residue, the test fails on a flat window and the formula branch divides residue by residue"
                              % (lab, leaf[2], ", ".join(dep)), loc(fn.span))
                    else:
                        S.ok("V4", inst, depends_on="window slots / inputs only")
    # V2 neutral constants of the guarded arms (from the gated output terms)
    from terms import leaves, is_const
    for s, want in NEUTRAL.items():
        for fn in F.fns_of(s, "next", trait="Next"):
            try:
                r = symex.evaluate(F, fn, canon=True)
            except symex.Unsupported as e:
                S.bad("V2", "unrecognised", fn.label, "UNRECOGNISED idiom: %s" % e)
                continue
            consts = [l for c, l in leaves(r["ret"]) if is_const(l)]
            if len(consts) == 1 and consts[0][2] == want and len(leaves(r["ret"])) == 2:
                cond = leaves(r["ret"])[0][0]
                S.ok("V2", "%s returns %s on its degenerate arm" % (fn.label, want), guard=show(cond[0][0])[:100] if cond else "")
            else:
                S.bad("V2", "neutral-value", fn.label, "%s: the zero-range/zero-deviation arm must return exactly %s (found constant arms %s)" % (fn.label, want, [c[2] for c in consts]), loc(fn.span))
    return sites


def run(tier, repo=None, tag="repo"):
    rep = Report("C08", tier)
    rep.rule("V1", "every f64 division in a Next/Reset body has a denominator that excludes 0 under the premises (price > 0, volume >= 0, period >= 1), is dominated by a zero guard, or is a named exception", 12)
    rep.rule("V2", "the guarded arms return exactly the documented neutral constants (FastStochastic 50 on both paths, CCI 0)", 3)
    rep.rule("V3", "sqrt operands are non-negative", 1)
    rep.rule("V4", "exact zero/equality guards of degenerate-window arms test only window slots or inputs, never a value derived from a running total (which keeps rounding residue)", 2)
    rep.rule("V5", "on a flat window StandardDeviation and MeanAbsoluteDeviation are 0 in exact arithmetic: corollary of the window invariants (m = window mean, m2 = sum of squared deviations; sum = window sum) of C01-I3/I4, re-established here", 2)
    F = ir.load("default", repo, tag)
    apply(F, Sink(rep))
    rep.rule("V6", "RateOfChange and TrueRange are exactly 0 on a flat window: with every data atom replaced by one symbol the output reduces to the literal 0 by float-exact rewrites only", 3)
    v6_flat_exact_zero(F, Sink(rep))
    import rules_c01
    from rules_c09 import _Map
    m_ = _Map(rep, {"I3": "V5", "I4": "V5"})
    try:
        rules_c01.apply(F, m_)
    except (symex.Unsupported, KeyError, IndexError, TypeError, AttributeError) as e:
        Sink.bad(m_, "V5", "unrecognised", "window-invariants", "UNRECOGNISED idiom while establishing the window invariants: %r" % (e,))
    # "at the start of a stream or after arbitrary earlier activity" includes activity ended by reset(): the flat-window corollaries (V5, V6) and
    # the sign premises of V1 are about the state reset() is supposed to restore
    rep.rule("V7", "reset() restores the constructor state of every indicator (C04's rules), so a flat stretch after reset() starts from the state the corollaries assume; no other method writes their state", 22)
    rules_c01.reset_premise(F, rep, "V7", list(F.indicators()))
    # FastStochastic's guard `max == min` fires on a flat window only if Maximum / Minimum return the extremes of exactly that window
    rep.rule("V8", "Minimum and Maximum return the extreme of the current window (C01's I6 / I7), so on a flat window they are equal and FastStochastic's neutral arm is taken", 2)
    from rules_c14 import mirror
    m8 = _Map(rep, {"I6": "V8", "I7": "V8"})
    try:
        rules_c01.extreme_unit(F, m8, "Minimum", "I6")
        rules_c01.extreme_unit(F, m8, "Maximum", "I7", transform=mirror)
    except (symex.Unsupported, KeyError, IndexError, TypeError, AttributeError) as e:
        Sink.bad(m8, "V8", "unrecognised", "Minimum/Maximum", "UNRECOGNISED idiom while establishing the window-extreme contract: %r" % (e,))
    inv = rep.rule("V0", "all 22 indicators analysed (fully inlined terms, class invariants)", 22)
    for s_ in F.indicators():
        inv.ok(s_)
    rep.configs = ["default"]
    rep.functions.update(f.path for f in F.fns if f.trait_short in ("Next", "Reset"))
    B = ir.load("default", BAD_FIXTURE, "bad")
    C = Sink(None, "C08")
    apply(B, C, exceptions={})
    rep.control("V1 unguarded division", C.fired("div-unguarded", "BadDiv"))
    rep.control("V3 sqrt of a signed value", C.fired("sqrt-negative", "BadDiv"))
    rep.explanation = ("interval/sign evaluation of the fully inlined gated terms of every indicator (class invariants per field path by fixpoint); every f64 Div "
                       "site is visited with its dominating branch facts; the check says 'no unguarded 0/0 is expressible', not 'every degenerate window "
                       "yields the neutral value' (rounding residue, MAD/SD -> 0 within tau, EMA underflow timing are NOT decided)")
    rep.assumptions = ["premises of the property: prices > 0, volume >= 0, valid bars, period >= 1", "no float overflow/underflow for the magnitudes bounded by the property",
                       "named exceptions are listed with their reasons in engine/py/rules_c08.py"]
    return rep
