// C02 / C15: AverageTrueRange(n) equals ExponentialMovingAverage(n) fed with TrueRange, on any stream.
use ta::indicators::{AverageTrueRange, ExponentialMovingAverage, TrueRange};
use ta::{DataItem, Next};

fn bar(h: f64, l: f64, c: f64) -> DataItem {
    DataItem::builder().open(c).high(h).low(l).close(c).volume(1.0).build().unwrap()
}

fn main() {
    let bars = [
        bar(10.0, 7.5, 9.0),
        bar(11.0, 9.0, 9.5),
        bar(9.6, 1.0, 1.5),   // crash bar: true range 8.6 > 4 x close 1.5
        bar(1.8, 1.2, 1.6),
        bar(1.9, 1.5, 1.7),
    ];
    let mut atr = AverageTrueRange::new(3).unwrap();
    let mut tr = TrueRange::new();
    let mut ema = ExponentialMovingAverage::new(3).unwrap();
    let mut bad = 0;
    for (i, b) in bars.iter().enumerate() {
        let got = atr.next(b);
        let want = ema.next(tr.next(b));
        let ok = (got - want).abs() <= 1e-9;
        println!("t={} ATR={:.6} EMA(TR)={:.6} {}", i + 1, got, want, if ok { "" } else { "MISMATCH" });
        if !ok { bad += 1; }
    }
    // scalar path as well
    let xs = [10.0, 11.0, 2.0, 2.5, 2.2];
    let mut atr = AverageTrueRange::new(3).unwrap();
    let mut tr = TrueRange::new();
    let mut ema = ExponentialMovingAverage::new(3).unwrap();
    for (i, x) in xs.iter().enumerate() {
        let got = atr.next(*x);
        let want = ema.next(tr.next(*x));
        let ok = (got - want).abs() <= 1e-9;
        println!("scalar t={} ATR={:.6} EMA(TR)={:.6} {}", i + 1, got, want, if ok { "" } else { "MISMATCH" });
        if !ok { bad += 1; }
    }
    if bad > 0 {
        eprintln!("C02/C15 violated: ATR differs from EMA(TrueRange) on {} step(s)", bad);
        std::process::exit(1);
    }
}
