#!/usr/bin/env python3
"""Seeded changes (written by independent sub-agents, kept under /verif/seeded/<id>/):
  seedcheck.py verify <id>   -- confirm in a scratch copy: patch applies, crate builds, baseline tests pass,
                                demo FAILS with the patch and PASSES without it
  seedcheck.py run <id> [PROP...] -- apply the patch to a scratch copy and run the checks on it (static only)
  seedcheck.py runall        -- every seeded change against its own property's check + all others
"""
import json
import os
import shutil
import subprocess
import sys
import tempfile

HERE = os.path.dirname(os.path.abspath(__file__))
VERIF = os.path.dirname(os.path.dirname(HERE))
sys.path.insert(0, HERE)
from main import PROPS  # noqa

SEEDED = os.path.join(VERIF, "seeded")


def scratch(name):
    d = os.path.join(tempfile.gettempdir(), "ta-seed-%s-%d" % (name, os.getpid()))
    shutil.rmtree(d, ignore_errors=True)
    os.makedirs(d)
    for item in ("src", "Cargo.toml", "Cargo.lock", "tests", "benches", "examples"):
        s = os.path.join("/repo", item)
        if os.path.isdir(s):
            shutil.copytree(s, os.path.join(d, item))
        elif os.path.exists(s):
            shutil.copy(s, d)
    return d


def sh(cmd, cwd, timeout=1800):
    env = dict(os.environ, CARGO_NET_OFFLINE="true")
    r = subprocess.run(cmd, cwd=cwd, shell=True, stdout=subprocess.PIPE, stderr=subprocess.STDOUT, text=True, env=env, timeout=timeout)
    return r.returncode, r.stdout


def apply_patch(d, patch):
    rc, out = sh("git init -q . 2>/dev/null; git apply --whitespace=nowarn %s" % patch, d)
    if rc != 0:
        rc, out = sh("patch -p1 -s -i %s" % patch, d)
    return rc == 0, out


def verify(sid):
    sd = os.path.join(SEEDED, sid)
    d = scratch(sid + "-v")
    res = {}
    try:
        demo = os.path.join(d, "seed_demo")
        os.makedirs(os.path.join(demo, "src"))
        shutil.copy(os.path.join(sd, "demo.rs"), os.path.join(demo, "src", "main.rs"))
        cargo = os.path.join(sd, "demo.Cargo.toml")
        if os.path.exists(cargo):
            txt = open(cargo).read()
        else:
            txt = '[package]\nname = "demo"\nversion = "0.0.0"\nedition = "2021"\n[workspace]\n[dependencies]\nta = { path = ".." }\n'
        open(os.path.join(demo, "Cargo.toml"), "w").write(txt)
        shutil.copy(os.path.join(d, "Cargo.lock"), demo)
        rc0, out0 = sh("cargo run -q --offline 2>&1 | tail -5", demo)
        rc0b, _ = sh("cargo run -q --offline >/dev/null 2>&1", demo)
        res["demo_without_patch"] = ("PASS" if rc0b == 0 else "FAIL", out0[-300:])
        ok, out = apply_patch(d, os.path.join(sd, "patch.diff"))
        res["applies"] = ok
        if ok:
            rc_a, _ = sh("cargo build --offline >/dev/null 2>&1", d)
            rc_b, _ = sh("cargo build --offline --features serde >/dev/null 2>&1", d)
            res["builds"] = (rc_a == 0 and rc_b == 0)
            rc, out = sh("cargo test --workspace --no-fail-fast --offline 2>&1 | grep -E '^test result|FAILED|panicked' | head -5", d)
            res["tests"] = out.strip().splitlines()
            res["tests_pass"] = "FAILED" not in out and "136 passed" in out
            rc1b, _ = sh("cargo run -q --offline >/dev/null 2>&1", demo)
            rc1, out1 = sh("cargo run -q --offline 2>&1 | tail -5", demo)
            res["demo_with_patch"] = ("PASS" if rc1b == 0 else "FAIL", out1[-300:])
    finally:
        shutil.rmtree(d, ignore_errors=True)
    res["confirmed"] = bool(res.get("applies") and res.get("builds") and res.get("tests_pass") and res["demo_without_patch"][0] == "PASS" and res.get("demo_with_patch", ("", ""))[0] == "FAIL")
    return res


def run(sid, props=None):
    sd = os.path.join(SEEDED, sid)
    d = scratch(sid + "-r")
    out = {}
    try:
        ok, msg = apply_patch(d, os.path.join(sd, "patch.diff"))
        if not ok:
            return {"error": "patch does not apply: " + msg[-300:]}
        shutil.rmtree(os.path.join(d, ".git"), ignore_errors=True)
        for p in props or PROPS:
            if not os.path.exists(os.path.join(HERE, "rules_%s.py" % p.lower())):
                continue
            r = subprocess.run([sys.executable, os.path.join(HERE, "main.py"), p, "--repo", d, "--tag", "seed-%s-%d" % (sid, os.getpid()), "--no-evidence"],
                               stdout=subprocess.PIPE, stderr=subprocess.STDOUT, text=True)
            keys = [ln.strip().split("  rule=")[0] for ln in r.stdout.splitlines() if ln.startswith("  " + p + ":")]
            out[p] = {"rc": r.returncode, "keys": keys[:6]}
            if r.returncode not in (0, 1):
                out[p]["error"] = r.stdout[-800:]
    finally:
        shutil.rmtree(d, ignore_errors=True)
        import extract
        extract.drop_scratch("seed-%s-%d" % (sid, os.getpid()))
    return out


if __name__ == "__main__":
    cmd = sys.argv[1]
    if cmd == "verify":
        print(json.dumps(verify(sys.argv[2]), indent=1))
    elif cmd == "run":
        res = run(sys.argv[2], sys.argv[3:] or None)
        for p, x in res.items():
            if isinstance(x, dict):
                print("%-5s rc=%s %s %s" % (p, x.get("rc"), "; ".join(x.get("keys", [])), x.get("error", "")[:300]))
            else:
                print(p, x)
    elif cmd == "runall":
        from concurrent.futures import ThreadPoolExecutor
        sids = sorted(os.listdir(SEEDED))
        with ThreadPoolExecutor(max_workers=int(os.environ.get("SEED_JOBS", "8"))) as ex:
            results = list(ex.map(run, sids))
        for sid, res in zip(sids, results):
            with open(os.path.join(SEEDED, sid, "checks.txt"), "w") as fh:
                for p, x in res.items():
                    if isinstance(x, dict):
                        fh.write("%-5s rc=%s %s\n" % (p, x.get("rc"), "; ".join(x.get("keys", []))))
            caught = [p for p, x in res.items() if isinstance(x, dict) and x.get("rc") == 1]
            print("%-28s caught by: %s" % (sid, ", ".join(caught) or "NONE"))
