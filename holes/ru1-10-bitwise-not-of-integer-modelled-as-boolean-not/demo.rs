// C02: ExponentialMovingAverage(n) returns its first input unchanged and thereafter k*x + (1-k)*previous, k = 2/(n+1).
use ta::indicators::ExponentialMovingAverage;
use ta::Next;

fn main() {
    let n = 100usize;
    let k = 2.0 / (n as f64 + 1.0);
    let mut ema = ExponentialMovingAverage::new(n).unwrap();
    let mut want = 0.0;
    let mut worst = 0.0f64;
    for i in 0..300 {
        let x = 20.0 + ((i * 13) % 17) as f64;
        let got = ema.next(x);
        want = if i == 0 { x } else { k * x + (1.0 - k) * want };
        worst = worst.max((got - want).abs());
    }
    if worst > 1e-9 {
        eprintln!("C02 violated: EMA(100) deviates from k*x + (1-k)*previous by {}", worst);
        std::process::exit(1);
    }
}
