// C02: EMA(n) returns its first input unchanged and thereafter k*x + (1-k)*previous with k = 2/(n+1).
// Build with `cargo run --release`: the patched crate differs in builds without debug assertions only.
use ta::indicators::ExponentialMovingAverage;
use ta::Next;

fn main() {
    let mut ema = ExponentialMovingAverage::new(3).unwrap();
    let (a, b) = (ema.next(-2.0), ema.next(-4.0));
    if a != -2.0 || b != -3.0 {
        eprintln!("EMA(3) fed -2, -4 returned {}, {} (documented: -2, -3)", a, b);
        std::process::exit(1);
    }
}
