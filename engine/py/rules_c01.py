"""C01 (partial) — sliding-window statistics: exact-arithmetic inductive invariants.

Decided: for SMA, WMA, StandardDeviation, MeanAbsoluteDeviation (and BollingerBands through
StandardDeviation) every accumulator equals its defining *window functional* after every call, and the
output is the textbook statistic of those functionals, by induction over the stream in real arithmetic:

    ghost functionals of the ring:  S1 = sum of slots,  S2 = sum of squared slots,  W = sum_i i*a_i (age-weighted)
    warm-up step (count = c < period, the slot at the cursor still holds the zero fill):
        S1' = S1 + x      S2' = S2 + x^2       W' = W + (c+1)*x        count' = c + 1
    steady step (count = period = p, e = the slot about to be overwritten = the oldest input):
        S1' = S1 - e + x  S2' = S2 - e^2 + x^2  W' = W - S1 + p*x       count' = p

The implementation's gated post-terms, with each accumulator replaced by its invariant, must equal the
ghost updates as rational functions (no input is chosen, nothing is executed).

NOT decided: the floating-point tolerance tau(t) (rounding of the running sums - C13 territory),
exactness of Minimum/Maximum's cached extreme.  The ring lemma (the slots are exactly the last min(t,n)
inputs, unfilled slots are zero, in warm-up the cursor points at an unfilled slot) rests on the structural
facts checked here and by C12/C17: zero fill in new/reset, one store of the raw input at the cursor per
call, wrapping cursor, saturating counter, cursor/counter lockstep."""
import itertools

import fieldclass
import ir
import symex
import typestate
from infra import Report, Sink, loc
from norm import Normalizer
from terms import cf, cu, is_const, leaves, lit, show, simp, subterms

X = ("arg", "a0")
S1, S2, W = ("ghost", "S1"), ("ghost", "S2"), ("ghost", "W")
Cc, Pp, Ee = ("ghost", "c"), ("ghost", "p"), ("ghost", "e")


def sub(t, m):
    if t in m:
        return m[t]
    if isinstance(t, tuple):
        return tuple(sub(x, m) for x in t)
    return t


def add(a, b):
    return ("+", a, b)


def mul(a, b):
    return ("*", a, b)


def div(a, b):
    return ("/", a, b)


def ghost_updates(case):
    if case == "steady":
        return {"S1": ("+", ("-", S1, Ee), X), "S2": ("+", ("-", S2, mul(Ee, Ee)), mul(X, X)), "W": ("+", ("-", W, S1), mul(Pp, X)), "count": Pp}
    return {"S1": add(S1, X), "S2": add(S2, mul(X, X)), "W": add(W, mul(add(Cc, cf(1.0)), X)), "count": add(Cc, cf(1.0))}


class Unit:
    def __init__(self, F, s, tss):
        self.F = F
        self.s = s
        self.ts = tss[s]
        self.fn = F.method(s, "next", trait="Next", next_input="f64")
        self.r = symex.evaluate(F, self.fn, canon=True)
        ts = self.ts
        self.buf = list(ts.buffers)[0]
        self.cur, self.cnt = ts.lockstep if ts.lockstep else (None, None)
        self.pf = list(ts.len_fields)[0] if ts.len_fields else None
        self.N = Normalizer()

    def premises(self):
        """structural facts the ring lemma rests on -> list of failure strings"""
        out = []
        ts = self.ts
        c = fieldclass.ctor(self.F, self.s)
        init = c["fields"]
        if not ts.lockstep:
            out.append("no cursor/counter lockstep (cursor WRAP + saturating counter advanced once per call)")
            return out
        fill = init.get(self.buf)
        if not (isinstance(fill, tuple) and fill[0] == "fromelem" and fill[1] == cf(0.0)):
            out.append("the window is not zero-filled by the constructor (%s)" % show(fill)[:60])
        pb = ("pre", "self." + self.buf)
        want = ("store", pb, ("pre", "self." + self.cur), X)
        got = self.r["heap"].get("self." + self.buf)
        if got != want:
            out.append("next() does not store exactly the raw input at the write cursor: window becomes %s" % show(got)[:120])
        return out

    def case(self, which, zero_count=False):
        """post-terms under the case facts with ring reads / counters replaced by ghost atoms"""
        pn, pp = ("pre", "self." + self.cnt), ("pre", "self." + self.pf)
        facts = {}
        for cond, val in ((("<", pn, pp), which == "warm"), (("<=", pp, pn), which != "warm")):
            a, p = lit(cond)
            facts[a] = (p == val)
        e = ("select", ("pre", "self." + self.buf), ("pre", "self." + self.cur))
        m = {e: cf(0.0) if which == "warm" else Ee,
             pn: (cf(0.0) if zero_count else Cc) if which == "warm" else Pp,
             pp: Pp}
        heap = {k: sub(simp(v, facts), m) for k, v in self.r["heap"].items()}
        ret = sub(simp(self.r["ret"], facts), m)
        return heap, ret, m

    def eq(self, a, b):
        if isinstance(a, tuple) and isinstance(b, tuple) and a and b and a[0] == b[0] == "sqrt":
            return self.eq(a[1], b[1])
        try:
            return self.N.rat(a).equals(self.N.rat(b))
        except Exception:
            return False


NONNEG_ROLES = {"m2"}                       # Σ (x - mean)^2
CLAMPED_OUTPUT = {"StandardDeviation"}      # sqrt(max(0, m2 / n)): the clamp inside the output is the same one


def inactive_clamp(got, want, eq):
    """got = if <Y below a threshold c> { 0 } else { Y } with Y = want and c <= 0: on an exactly non-negative quantity the
    zero arm is taken only where Y is 0 already, so the clamp changes nothing in real arithmetic.  A threshold above 0
    (`m2 < EPSILON`) is NOT inactive: it wipes small positive values."""
    from terms import lit
    if isinstance(got, tuple) and got[0] == "max" and len(got) == 3:
        # Y.max(c) with c <= 0: the same clamp written with f64::max
        c_, y_ = (got[1], got[2]) if is_const(got[1]) else (got[2], got[1])
        return is_const(c_) and c_[2] <= 0 and eq(y_, want)
    if not (isinstance(got, tuple) and got[0] == "gamma"):
        return False
    a, pol = lit(got[1])
    t_arm, f_arm = (got[2], got[3]) if pol else (got[3], got[2])  # arms taken when the atom is true / false
    if a[0] not in ("<", "<="):
        return False
    lo, hi = a[1], a[2]  # atom: lo < hi  (or <=)
    if is_const(hi) and not is_const(lo):
        y, c, zero_arm, keep = lo, hi[2], t_arm, f_arm   # Y < c  -> zero arm on the true side
    elif is_const(lo) and not is_const(hi):
        y, c, zero_arm, keep = hi, lo[2], f_arm, t_arm   # c < Y  -> zero arm on the false side (Y <= c)
    else:
        return False
    if not (is_const(zero_arm) and zero_arm[2] == 0) or c > 0:
        return False
    return eq(keep, want) and eq(y, keep)


def bind(F, s, classes, nroles):
    fs = [f["name"] for f in F.struct_fields(s) if f["ty"]["s"] == "f64" and classes[s].get(f["name"]) == "STATE"]
    if len(fs) != nroles:
        return None, fs
    return list(itertools.permutations(fs)), fs


def check_sums(F, S, tss, classes, s, roles, inv, post_expect, out_expect, rid, what):
    """roles: list of role names; inv(case, zero) -> {role: ghost expr}; post_expect(case, g) -> {role: expr}; out_expect(case, g, post) -> expr or None"""
    where = None
    try:
        u = Unit(F, s, tss)
    except (symex.Unsupported, KeyError, IndexError, TypeError) as e:
        S.bad(rid, "unrecognised", s, "UNRECOGNISED shape of %s: %r" % (s, e))
        return None
    where = loc(u.fn.span)
    prem = u.premises()
    if prem:
        S.bad(rid, "ring-premise", s, "%s: %s — the window is not provably the last min(t,n) inputs padded with zeros" % (s, "; ".join(prem)), where)
        return None
    S.ok("L0", "%s: zero fill, one store of the raw input at the cursor, wrapping cursor / saturating counter in lockstep" % s)
    perms, fs = bind(F, s, classes, len(roles))
    if perms is None:
        S.bad(rid, "state-shape", s, "%s has f64 state %s; the textbook incremental form needs %d accumulator(s) (%s)" % (s, fs, len(roles), ", ".join(roles)), where)
        return None
    best = None
    for perm in perms:
        b = dict(zip(roles, perm))
        fails = []
        cases = [("warm", True), ("warm", False), ("steady", False)]
        for which, zero in cases:
            heap, ret, m = u.case(which, zero)
            g = ghost_updates(which)
            hyp = inv(which, zero)
            gm = {}
            if zero:
                gm = {S1: cf(0.0), S2: cf(0.0), W: cf(0.0), Cc: cf(0.0)}
            pre_map = {("pre", "self." + b[r_]): sub(hyp[r_], gm) for r_ in roles}
            exp = post_expect(which, {k: sub(v, gm) for k, v in g.items()})
            post_terms = {}
            for r_ in roles:
                got = sub(heap.get("self." + b[r_], ("pre", "self." + b[r_])), pre_map)
                post_terms[r_] = got
                want = exp[r_]
                # a non-negativity clamp on an exactly non-negative quantity is inactive in real arithmetic
                # only a quantity that is non-negative by what it IS (a sum of squared deviations) may be clamped at 0 for free;
                # clamping a signed sum or a mean changes it
                ok = u.eq(got, want) or (r_ in NONNEG_ROLES and inactive_clamp(got, want, u.eq))
                if ok and not zero:   # (in the first-call case the pre-state is the literal 0: hazards are read off the generic cases)
                    import specs
                    hz = specs.float_hazard(heap.get("self." + b[r_], ("pre", "self." + b[r_])), want, pre_map)
                    if hz:
                        ok = False
                        fails.append("%s%s: `%s'` is computed with %s: equal to the window functional in real arithmetic only" % (which, " (first call)" if zero else "", b[r_], hz))
                        continue
                if not ok:
                    fails.append("%s%s: `%s'` = %s, but the window functional requires %s" % (which, " (first call)" if zero else "", b[r_], show(got)[:110], show(want)[:90]))
            oe = out_expect(which, {k: sub(v, gm) for k, v in g.items()}, exp)
            if oe is not None:
                got = sub(ret, pre_map)
                # resolve an inactive clamp inside the output as well
                alts = [got]
                def nonneg_quantity(keep):
                    # the clamp is free only around the quantity that is non-negative by what it IS: the sum of squared deviations
                    # (the expected m2') or that sum over the count (the operand of the root) — not around any signed part of it
                    if isinstance(oe, tuple) and oe[0] == "sqrt" and u.eq(keep, oe[1]):
                        return True
                    return any(r2 in NONNEG_ROLES and u.eq(keep, exp[r2]) for r2 in roles)
                for x in (subterms(got) if s in CLAMPED_OUTPUT else ()):
                    if x[0] == "gamma" and (x[2] == cf(0.0) or x[3] == cf(0.0)):
                        keep = x[3] if x[2] == cf(0.0) else x[2]
                        if inactive_clamp(x, keep, u.eq) and nonneg_quantity(keep):
                            alts.append(sub(got, {x: keep}))
                    elif x[0] == "max" and len(x) == 3 and (x[1] == cf(0.0) or x[2] == cf(0.0)):
                        keep = x[2] if x[1] == cf(0.0) else x[1]
                        if nonneg_quantity(keep):
                            alts.append(sub(got, {x: keep}))
                if not any(u.N.key(a_) == u.N.key(oe) or u.eq(a_, oe) for a_ in alts):
                    fails.append("%s%s: output %s is not %s" % (which, " (first call)" if zero else "", show(got)[:110], show(oe)[:90]))
                elif not zero:
                    import specs
                    hz = specs.float_hazard(ret, oe, pre_map)
                    if hz:
                        fails.append("%s%s: the output is computed with %s: equal to the statistic in real arithmetic only" % (which, " (first call)" if zero else "", hz))
        if best is None or len(fails) < len(best[1]):
            best = (b, fails)
        if not fails:
            break
    b, fails = best
    if fails:
        S.bad(rid, "window-functional", s, "%s: %s" % (s, fails[0]), where, binding=b, all_failures=fails[:6])
        return None
    # base case of the induction: the empty window has every functional equal to 0, so the constructor must start the accumulators there
    c_ = fieldclass.ctor(F, s)
    for r_ in roles:
        init = c_["fields"].get(b[r_]) if c_ and c_["ok"] is not None else None
        if init != cf(0.0):
            S.bad(rid, "accumulator-init", "%s.%s" % (s, b[r_]), "%s::new starts `%s` at %s; the window functional of the empty window is 0" % (s, b[r_], show(init)[:40]), where)
            return None
    S.ok(rid, "%s: %s" % (s, what), binding=b, cases=["first call", "warm-up", "steady state"])
    return u, b


def apply(F, S):
    tss, classes = typestate.all_structs(F)
    one = cf(1.0)
    # SMA: sum = S1; out = S1'/count'
    check_sums(F, S, tss, classes, "SimpleMovingAverage", ["sum"],
               lambda case, zero: {"sum": S1},
               lambda case, g: {"sum": g["S1"]},
               lambda case, g, post: div(g["S1"], g["count"]), "I1",
               "sum = Σ window after every call; output = Σ window / min(t, n)")
    # WMA: weight = count, sum = W, sum_flat = S1; out = W'/(k(k+1)/2)
    check_sums(F, S, tss, classes, "WeightedMovingAverage", ["weight", "sum", "sum_flat"],
               lambda case, zero: {"weight": Cc if case == "warm" else Pp, "sum": W, "sum_flat": S1},
               lambda case, g: {"weight": g["count"], "sum": g["W"], "sum_flat": g["S1"]},
               lambda case, g, post: div(g["W"], div(mul(g["count"], add(g["count"], one)), cf(2.0))), "I2",
               "weight = min(t,n), sum = Σ i·x_i (newest heaviest), sum_flat = Σ window; output = Σ i·x_i / (k(k+1)/2)")
    # SD: m = S1/c, m2 = S2 - S1^2/c ; out = sqrt(m2'/c')
    def sd_inv(case, zero):
        c = Cc if case == "warm" else Pp
        if zero:
            return {"m": cf(0.0), "m2": cf(0.0)}
        return {"m": div(S1, c), "m2": ("-", S2, div(mul(S1, S1), c))}
    res = check_sums(F, S, tss, classes, "StandardDeviation", ["m", "m2"], sd_inv,
                     lambda case, g: {"m": div(g["S1"], g["count"]), "m2": ("-", g["S2"], div(mul(g["S1"], g["S1"]), g["count"]))},
                     lambda case, g, post: ("sqrt", div(("-", g["S2"], div(mul(g["S1"], g["S1"]), g["count"])), g["count"])), "I3",
                     "m = window mean, m2 = Σ (x - mean)² (sliding Welford); output = sqrt(m2 / min(t,n)) (population SD)")
    if res:
        u, b = res
        mf = F.method("StandardDeviation", "mean", trait="")
        bb = F.method("BollingerBands", "next", trait="Next", next_input="f64")
        if mf is not None and bb is not None:
            mr = symex.evaluate(F, mf)
            br = symex.evaluate(F, bb, canon=True)
            avg = dict(br["ret"][3]).get("average") if isinstance(br["ret"], tuple) and br["ret"][0] == "adt" else None
            ok = mr["ret"] == ("pre", "self." + b["m"]) and isinstance(avg, tuple) and avg[0] == "post" and avg[2] == (b["m"],)
            if ok:
                S.ok("I5", "BollingerBands.average = StandardDeviation's running mean after the step = window mean (band widths: C15/C09)")
            else:
                S.bad("I5", "bb-average", "BollingerBands", "BollingerBands.average is %s, not StandardDeviation's window mean" % show(avg)[:100], loc(bb.span))
    # MAD: sum = S1; out = (Σ_{i<count'} |slot_i - S1'/count'|)/count'
    res = check_sums(F, S, tss, classes, "MeanAbsoluteDeviation", ["sum"],
                     lambda case, zero: {"sum": S1},
                     lambda case, g: {"sum": g["S1"]},
                     lambda case, g, post: None, "I4",
                     "sum = Σ window after every call")
    if res:
        u, b = res
        r = u.r
        ok = False
        why = "output is not (Σ |slot - mean|) / count"
        ret = r["ret"]
        post_cnt = r["heap"].get("self." + u.cnt)
        post_buf = r["heap"].get("self." + u.buf)
        post_sum = r["heap"].get("self." + b["sum"])
        accs_ = list(dict.fromkeys(x for x in subterms(ret) if x[0] == "accum" and x[1] == cf(0.0))) if isinstance(ret, tuple) else []
        if len(accs_) == 1 and not (isinstance(ret, tuple) and ret[0] == "/" and ret[1] == accs_[0]):
            # the same quotient spelt otherwise (`acc * (1.0 / n)`): bring it to acc / D with the running sum as an atom
            N0 = Normalizer()
            want_ = ("/", accs_[0], ("i2f", post_cnt))
            import specs as _sp
            if N0.key(ret) == N0.key(want_) and not _sp.float_hazard(ret, want_):
                ret = want_
        if isinstance(ret, tuple) and ret[0] == "/" and isinstance(ret[1], tuple) and ret[1][0] == "accum" and ret[1][1] == cf(0.0):
            acc = ret[1]
            ivs = [x for x in subterms(acc[2]) if x[0] == "ivar"]
            bounds = r["exec"].ivar_bounds.get(ivs[0]) if ivs else None
            mean = div(post_sum, ("i2f", post_cnt))
            want_inc = ("abs", ("-", ("select", post_buf, ivs[0]) if ivs else None, mean))
            N = Normalizer()
            if ivs and bounds and bounds["array"] == ("self", u.buf) and bounds["start"] == cu(0) and bounds["end"] == post_cnt \
                    and N.key(acc[2]) == N.key(want_inc) and N.key(ret[2]) == N.key(("i2f", post_cnt)):
                ok = True
            else:
                why = "deviation loop sums %s over [%s, %s) and divides by %s" % (show(acc[2])[:80], show(bounds["start"]) if bounds else "?", show(bounds["end"])[:40] if bounds else "?", show(ret[2])[:40])
        if ok:
            S.ok("I4", "MeanAbsoluteDeviation: output = Σ_{i<min(t,n)} |slot_i - Σ window / min(t,n)| / min(t,n)")
        else:
            S.bad("I4", "mad-output", "MeanAbsoluteDeviation", "MeanAbsoluteDeviation: %s" % why, loc(u.fn.span))


def extreme_unit(F, S, struct, rid, transform=None):
    """Minimum: cached index of the least slot, rescan when that slot is overwritten (Maximum through the mirror transform).
    Spec step:  deque' = store(deque, cur, x);  min' = γ(x < deque'[min], cur, γ(min == cur, ARGMIN(deque'), min));  cur' = WRAP(cur);  out = deque'[min']
    ARGMIN loop: (m, idx) = (+inf, 0); for (i, v) in deque'.iter().enumerate() { if v < m { m = v; idx = i } }; idx
    The rescan is evaluated *inlined* (loops are summarised), so it may live in a method, an associated function over a slice, or a
    shared generic scan taking the comparison as a closure.  Paper proof (DESIGN §9.9): with J: deque[min] <= every slot, the three
    arms re-establish J for deque'."""
    from norm import equal
    from terms import mk_gamma
    import math
    tr = transform or (lambda t: t)
    fn = F.method(struct, "next", trait="Next", next_input="f64")
    if fn is None:
        S.bad(rid, "state-shape", struct, "%s::next(f64) not found" % struct)
        return
    tss, classes = typestate.all_structs(F)
    ts = tss[struct]
    try:
        r = symex.evaluate(F, fn, symex.Policy(F, inline_loops=True), canon=True)
    except symex.Unsupported as e:
        S.bad(rid, "unrecognised", struct, "UNRECOGNISED idiom in %s: %s" % (fn.label, e), loc(fn.span))
        return
    ex = r["exec"]
    from rules_c14 import unstrict
    tr0 = tr
    # In the rescan, which of two EQUAL slots is remembered does not matter for the value returned (`<` and `<=` pick the first / the
    # last least element).  In the step it does matter: `input <= cached` is certainly true when the cached slot was just overwritten,
    # and would skip the rescan.  So only the rescan's comparison is read modulo strictness (tr_scan below).
    tr_scan = lambda t: unstrict(tr0(t))
    heap = {tr(k): tr(v) for k, v in r["heap"].items()}
    ret = tr(r["ret"])
    curs = [tr(c) for c in ts.cursors]
    buf = list(ts.buffers)[0] if ts.buffers else None
    if buf is None or len(curs) != 2:
        S.bad(rid, "state-shape", struct, "%s: expected one window and two cursors (write cursor, cached extreme), found %s / %s" % (struct, list(ts.buffers), list(ts.cursors)), loc(fn.span))
        return
    pb = ("pre", "self." + buf)
    okb = None
    why = ""
    rescan = None
    for cur, mn in (curs, curs[::-1]):
        pc, pm = ("pre", "self." + cur), ("pre", "self." + mn)
        pf = list(ts.len_fields)[0]
        d2 = ("store", pb, pc, X)
        got_mn = heap.get("self." + mn)
        picks = {x for x in subterms(got_mn)} if got_mn is not None else set()
        picks = [x for x in picks if isinstance(x, tuple) and x and x[0] == "pick"]
        if len(picks) != 1:
            why = why or "the cached extreme index is not refreshed by exactly one window scan (found %d)" % len(picks)
            continue
        rescan = picks[0]
        want_min = mk_gamma(("<", X, ("select", d2, pm)), pc, mk_gamma(("==", pc, pm), rescan, pm))
        want_cur = mk_gamma(("<", ("+", pc, cu(1)), ("pre", "self." + pf)), ("+", pc, cu(1)), cu(0))
        checks = [("window", heap.get("self." + buf), d2), ("cached extreme index", got_mn, want_min),
                  ("write cursor", heap.get("self." + cur), want_cur), ("output", ret, ("select", d2, want_min))]
        bad = None
        for nm, got, want in checks:
            if got is None:
                bad = "%s is not updated" % nm
                break
            ok, cx = equal(got, want)
            if not ok:
                bad = "%s becomes %s; the cached-extreme step requires %s" % (nm, show(got)[:110], show(want)[:110])
                break
            import specs as _sp
            hz_ = _sp.float_hazard(got, want)
            if hz_:
                bad = "%s is computed with %s: the cached-extreme step only in real arithmetic" % (nm, hz_)
                break
        if bad is None:
            okb = (cur, mn, d2)
            break
        why = why or bad
    c_ = fieldclass.ctor(F, struct)
    fill = tr0(c_["fields"].get(buf)) if c_ and c_["ok"] is not None else None
    if not (isinstance(fill, tuple) and fill[0] == "fromelem" and fill[1] == cf(math.inf)):
        S.bad(rid, "extreme-fill", struct, "%s fills its window with %s: unfilled slots must hold the value that can never win (%s), otherwise a value that was never fed can be returned during warm-up"
              % (struct, show(c_["fields"].get(buf)[1]) if c_ and isinstance(c_["fields"].get(buf), tuple) else "?", "+inf for Minimum, -inf for Maximum"), loc(fn.span))
        return
    if okb is None:
        S.bad(rid, "extreme-step", struct, "%s::next is not the cached-extreme step (store at the cursor; take the new value if it beats the cached extreme; rescan iff the cached slot was overwritten): %s" % (struct, why), loc(fn.span))
        return
    # the rescan is a first-extreme ARGMIN over the whole (updated) window
    d2 = okb[2]
    lid = rescan[3]
    li = ex.loop_info.get(lid)
    ok = False
    why = "the rescan is not a single enumerate loop over the whole window"
    if li is not None:
        summ = {k: tr_scan(v) for k, v in li["summaries"].items()}
        iv = ("ivar", lid)
        b = ex.ivar_bounds.get(iv, {})
        elem = ("select", d2, iv)
        ln = b.get("end")
        whole = (b.get("array") == ("self", buf) or b.get("array") is None) and b.get("start") == cu(0) and (ln == ("len", pb) or ln == ("pre", "self." + list(ts.len_fields)[0]))
        trackers = [(k, v) for k, v in summ.items() if isinstance(v, tuple) and v[0] == "pick"]
        mt = [(k, v) for k, v in trackers if v[1] == cf(math.inf)]
        it = [(k, v) for k, v in trackers if v[1] == cu(0)]
        if whole and len(mt) == 1 and len(it) == 1 and len(summ) == 2:
            (mk, mv), (ik, ivv) = mt[0], it[0]
            lvm = ("lv", mv[3], mk)
            lvi = ("lv", ivv[3], ik)
            cond = ("<", elem, lvm)
            okm, _ = equal(mv[4], mk_gamma(cond, elem, lvm))
            oki, _ = equal(ivv[4], mk_gamma(cond, iv, lvi))
            if okm and oki and ivv == unstrict(rescan):
                ok = True
            else:
                why = "the scan does not keep (least value so far, its index) with a strict comparison: value update %s, index update %s" % (show(mv[4])[:80], show(ivv[4])[:80])
        elif not whole:
            why = "the rescan does not cover the whole window [0, len)"
    if ok:
        S.ok(rid, "%s: cached-extreme step + first-extreme rescan over the whole window" % struct, write_cursor=okb[0], extreme_index=okb[1])
    else:
        S.bad(rid, "extreme-rescan", struct, "%s: %s" % (struct, why), loc(fn.span))


WINDOWED = ["SimpleMovingAverage", "WeightedMovingAverage", "StandardDeviation", "MeanAbsoluteDeviation", "Minimum", "Maximum", "BollingerBands"]


def reset_premise(F, rep, rid="L1", structs=WINDOWED):
    """the statement counts inputs "since construction or reset": the induction may restart at reset() only if reset() restores the
    constructor state — C04's rules, run here for the windowed indicators"""
    import rules_c04
    from rules_c09 import _MapFor
    m = _MapFor(rep, rid, structs)
    try:
        rules_c04.apply(F, m)
    except (symex.Unsupported, KeyError, IndexError, TypeError, AttributeError) as e:
        Sink.bad(m, rid, "unrecognised", "reset", "UNRECOGNISED idiom while checking that reset() restores the constructor state: %r" % (e,))
    # ... and the state a call sees is the one the previous next()/reset() left: no other method may write it
    import typestate
    tss = typestate.all_structs(F)[0]
    for s in structs:
        ts = tss.get(s)
        if ts is None:
            continue
        for lab, (fn, r) in sorted(ts.methods.items()):
            if fn.trait_short in ("Next", "Reset"):
                continue
            wr = sorted(k for k in r["heap"] if k.startswith("self"))
            if wr:
                rep.violation("%s:extra-writer:%s" % (rep.prop, lab), rid,
                              "%s writes %s: the window / running state is no longer what the last next() left, so the statement about the outputs since construction or reset does not follow" % (lab, ", ".join(wr[:4])),
                              where=getattr(fn, "where", None))


def run(tier, repo=None, tag="repo"):
    rep = Report("C01", tier)
    rep.rule("L1", "reset() restores the constructor state of the seven windowed indicators (C04's rules), so the induction restarts there", 7)
    rep.rule("L0", "ring-lemma premises: window zero-filled by the constructor, exactly one store of the raw input at the write cursor per call, wrapping cursor and saturating counter in lockstep", 4)
    rep.rule("I1", "SimpleMovingAverage: running sum equals the window sum in all three cases (first call, warm-up, steady state); output = window mean", 1)
    rep.rule("I2", "WeightedMovingAverage: weight, age-weighted sum and flat sum equal their window functionals; output = Σ i·x_i / (k(k+1)/2)", 1)
    rep.rule("I3", "StandardDeviation: sliding Welford state (m, m2) equals (window mean, Σ squared deviations); output = population SD", 1)
    rep.rule("I4", "MeanAbsoluteDeviation: running sum equals the window sum; output = mean absolute deviation about the window mean over the filled slots", 2)
    rep.rule("I5", "BollingerBands.average is StandardDeviation's window mean", 1)
    rep.rule("I6", "Minimum: cached-extreme step (store, compare with the cached extreme, rescan iff its slot was overwritten) and first-least ARGMIN rescan over the whole window", 1)
    rep.rule("I7", "Maximum: the same under the mirror {< <-> >, +inf <-> -inf}", 1)
    F = ir.load("default", repo, tag)
    try:
        apply(F, Sink(rep))
        reset_premise(F, rep)
        from rules_c14 import mirror
        S_ = Sink(rep)
        extreme_unit(F, S_, "Minimum", "I6")
        extreme_unit(F, S_, "Maximum", "I7", transform=mirror)
    except symex.Unsupported as e:
        rep.violation("C01:unrecognised", "I1", "UNRECOGNISED idiom: %s" % e)
    rep.configs = ["default"]
    rep.functions.update(f.path for f in F.fns if f.self_struct in ("SimpleMovingAverage", "WeightedMovingAverage", "StandardDeviation", "MeanAbsoluteDeviation", "BollingerBands"))
    rep.explanation = ("exact-arithmetic inductive invariants: with each accumulator replaced by its window functional (S1 = Σ slots, S2 = Σ slots², W = Σ i·a_i) "
                       "the implementation's gated post-terms equal the functional's update under a point store, as rational-function identities, in the first-call, "
                       "warm-up and steady-state cases; outputs equal the textbook statistic of the functionals. NOT decided: the floating-point tolerance tau(t) "
                       "(rounding of running sums), Minimum/Maximum exactness")
    rep.assumptions = ["real arithmetic (the rounding bound of C01/C13 is not certified)",
                       "ring lemma: with the L0 premises and the cursor typestate of C12/C17 the slots are the last min(t,n) inputs padded with zeros, and during warm-up the cursor points at a zero slot",
                       "point-update laws of S1, S2 and the age-weighted sum W (W' = W - S1 + n*x when the oldest element leaves) are mathematical lemmas, stated in the module docstring"]
    return rep
