pub trait Reset { fn reset(&mut self); }
pub trait Period { fn period(&self) -> usize; }
pub trait Next<T> { type Output; fn next(&mut self, input: T) -> Self::Output; }
pub trait Open { fn open(&self) -> f64; }
pub trait Close { fn close(&self) -> f64; }
pub trait Low { fn low(&self) -> f64; }
pub trait High { fn high(&self) -> f64; }
pub trait Volume { fn volume(&self) -> f64; }
