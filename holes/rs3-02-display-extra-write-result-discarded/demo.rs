// C11: Display renders NAME(params) from the constructor arguments, for every valid configuration: EMA(7), EMA(100), ...
use ta::indicators::ExponentialMovingAverage;

fn main() {
    let mut bad = false;
    for p in [1usize, 7, 99, 100, 250, 100_000] {
        let ema = ExponentialMovingAverage::new(p).unwrap();
        let want = format!("EMA({})", p);
        let got = ema.to_string();
        if got != want {
            println!("VIOLATION C11: Display of ExponentialMovingAverage::new({}) is {:?}, documented {:?}", p, got, want);
            bad = true;
        }
    }
    if bad {
        std::process::exit(1);
    }
    println!("ok");
}
