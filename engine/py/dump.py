#!/usr/bin/env python3
"""Pretty-print MIR of functions whose path contains the given substrings (debug aid)."""
import sys, os, json
sys.path.insert(0, os.path.dirname(os.path.abspath(__file__)))
from extract import extract

def pl(p):
    s='_%d'%p['local']
    for e in p['proj']:
        k=e['k']
        if k=='deref': s='(*%s)'%s
        elif k=='field': s+='.'+e['name']
        elif k=='index': s+='[_%d]'%e['local']
        elif k=='downcast': s='(%s as %s)'%(s,e['name'])
        else: s+='.<%s>'%k
    return s
def op(o):
    if o['k'] in('copy','move'): return o['k']+' '+pl(o['place'])
    if o['k']=='const':
        c=o['c']
        if 'fn' in c: return 'fn '+c['fn']['path_args']
        return 'const %s:%s'%(c.get('f64',c.get('int',c.get('text'))),c['ty'])
    return str(o)
def rv(r):
    k=r['k']
    if k=='use': return op(r['op'])
    if k=='binop': return '%s(%s, %s)'%(r['op'],op(r['a']),op(r['b']))
    if k=='unop': return '%s(%s)'%(r['op'],op(r['a']))
    if k=='cast': return '%s as %s (%s)'%(op(r['op']),r['ty']['s'],r['kind'])
    if k in('ref','rawptr'): return '&%s %s'%(r.get('bk',r.get('kind')),pl(r['place']))
    if k=='aggregate': return 'agg %s %s%s [%s]'%(r['agg'],r.get('path',''),('::'+r['variant_name']) if r.get('is_enum') else '',', '.join(map(op,r['ops'])))
    if k in ('discriminant','copy_for_deref'): return k+' '+pl(r['place'])
    return str(r)
def dump(f, cleanup=False):
    print('fn', f['path'], ' impl_trait_ref=',f.get('impl_trait_ref'), f['span']['file'], f['span']['line'])
    for i,l in enumerate(f['mir']['locals']): print('    _%d: %s'%(i,l['ty']['s']))
    print('    debug:', [(x['name'], pl(x['place']) if x['place'] else None) for x in f['mir']['debug']])
    for b in f['mir']['blocks']:
        if b['cleanup'] and not cleanup: continue
        print('  bb%d%s:'%(b['id'],' (cleanup)' if b['cleanup'] else ''))
        for s in b['stmts']:
            if s['k']=='assign': print('     %s = %s    // %d'%(pl(s['place']),rv(s['rv']),s['span']['line']))
            else: print('     ',s)
        t=b['term']; k=t['k']
        if k=='call': print('     %s = call %s(%s) -> bb%s  [res=%s local=%s]'%(pl(t['dest']),t['callee'].get('path_args'),', '.join(map(op,t['args'])),t['target'],t['callee'].get('resolved_args'),t['callee'].get('resolved_local')))
        elif k=='assert': print('     assert(%s == %s, %s) -> bb%s'%(op(t['cond']),t['expected'],t['msg']['kind'],t['target']))
        elif k=='switch': print('     switch(%s) %s else bb%s'%(op(t['discr']),t['targets'],t['otherwise']))
        elif k=='drop': print('     drop(%s) -> bb%s'%(pl(t['place']),t['target']))
        else: print('     ',{k:v for k,v in t.items() if k!='span'})
if __name__=='__main__':
    cfg='default'
    args=sys.argv[1:]
    if args and args[0] in ('default','serde','release'): cfg=args.pop(0)
    repo=None
    if '--repo' in args:
        i=args.index('--repo'); repo=args[i+1]; del args[i:i+2]
    d=extract(cfg, repo, target_tag='dbg' if repo else None)
    for f in d['fns']:
        if all(a in f['path'] for a in args): dump(f)
