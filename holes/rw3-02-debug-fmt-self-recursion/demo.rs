// Demo for hole 02: C12 says Debug "returns normally" for every indicator.  The hand-written Debug of Minimum
// formats `self` with `{:?}` again: unbounded recursion through core::fmt, the process dies with a stack
// overflow (SIGABRT/SIGSEGV => non-zero exit).  On the original crate (derived Debug) this prints and exits 0.
use ta::indicators::Minimum;
use ta::Next;

fn main() {
    let mut m = Minimum::new(3).unwrap();
    m.next(1.0);
    let s = format!("{:?}", m);
    if !s.contains("period") {
        eprintln!("unexpected Debug text {s}");
        std::process::exit(2);
    }
    println!("{s}");
}
