"""Real-arithmetic normal forms and semantic equality of gated terms.

Arithmetic sub-terms are compared as rational functions over Q (exact: float
literals are converted exactly); non-arithmetic nodes (abs, sqrt, max, step
results, getters, pre-state) are atoms with canonicalised children. Gamma
nodes are compared *semantically*: all outcomes of the condition atoms are
enumerated (comparisons on the same operand pair are enumerated by
trichotomy, so `a<b` and `a>b` are never both true) and the selected leaves
must be equal under every outcome."""
import itertools
import math
from fractions import Fraction

from terms import CMP, is_const, lit, mk_gamma, simp, subterms


class Poly:
    __slots__ = ("t",)

    def __init__(self, t=None):
        self.t = {k: v for k, v in (t or {}).items() if v != 0}

    @staticmethod
    def const(c):
        return Poly({(): Fraction(c)})

    @staticmethod
    def var(a):
        return Poly({((a, 1),): Fraction(1)})

    def __add__(self, o):
        r = dict(self.t)
        for k, v in o.t.items():
            r[k] = r.get(k, 0) + v
        return Poly(r)

    def __neg__(self):
        return Poly({k: -v for k, v in self.t.items()})

    def __sub__(self, o):
        return self + (-o)

    def __mul__(self, o):
        r = {}
        for k1, v1 in self.t.items():
            for k2, v2 in o.t.items():
                d = dict(k1)
                for a, e in k2:
                    d[a] = d.get(a, 0) + e
                k = tuple(sorted(d.items(), key=repr))
                r[k] = r.get(k, 0) + v1 * v2
        return Poly(r)

    def is_zero(self):
        return not self.t

    def is_const(self):
        return all(k == () for k in self.t)

    def const_value(self):
        return self.t.get((), Fraction(0))

    def scale(self, c):
        return Poly({k: v * c for k, v in self.t.items()})

    def lead(self):
        if not self.t:
            return Fraction(0)
        k = sorted(self.t, key=repr)[-1]
        return self.t[k]

    def key(self):
        return tuple(sorted(((k, (v.numerator, v.denominator)) for k, v in self.t.items()), key=repr))


class Rat:
    __slots__ = ("n", "d")

    def __init__(self, n, d=None):
        self.n = n
        self.d = d if d is not None else Poly.const(1)

    def __add__(self, o):
        if self.d.key() == o.d.key():
            return Rat(self.n + o.n, self.d)
        return Rat(self.n * o.d + o.n * self.d, self.d * o.d)

    def __sub__(self, o):
        return self + Rat(-o.n, o.d)

    def __mul__(self, o):
        return Rat(self.n * o.n, self.d * o.d)

    def __truediv__(self, o):
        return Rat(self.n * o.d, self.d * o.n)

    def equals(self, o):
        return (self.n * o.d - o.n * self.d).is_zero()

    def canon(self, abs_sign=False):
        n, d = self.n, self.d
        if n.is_zero():
            return Rat(Poly(), Poly.const(1))
        l = d.lead()
        if l != 0 and l != 1:
            n, d = n.scale(1 / l), d.scale(1 / l)
        if abs_sign and n.lead() < 0:
            n = -n
        return Rat(n, d)

    def key(self, abs_sign=False):
        c = self.canon(abs_sign)
        return ("rat", c.n.key(), c.d.key())


def fexact(v):
    if isinstance(v, float):
        if math.isinf(v) or math.isnan(v):
            return None
        return Fraction(v)
    return Fraction(v)


class Normalizer:
    def __init__(self):
        self.memo = {}

    def rat(self, t):
        """gamma-free term -> Rat"""
        k = id(t)
        if k in self.memo and self.memo[k][0] is t:
            return self.memo[k][1]
        r = self._rat(t)
        self.memo[k] = (t, r)
        return r

    def _rat(self, t):
        h = t[0]
        if h == "c":
            v = fexact(t[2]) if t[1] in ("f64", "int", "bool") else None
            if v is None:
                return Rat(Poly.var(("c", t[1], repr(t[2]))))
            return Rat(Poly.const(v))
        if h == "+":
            return self.rat(t[1]) + self.rat(t[2])
        if h == "-":
            return self.rat(t[1]) - self.rat(t[2])
        if h == "*":
            return self.rat(t[1]) * self.rat(t[2])
        if h == "/" and isinstance(t[2], tuple) and t[2][0] == "c" and t[2][1] == "int" and not (isinstance(t[1], tuple) and t[1][0] == "c"):
            # integer division truncates: it is not the field operation (count / 2 * 2 is not count)
            return Rat(Poly.var(("idiv", self.key(t[1]), t[2][2])))
        if h == "/":
            d = self.rat(t[2])
            if d.n.is_zero():
                return Rat(Poly.var(("div0", self.key(t[1]))))
            return self.rat(t[1]) / d
        if h == "neg":
            z = self.rat(t[1])
            return Rat(-z.n, z.d)
        if h in ("i2f", "ref_to"):
            return self.rat(t[1])
        if h == "select" and len(t) == 3 and isinstance(t[1], tuple) and t[1] and t[1][0] == "store" and len(t[1]) == 4 and t[1][2] == t[2]:
            return self.rat(t[1][3])   # reading the slot that was just written: select(store(a, i, v), i) = v
        if h in ("max", "min"):
            parts = self._extreme_parts(t)
            if len(parts) == 1:
                return self.rat(next(iter(parts.values())))
        return Rat(Poly.var(self.atom_key(t)))

    def _extreme_parts(self, t):
        """{key: subterm} of the flattened, de-duplicated arguments of a max/min; for max a zero argument is dropped when an
        absolute value is among the others (max(0, |a|, ..) = max(|a|, ..))"""
        h = t[0]
        parts = {}
        stack = list(t[1:])
        while stack:
            x = stack.pop()
            if isinstance(x, tuple) and x and x[0] == h:
                stack.extend(x[1:])
            else:
                parts.setdefault(self.key(x), x)
        if h == "max":
            zero = Rat(Poly()).key()
            if zero in parts and any(isinstance(x, tuple) and x and x[0] == "abs" for x in parts.values()):
                del parts[zero]
        return parts

    def key(self, t):
        if not isinstance(t, tuple) or not t:
            return t
        if not isinstance(t[0], str):
            return tuple(self.key(x) for x in t)
        if t[0] in ("c", "+", "-", "*", "/", "neg", "i2f"):
            return self.rat(t).key()
        if t[0] in ("arg", "pre", "select", "get", "abs", "max", "min", "sqrt", "lv", "ivar", "ret", "proj", "accum", "pick", "ucall"):
            return self.rat(t).key()  # a value: `x` and `(x + x + x) / 3` must get the same key
        return self.atom_key(t)

    def atom_key(self, t):
        h = t[0]
        if h == "abs":
            return ("abs", self.rat(t[1]).key(abs_sign=True))
        if h in ("max", "min"):
            parts = self._extreme_parts(t)
            return (h,) + tuple(sorted(parts, key=repr))
        if h in ("arg", "pre", "bot", "ivar"):
            return t
        if h in CMP or h == "not":
            a, p = lit(t)
            if a[0] in CMP:
                return ("lit", a[0], self.key(a[1]), self.key(a[2]), p)
            return ("lit", self.key(a), p)
        return (h,) + tuple(self.key(x) if isinstance(x, tuple) else x for x in t[1:])


def cond_atoms(t):
    out = []
    seen = set()
    for x in subterms(t):
        if x[0] == "gamma":
            a = x[1]
            if a not in seen:
                seen.add(a)
                out.append(a)
    return out


def assignments(atoms, N, with_unordered=False):
    """enumerate consistent truth assignments for condition atoms.
    Comparison atoms are grouped by their canonical difference D = x - y (sign-normalised, so `a < b`, `b > a`,
    `a - b < 0`, `n + 1 == 1` and `n == 0` fall into one group) and each group takes one outcome of D in
    {< 0, == 0, > 0}; other boolean atoms are independent."""
    groups = {}
    free = []
    eqpairs = {}   # group -> (x, y): under the outcome `eq` the two operands are the same value, so y may replace x in the leaves
    for a in atoms:
        if a[0] in ("<", "<=", "=="):
            try:
                d = N.rat(a[1]) - N.rat(a[2])
                c = d.canon()
                fwd = c.n.lead() > 0 if not c.n.is_zero() else True
                g = d.key(abs_sign=True)
            except Exception:
                free.append(a)
                continue
            groups.setdefault(g, []).append((a, fwd, d.n.is_zero()))
            if _simple_operand(a[1]) and _simple_operand(a[2]) and a[1] != a[2]:
                eqpairs.setdefault(g, tuple(sorted([a[1], a[2]], key=repr)))
            else:
                # `n == 0` on an integer: under the outcome `eq` the operand IS that number (not for f64: -0.0 == 0.0)
                for x_, c_ in ((a[1], a[2]), (a[2], a[1])):
                    if _simple_operand(x_) and isinstance(c_, tuple) and len(c_) == 3 and c_[0] == "c" and c_[1] == "int":
                        eqpairs.setdefault(g, (c_, x_))
        else:
            free.append(a)
    gkeys = list(groups)
    outcomes = ["lt", "eq", "gt"] + (["un"] if with_unordered else [])
    for combo in itertools.product(outcomes, repeat=len(gkeys)):
        base = {}
        for g, oc in zip(gkeys, combo):
            for a, fwd, iszero in groups[g]:
                o = oc if fwd else {"lt": "gt", "gt": "lt"}.get(oc, oc)
                if iszero:
                    o = "eq" if oc != "un" else "un"
                base[a] = {"<": o == "lt", "<=": o in ("lt", "eq"), "==": o == "eq"}[a[0]]
        eqs = [eqpairs[g] for g, oc in zip(gkeys, combo) if oc == "eq" and g in eqpairs]
        for vals in itertools.product([True, False], repeat=len(free)):
            f = dict(base)
            f.update(zip(free, vals))
            if eqs:
                f[EQ_KEY] = eqs
            yield f


EQ_KEY = ("__equal_operands__",)


def _simple_operand(t):
    return isinstance(t, tuple) and t and t[0] in ("arg", "pre", "get", "select", "ret", "proj", "lv", "ivar") and not is_const(t)


def _replace(t, m):
    if not isinstance(t, tuple) or not t:
        return t
    if t in m:
        return m[t]
    return tuple(_replace(x, m) if isinstance(x, tuple) else x for x in t)


def subst_bool_atoms(t, facts):
    """a boolean atom used as a *value* takes its assigned truth value"""
    if not isinstance(t, tuple) or not t:
        return t
    if isinstance(t[0], str):
        if t in facts and t[0] not in ("c",):
            return ("c", "bool", 1 if facts[t] else 0)
        if t[0] in ("c", "arg", "pre", "bot"):
            return t
    return tuple(subst_bool_atoms(x, facts) if isinstance(x, tuple) else x for x in t)


def resolve(t, facts):
    """resolve gammas under a complete assignment (iterate: conditions may contain gammas)"""
    for _ in range(6):
        t2 = simp(t, facts)
        if t2 == t:
            break
        t = t2
    return subst_bool_atoms(t, facts)


def equal(t1, t2, N=None, limit=4096, with_unordered=False):
    """semantic equality; returns (bool, counterexample facts or None)"""
    N = N or Normalizer()
    if t1 == t2:
        return True, None
    try:
        if N.key(t1) == N.key(t2):
            return True, None  # same gamma structure with arithmetically equal leaves: no case split needed
    except Exception:
        pass
    atoms = []
    for a in cond_atoms(t1) + cond_atoms(t2):
        if a not in atoms:
            atoms.append(a)
    n = 0
    for f in assignments(atoms, N, with_unordered):
        n += 1
        if n > limit:
            return False, {"error": "too many condition outcomes"}
        eqs = f.pop(EQ_KEY, None)
        a, b = resolve(t1, f), resolve(t2, f)
        if eqs:
            # on this outcome some operand pairs are equal: a leaf may be written with either of them (`x - y` is 0 here)
            m = {}
            for x, y in eqs:
                m[y] = m.get(x, x)
            a, b = _replace(a, m), _replace(b, m)
        rest = [x for x in cond_atoms(a) + cond_atoms(b)]
        if rest and all(x in atoms for x in rest):
            return False, {"error": "unresolved condition %r" % (rest[0],)}
        if rest:
            # new atoms appeared after resolution (nested conditions): recurse
            ok, cx = equal(a, b, N, limit, with_unordered)
            if not ok:
                return False, cx
            continue
        if N.key(a) != N.key(b):
            return False, f
    return True, None


# ---------------------------------------------------------------------------------------------------------------------
# Real-arithmetic equality is blind to two things a floating-point program can do to a formula without changing its
# rational normal form: add and subtract the same (large) quantity, and multiply something possibly non-finite by 0.
def hazards(t, N=None, ratio=16):
    """-> list of descriptions.  For every additive tree of the term (maximal chains of + / - / neg, whatever they sit in) the
    summands are normalised one by one and then added twice: with their signs, and with all coefficients made positive.  A
    monomial whose signed coefficient is 0 (or `ratio` times smaller than the unsigned one) is a quantity that the code adds
    and takes away again: exact over the rationals, a rounding error of the size of that quantity in binary64."""
    N = N or Normalizer()
    out = []
    seen = set()

    def units(x, sign, acc):
        if isinstance(x, tuple) and x and x[0] in ("+", "-") and len(x) == 3:
            units(x[1], sign, acc)
            units(x[2], sign if x[0] == "+" else -sign, acc)
        elif isinstance(x, tuple) and x and x[0] == "neg":
            units(x[1], -sign, acc)
        else:
            acc.append((sign, x))

    def visit(x, parent_additive=False):
        if not isinstance(x, tuple) or not x:
            return
        if not isinstance(x[0], str):
            for y in x:
                visit(y)
            return
        if id(x) in seen:
            return
        seen.add(id(x))
        h = x[0]
        if (h in ("+", "-", "neg") and not parent_additive) or (h in CMP and len(x) == 3):
            acc = []
            if h in CMP:
                # `a + L < b + L` decides by a - b over the rationals; in binary64 L absorbs the difference
                units(x[1], 1, acc)
                units(x[2], -1, acc)
            else:
                units(x, 1, acc)
            groups = {}
            prods = []   # summands that are plain products (one monomial over a constant denominator): (sign, atoms)
            for sg, u in acc:
                try:
                    r = N.rat(u).canon()   # (denominators scaled to leading coefficient 1: `P*2/2` lands in the group of `P`)
                except Exception:
                    continue
                if r.d.is_const() and len(r.n.t) == 1:
                    (k1_, v1_), = r.n.t.items()
                    if len(k1_) >= 2:
                        prods.append((sg * (1 if v1_ > 0 else -1), {a_ for a_, e_ in k1_}))
                g = groups.setdefault(r.d.key(), [Poly(), {}])
                g[0] = g[0] + (r.n if sg > 0 else -r.n)
                for k, v in r.n.t.items():
                    g[1][k] = g[1].get(k, 0) + abs(v)
            # `a*s - b*s` with a non-constant s: the difference is taken AFTER both products were rounded — when a is close to b the
            # result carries the rounding error of a*s, magnified (`x*scale - min*scale` for `(x - min)*scale`)
            if h not in CMP:
                for i_ in range(len(prods)):
                    for j_ in range(i_ + 1, len(prods)):
                        if prods[i_][0] != prods[j_][0] and (prods[i_][1] & prods[j_][1]) and prods[i_][1] != prods[j_][1]:
                            out.append("a difference of two products sharing the factor %s: each is rounded before the subtraction" % _mono(((sorted(prods[i_][1] & prods[j_][1], key=repr)[0], 1),)))
                            break
                    else:
                        continue
                    break
            if h in CMP and len(x) == 3 and x[1] != x[2] and groups and all(net.is_zero() for net, _ in groups.values()) \
                    and not (is_const(x[1]) and is_const(x[2])):
                # `x*3.0/3.0 == x`: both sides are the same rational function, so every matcher takes one fixed outcome; in binary64
                # the two sides round differently and the other arm runs
                out.append("a comparison of two differently spelt forms of the same quantity: its outcome is decided by rounding, not by the formula")
            for dk, (net, mag) in groups.items():
                for k, a in mag.items():
                    if k == ():
                        continue  # plain numbers: 1 - k etc.
                    c = net.t.get(k, 0)
                    # `m + (x - m)` loses a bit or two; what destroys a result is a cancelling quantity that is large against it:
                    # a big coefficient (x * 1e10, x * 999 * 999 * 999) or a product of values (x * period^3)
                    big = a >= 1000 or sum(e for _, e in k) >= 2
                    if (c == 0 and big) or (c != 0 and a / abs(c) >= ratio):
                        out.append("the quantity %s is added and subtracted again (sum of magnitudes %s, net coefficient %s)" % (_mono(k), float(a), float(c)))
        if h == "/" and len(x) == 3:
            # a factor that the quotient cancels: (t * v) / v is t over the rationals, 0/0 = NaN when v is 0 (and inf/inf when it overflows)
            try:
                rn, rd = N.rat(x[1]), N.rat(x[2])
                if rn.d.is_const() and rd.d.is_const() and not rd.n.is_const() and not rn.n.is_zero():
                    common = None
                    for k_ in list(rd.n.t) + list(rn.n.t):
                        vs = {a_ for a_, e_ in k_}
                        common = vs if common is None else (common & vs)
                    for v_ in (common or ()):
                        out.append("the quotient cancels the factor %s between numerator and denominator (0/0 when it is 0)" % _mono(((v_, 1),)))
                        break
            except Exception:
                pass
        if h == "*" and len(x) == 3:
            for z, o in ((x[1], x[2]), (x[2], x[1])):
                def risky(y):
                    if not (isinstance(y, tuple) and y):
                        return False
                    if y[0] == "/" and len(y) == 3:
                        # a quotient by an integer count converted to f64 (`1.0 / count as f64`) is C08-V1's business (count >= 1)
                        d_ = y[2]
                        while isinstance(d_, tuple) and d_ and d_[0] == "gamma":
                            d_ = d_[2] if (isinstance(d_[2], tuple) and d_[2][:1] == ("i2f",)) else d_[3]
                        return not (isinstance(d_, tuple) and d_[:1] == ("i2f",))
                    if y[0] == "c" and len(y) == 3 and isinstance(y[2], float) and (y[2] != y[2] or y[2] in (float("inf"), float("-inf"))):
                        return True   # a non-finite literal among the factors: 0 * inf
                    return y[0] in ("sqrt", "ucall", "ln", "exp", "powi", "powf")
                if isinstance(z, tuple) and len(z) == 3 and z[0] == "c" and z[1] in ("f64", "int") and z[2] == 0 and any(risky(y) for y in subterms(o)):
                    out.append("a product with the literal 0 whose other factor may be non-finite (0 * inf is NaN, not 0)")
        for y in x[1:]:
            visit(y, parent_additive=((h in ("+", "-", "neg") or (h in CMP and len(x) == 3)) and isinstance(y, tuple) and y and y[0] in ("+", "-", "neg")))

    visit(t)
    return out


def _mono(k):
    def nm(a):
        if isinstance(a, tuple) and a and a[0] in ("arg", "pre"):
            return str(a[1])
        return str(a)[:60]
    return " * ".join(nm(a) + ("^%d" % e if e != 1 else "") for a, e in k) or "1"
