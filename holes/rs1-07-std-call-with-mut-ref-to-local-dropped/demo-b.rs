// C01: MeanAbsoluteDeviation(n) = mean absolute deviation about the window mean of the last min(t,n) inputs
use ta::indicators::MeanAbsoluteDeviation;
use ta::Next;
fn main() {
    let mut mad = MeanAbsoluteDeviation::new(4).unwrap();
    let stream = [1.0, 5.0, 2.0, 2.0e9];
    let mut got = 0.0;
    for &x in stream.iter() { got = mad.next(x); }
    let mean = stream.iter().sum::<f64>() / 4.0;
    let want = stream.iter().map(|v| (v - mean).abs()).sum::<f64>() / 4.0;
    if (got - want).abs() > 1e-3 * 2.0 {
        eprintln!("C01 violated: MAD(4)={} but the window's mean absolute deviation is {}", got, want);
        std::process::exit(1);
    }
}
