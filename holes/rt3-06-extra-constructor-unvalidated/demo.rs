// C11: every constructor returns Err(InvalidParameter) iff a period argument is 0.
// (and, downstream, C09: EMA stays within [history min, history max])
use ta::errors::Result;
use ta::indicators::ExponentialMovingAverage as Ema;
use ta::Next;

// Only so that this file also compiles against the original crate, which has no `with_period`:
// an inherent associated fn (patched crate) takes precedence over this trait fn.
trait Compat: Sized {
    fn with_period(period: usize) -> Result<Self>;
}
impl Compat for Ema {
    fn with_period(period: usize) -> Result<Self> {
        Ema::new(period)
    }
}

fn main() {
    match Ema::with_period(0) {
        Err(_) => println!("ok: period 0 rejected"),
        Ok(mut ema) => {
            println!("VIOLATION C11: a public constructor accepted period 0 and built `{}`", ema);
            let xs = [10.0, 11.0, 12.0, 11.0, 10.0, 12.0];
            let outs: Vec<f64> = xs.iter().map(|&x| ema.next(x)).collect();
            println!("inputs in [10, 12], outputs {:?}  (C09: EMA must stay within the hull of its history)", outs);
            std::process::exit(1);
        }
    }
}
