// C12: next() must return normally in every state reachable through the public API.
use ta::indicators::EfficiencyRatio;
use ta::Next;

// On the original crate `restart` does not exist: the call below then resolves to this no-op, so that the same
// program builds against both trees (an inherent method takes precedence over a trait method).
trait MaybeRestart {
    fn restart(&mut self) {}
}
impl MaybeRestart for EfficiencyRatio {}

fn main() {
    let r = std::panic::catch_unwind(|| {
        let mut er = EfficiencyRatio::new(5).unwrap();
        for i in 0..3 {
            er.next(i as f64);
        }
        er.restart();
        er.next(1.0);
    });
    if r.is_err() {
        eprintln!("C12 violated: EfficiencyRatio::next panicked (slice index starts after its end)");
        std::process::exit(1);
    }
}
