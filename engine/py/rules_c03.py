"""C03 — oscillators equal their documented formulas (step-function part)."""
import ir
import symex
from infra import Report, Sink
from rules_spec import run_units

UNITS = ["RelativeStrengthIndex", "FastStochastic", "SlowStochastic", "PercentagePriceOscillator", "CommodityChannelIndex", "OnBalanceVolume",
         "RateOfChange", "MoneyFlowIndex"]
RULE = {"ctor": "O1", "output": "O2", "post-state": "O2", "feed": "O3", "feed-count": "O3", "feed-extra": "O3"}


def er_facts(F, S):
    """EfficiencyRatio: |x_t - x_{t-n}| / sum |dx| -- the parts visible without ring semantics"""
    import symex
    import typestate
    from norm import Normalizer, equal
    from terms import cu, cf, mk_gamma, show, subterms
    fn = F.method("EfficiencyRatio", "next", trait="Next", next_input="f64")
    if fn is None:
        S.bad("O4", "anchor", "EfficiencyRatio", "EfficiencyRatio::next(f64) not found")
        return
    tss, classes = typestate.all_structs(F)
    ts = tss["EfficiencyRatio"]
    try:
        r = symex.evaluate(F, fn, canon=True)
    except symex.Unsupported as e:
        S.bad("O4", "unrecognised", fn.label, "UNRECOGNISED idiom: %s" % e)
        return
    if not (ts.buffers and ts.cursors and ts.counters):
        S.bad("O4", "state-shape", "EfficiencyRatio", "EfficiencyRatio has no ring buffer / cursor / counter any more")
        return
    buf, cur = list(ts.buffers)[0], list(ts.cursors)[0]
    cnt, (pf, _) = list(ts.counters.items())[0]
    x = ("arg", "a0")
    pb = ("pre", "self." + buf)
    E_ = ("select", pb, ("pre", "self." + cur))
    first = mk_gamma(("<=", ("pre", "self." + pf), ("pre", "self." + cnt)), E_, ("select", pb, cu(0)))
    ret = r["ret"]
    ok_shape = isinstance(ret, tuple) and ret[0] == "/"
    if ok_shape:
        okn, cx = equal(ret[1], ("abs", ("-", first, x)))
        import specs as _sp
        hz_ = _sp.float_hazard(ret[1], ("abs", ("-", first, x))) if okn else None
        if not hz_ and okn:
            from norm import hazards as _hz
            for lay_ in [d_ for d_ in subterms(ret[2]) if isinstance(d_, tuple) and d_ and d_[0] == "accum"]:
                hh_ = _hz(lay_[2])
                if hh_:
                    hz_ = hh_[0]
                    break
        if hz_:
            okn = False
            S.bad("O4", "foreign-constant", fn.label, "%s computes the efficiency ratio with %s: equal to the documented formula in real arithmetic only" % (fn.label, hz_), "%s:%s" % (fn.span["file"], fn.span["line"]))
        elif okn:
            S.ok("O4", "ER numerator = |reference - x|, reference = the slot about to be overwritten once the window is full (slot 0 during warm-up)")
        else:
            S.bad("O4", "er-numerator", fn.label, "%s: numerator is %s; documented |x_t - x_{t-n}| (reference %s)" % (fn.label, show(ret[1])[:140], show(first)[:100]), "%s:%s" % (fn.span["file"], fn.span["line"]))
        den = ret[2]
        ex = r["exec"]
        layers = []
        good = True

        def summands(x):
            if isinstance(x, tuple) and x[0] == "+":
                return summands(x[1]) + summands(x[2])
            return [x]
        for d in summands(den):  # one running sum, or partial sums over the two runs of the ring added up
            n0 = len(layers)
            while isinstance(d, tuple) and d[0] == "accum":
                layers.append(d)
                d = d[1]
            good = good and d == cf(0.0) and len(layers) > n0
        post_b = r["heap"].get("self." + buf)
        # the window holds the raw inputs: exactly one store per call, of the input itself, at the write cursor
        if post_b == ("store", pb, ("pre", "self." + cur), x):
            S.ok("O4", "ER window: one store of the raw input at the write cursor per call")
        else:
            S.bad("O4", "er-window", fn.label, "%s leaves the window as %s; the formula is over the raw inputs: exactly store(window, cursor, input)" % (fn.label, show(post_b)[:160]), "%s:%s" % (fn.span["file"], fn.span["line"]))
        for lay in layers:
            inc = lay[2]
            if not (isinstance(inc, tuple) and inc[0] == "abs" and isinstance(inc[1], tuple) and inc[1][0] == "-"):
                good = False
                continue
            sides = inc[1][1:]
            # each scan runs over a slice of the ring and reads the element its own loop variable points at — a loop that keeps
            # reading one fixed slot, or is not over the ring at all, is a detour in the chain of differences
            iv_ = ("ivar", lay[3])
            bnd_ = ex.ivar_bounds.get(iv_) or {}
            if not any(isinstance(s_, tuple) and s_[0] == "select" and s_[1] == post_b and s_[2] == iv_ for s_ in sides) or bnd_.get("array") != ("self", buf):
                good = False
            if not any(isinstance(s_, tuple) and s_[0] == "lv" for s_ in sides):
                good = False
        # `previous` must be seeded with the reference value and carried: set to the element just visited, unconditionally, and
        # handed from one scan to the next — otherwise the differences do not form a chain from the reference to the input
        prev_term = first
        for lay in sorted(layers, key=lambda l_: l_[3]):
            inc = lay[2]
            if not (isinstance(inc, tuple) and inc[0] == "abs" and isinstance(inc[1], tuple) and inc[1][0] == "-"):
                continue
            lvs = [s_ for s_ in inc[1][1:] if isinstance(s_, tuple) and s_[0] == "lv"]
            elems = [s_ for s_ in inc[1][1:] if isinstance(s_, tuple) and s_[0] == "select"]
            info = ex.loop_info.get(lay[3])
            if len(lvs) != 1 or len(elems) != 1 or info is None:
                good = False
                continue
            summ = info["summaries"].get(lvs[0][2])
            if isinstance(summ, tuple):
                summ = typestate.canon_state(F, "EfficiencyRatio", summ)   # loop summaries are stored raw: same spelling as the terms
            chain_ok = isinstance(summ, tuple) and summ[0] == "pick" and (summ[1] == prev_term or equal(summ[1], prev_term)[0]) and set(summ[2]) == {elems[0]} and summ[4] == elems[0]
            if not chain_ok:
                good = False
                S.bad("O4", "er-chain", fn.label, "%s: in the volatility scan `previous` is %s (seed %s); it must start at the reference value and become each visited element in turn"
                      % (fn.label, show(summ)[:100], show(summ[1])[:60] if isinstance(summ, tuple) and len(summ) > 1 else "?"), "%s:%s" % (fn.span["file"], fn.span["line"]))
            prev_term = summ
        if good:
            S.ok("O4", "ER denominator = sum over the window (%d slice loop(s)) of |previous - element|, starting from 0" % len(layers))
        else:
            S.bad("O4", "er-denominator", fn.label, "%s: denominator %s is not a sum of absolute successive differences over the window" % (fn.label, show(den)[:140]), "%s:%s" % (fn.span["file"], fn.span["line"]))
    else:
        S.bad("O4", "er-shape", fn.label, "%s does not return a quotient" % fn.label)


RESET_SCOPE = ["RelativeStrengthIndex", "FastStochastic", "SlowStochastic", "RateOfChange", "EfficiencyRatio", "PercentagePriceOscillator", "CommodityChannelIndex",
               "MoneyFlowIndex", "OnBalanceVolume", "ExponentialMovingAverage", "Minimum", "Maximum", "SimpleMovingAverage", "MeanAbsoluteDeviation"]


def run(tier, repo=None, tag="repo"):
    rep = Report("C03", tier)
    rep.rule("O1", "constructor wiring of each oscillator equals the documented construction", 15)
    rep.rule("O2", "output term and state post-terms equal the documented formula (all gamma outcomes, real-arithmetic normal form)", 14)
    rep.rule("O3", "each component is stepped once per call with the documented series (bar-typed calls are followed through the resolved callee's delegation)", 15)
    rep.rule("O4", "EfficiencyRatio: numerator |reference - x| with the documented reference selection; denominator a sum of absolute successive differences over the window", 2)
    rep.rule("O0", "state shape / recognised idioms", 0)
    configs = ["default"] + (["release"] if tier == "thorough" else [])
    for cfg in configs:
        F = ir.load(cfg, repo, tag)
        S_ = run_units("C03", UNITS, None, rep, F, lambda k: RULE.get(k, "O0"))
        er_facts(F, S_)
    # "evaluated from scratch on the history": the history restarts at reset(), which is only true if reset() restores the constructor state
    rep.rule("O5", "reset() restores the constructor state of the nine oscillators and of the components they embed (C04's rules), so 'the history' restarts there; no other method writes their state", 14)
    import rules_c01
    F0 = ir.load("default", repo, tag)
    rules_c01.reset_premise(F0, rep, "O5", RESET_SCOPE)
    # the step-function match is modular: "SMA_n(TP)", "MAD_n(TP)", "low_n", "high_n" in the documented formulas are the window functionals,
    # and O2 only shows that the oscillators feed and combine their components as documented.  That the windowed components compute those
    # functionals is C01's I1 / I4 / I6 / I7 (with the ring-lemma premises L0), re-established here on the current tree
    rep.rule("O6", "the windowed components the formulas name compute their window functionals: SimpleMovingAverage (I1) and MeanAbsoluteDeviation (I4) inside CCI, Minimum (I6) and Maximum (I7) inside the stochastics (C01's rules)", 5)
    from rules_c09 import _Map
    from rules_c14 import mirror
    m_ = _Map(rep, {"I1": "O6", "I4": "O6", "I6": "O6", "I7": "O6", "L0": "O6"})
    try:
        rules_c01.apply(F0, m_)
        rules_c01.extreme_unit(F0, m_, "Minimum", "I6")
        rules_c01.extreme_unit(F0, m_, "Maximum", "I7", transform=mirror)
    except (symex.Unsupported, KeyError, IndexError, TypeError, AttributeError) as e:
        Sink.bad(m_, "O6", "unrecognised", "window-components", "UNRECOGNISED idiom while establishing the window functionals of the components: %r" % (e,))
    rep.configs = configs
    rep.explanation = ("step-function match for RSI, FastStochastic, SlowStochastic, PPO, CCI and OBV against the documented formulas; for RateOfChange and "
                       "MoneyFlowIndex the complete step function *given the ring reads* (which slot is read, what is stored, how totals are adjusted, warm-up "
                       "selection, first output) and for EfficiencyRatio the numerator/denominator shape. NOT decided: that the slot read is x_{t-n} / the popped "
                       "flow is the one added n steps earlier (ring semantics: necessary structure is C17/C12), tolerances")
    rep.assumptions = ["real-arithmetic equality; components satisfy their own specs (modular)",
                       "ring semantics (slot i holds the input fed i steps ago) is not decided here; its structural preconditions are C12 (cursor typestate) and C17 (cyclic overwrite)"]
    return rep
