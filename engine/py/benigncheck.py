#!/usr/bin/env python3
"""Behaviour-preserving refactorings written by independent sub-agents (kept under /verif/churn/<group>/NN-slug.diff
with an index.json): every check must stay SILENT on each of them.  Static only: the patch is applied to a scratch
copy of /repo and the checks analyse that copy.

  benigncheck.py [group ...] [--props C03,C12] [--only 03-slug] [-j N]
"""
import json
import os
import shutil
import subprocess
import sys
from concurrent.futures import ThreadPoolExecutor

HERE = os.path.dirname(os.path.abspath(__file__))
VERIF = os.path.dirname(os.path.dirname(HERE))
sys.path.insert(0, HERE)
import extract  # noqa
import seedcheck  # noqa
from main import PROPS  # noqa

CHURN = os.path.join(VERIF, "churn")


def run_one(group, patch, props):
    sid = "churn-%s-%s-%d" % (group, patch[:-5], os.getpid())
    d = seedcheck.scratch(sid)
    out = {}
    try:
        ok, msg = seedcheck.apply_patch(d, os.path.join(CHURN, group, patch))
        if not ok:
            return {"error": "patch does not apply: " + msg[-300:]}
        shutil.rmtree(os.path.join(d, ".git"), ignore_errors=True)
        for p in props:
            r = subprocess.run([sys.executable, os.path.join(HERE, "main.py"), p, "--repo", d, "--tag", sid, "--no-evidence"],
                               stdout=subprocess.PIPE, stderr=subprocess.STDOUT, text=True)
            if r.returncode != 0:
                keys = [ln.strip().split("  rule=")[0] for ln in r.stdout.splitlines() if ln.startswith("  " + p + ":")]
                out[p] = {"rc": r.returncode, "keys": keys[:8], "tail": "" if keys else r.stdout[-500:]}
    finally:
        shutil.rmtree(d, ignore_errors=True)
        extract.drop_scratch(sid)
    return out


def main():
    args = sys.argv[1:]
    props = [p for p in PROPS if os.path.exists(os.path.join(HERE, "rules_%s.py" % p.lower()))]
    only = None
    jobs = 5
    groups = []
    i = 0
    while i < len(args):
        if args[i] == "--props":
            props = args[i + 1].split(",")
            i += 2
        elif args[i] == "--only":
            only = args[i + 1]
            i += 2
        elif args[i] == "-j":
            jobs = int(args[i + 1])
            i += 2
        else:
            groups.append(args[i])
            i += 1
    groups = groups or sorted(g for g in os.listdir(CHURN) if os.path.isdir(os.path.join(CHURN, g)))
    work = []
    for g in groups:
        for f in sorted(os.listdir(os.path.join(CHURN, g))):
            if f.endswith(".diff") and (only is None or f.startswith(only)):
                work.append((g, f))
    alarms = 0
    with ThreadPoolExecutor(max_workers=jobs) as ex:
        futs = [(g, f, ex.submit(run_one, g, f, props)) for g, f in work]
        for g, f, fu in futs:
            res = fu.result()
            if not res:
                print("silent  %s/%s" % (g, f))
            elif "error" in res:
                print("ERROR   %s/%s %s" % (g, f, res["error"]))
                alarms += 1
            else:
                alarms += 1
                for p, x in res.items():
                    print("ALARM   %s/%s %s rc=%s %s %s" % (g, f, p, x["rc"], "; ".join(x["keys"]), x["tail"].replace("\n", " | ")[:300]))
            sys.stdout.flush()
    print("%d refactorings, %d with alarms" % (len(work), alarms))
    return 1 if alarms else 0


if __name__ == "__main__":
    sys.exit(main())
