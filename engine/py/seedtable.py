#!/usr/bin/env python3
"""Annotate seeded/<id>/meta.json with what was confirmed here (verify.json) and which checks report the change
(checks.txt), and print the markdown table of DESIGN.md section 9.7.  Reads only files under /verif/seeded."""
import json
import os
import re
import sys

ROOT = os.path.join(os.path.dirname(os.path.abspath(__file__)), "..", "..", "seeded")


def reporting(d):
    out = []
    p = os.path.join(d, "checks.txt")
    if os.path.exists(p):
        for line in open(p):
            m = re.match(r"(C\d\d)\s+rc=(\d+)", line)
            if m and m.group(2) != "0":
                out.append(m.group(1))
    return out


def main():
    rows = []
    own = 0
    for name in sorted(os.listdir(ROOT)):
        d = os.path.join(ROOT, name)
        mp = os.path.join(d, "meta.json")
        if not os.path.exists(mp):
            continue
        meta = json.load(open(mp))
        checks = reporting(d)
        vp = os.path.join(d, "verify.json")
        confirmed = None
        if os.path.exists(vp):
            confirmed = bool(json.load(open(vp)).get("confirmed"))
        meta["confirmed_in_scratch_copy"] = confirmed
        meta["static_checks"] = {"reported_by": checks, "reported_by_own_property": meta.get("property") in checks}
        if "--annotate" in sys.argv:
            json.dump(meta, open(mp, "w"), indent=1)
            open(mp, "a").write("\n")
        if meta.get("property") in checks:
            own += 1
        clean = lambda t: re.sub(r"\s+", " ", str(t)).replace("|", "/")
        rows.append("| `%s` | %s | %s | %s |" % (name, clean(meta.get("summary", ""))[:150], clean(meta.get("needs_to_manifest", ""))[:130], ", ".join(checks) or "**none**"))
    print("| seed | change | needs, to manifest | reported by |")
    print("|------|--------|--------------------|-------------|")
    print("\n".join(rows))
    print("\n%d seeds; %d reported by the check of the property they were written against; %d reported by no check"
          % (len(rows), own, sum(1 for r in rows if "**none**" in r)))


if __name__ == "__main__":
    main()
