// C01 / C13: Minimum(n) returns exactly the least of the last min(t, n) inputs.   C14: Maximum(x) = -Minimum(-x) exactly.
// C09: Minimum <= Maximum over the same stream.
use ta::indicators::{Maximum, Minimum};
use ta::Next;

fn main() {
    let mut bad = 0usize;
    for &n in &[3usize, 10, 11, 14] {
        let mut mn = if n == 14 { Minimum::default() } else { Minimum::new(n).unwrap() };
        let mut mx = Maximum::new(n).unwrap();
        let mut hist: Vec<f64> = vec![];
        let mut wrong = 0usize;
        let mut example = String::new();
        for t in 0..400usize {
            let x = 100.0 + ((t * 7919) % 101) as f64 * 0.25;
            hist.push(x);
            let got = mn.next(x);
            let mirrored = -mx.next(-x);
            let start = hist.len().saturating_sub(n);
            let want = hist[start..].iter().cloned().fold(f64::INFINITY, f64::min);
            if got != want || got != mirrored {
                wrong += 1;
                if example.is_empty() {
                    example = format!("t={}: Minimum={} but window min={} (and -Maximum(-x)={})", t + 1, got, want, mirrored);
                }
            }
        }
        println!("Minimum({:>2}): {} of 400 outputs wrong  {}", n, wrong, example);
        bad += wrong;
    }
    if bad > 0 {
        println!("VIOLATED: for every period > 10 the rescan is skipped whenever the cached minimum is evicted");
        std::process::exit(1);
    }
    println!("ok");
}
