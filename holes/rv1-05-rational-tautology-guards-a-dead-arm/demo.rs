// C03 / C15: PPO line = 100*(EMA_fast - EMA_slow)/EMA_slow on any stream of positive prices (also C14: dimensionless, unchanged
// under rescaling of the prices).
use ta::indicators::{ExponentialMovingAverage, PercentagePriceOscillator};
use ta::Next;

fn main() {
    let mut ppo = PercentagePriceOscillator::new(12, 26, 9).unwrap();
    let (mut f, mut s) = (ExponentialMovingAverage::new(12).unwrap(), ExponentialMovingAverage::new(26).unwrap());
    let mut bad = 0;
    let mut seed: u64 = 12345;
    let mut x = 100.0;
    for t in 0..200 {
        seed = seed.wrapping_mul(6364136223846793005).wrapping_add(1442695040888963407);
        x *= 1.0 + (((seed >> 33) % 2001) as f64 - 1000.0) * 1e-5; // a random walk of +-1% steps, prices like 101.3742...
        let o = ppo.next(x);
        let (fv, sv) = (f.next(x), s.next(x));
        let want = 100.0 * (fv - sv) / sv;
        if (o.ppo - want).abs() > 1e-9 {
            bad += 1;
            if bad <= 3 {
                println!("t={} x={} ppo={} documented={}", t + 1, x, o.ppo, want);
            }
        }
    }
    if bad > 0 {
        println!("VIOLATED: {} of 200 PPO values are 0 instead of the documented value", bad);
        std::process::exit(1);
    }
    println!("ok");
}
