// C15 / C02: AverageTrueRange equals ExponentialMovingAverage fed with TrueRange, on any stream.
use ta::indicators::{AverageTrueRange, ExponentialMovingAverage, TrueRange};
use ta::Next;

fn main() {
    let mut atr = AverageTrueRange::new(3).unwrap();
    let mut tr = TrueRange::new();
    let mut ema = ExponentialMovingAverage::new(3).unwrap();
    let stream = [10.0, 11.0, 12.5, 2.0e9, 12.0, 13.0, 12.0];
    let mut bad = 0;
    for (t, &x) in stream.iter().enumerate() {
        let got = atr.next(x);
        let want = ema.next(tr.next(x));
        let tol = (1e-12 + 1e-15 * ((t + 1) as f64).powf(1.5)) * 2.0e9;
        if (got - want).abs() > tol {
            eprintln!("C15 violated at t={}: ATR(3)={} but EMA(3) fed with TrueRange gives {}", t, got, want);
            bad += 1;
        }
    }
    if bad > 0 {
        std::process::exit(1);
    }
}
