// C06: serialize at ANY point of a stream (including before the first input), deserialize, and all future outputs are the same.
// deps: ta (feature "serde"), bincode 1, serde_json
use ta::indicators::{AverageTrueRange, TrueRange};
use ta::Next;

fn main() {
    let mut bad = 0;
    // fresh TrueRange -> bincode -> back
    let tr = TrueRange::new();
    let bytes = bincode::serialize(&tr).unwrap();
    match bincode::deserialize::<TrueRange>(&bytes) {
        Ok(mut back) => {
            let mut orig = tr.clone();
            for x in [10.0, 12.0, 9.0] {
                if orig.next(x) != back.next(x) {
                    bad += 1;
                }
            }
        }
        Err(e) => {
            eprintln!("fresh TrueRange does not survive a bincode round trip ({} bytes): {}", bytes.len(), e);
            bad += 1;
        }
    }
    // the same inside a composite, after reset()
    let mut atr = AverageTrueRange::new(3).unwrap();
    atr.next(10.0);
    atr.next(11.0);
    ta::Reset::reset(&mut atr);
    let bytes = bincode::serialize(&atr).unwrap();
    match bincode::deserialize::<AverageTrueRange>(&bytes) {
        Ok(mut back) => {
            for x in [10.0, 12.0, 9.0] {
                let (a, b) = (atr.next(x), back.next(x));
                if a != b {
                    eprintln!("ATR after round trip: {} vs {}", a, b);
                    bad += 1;
                }
            }
        }
        Err(e) => {
            eprintln!("reset AverageTrueRange does not survive a bincode round trip: {}", e);
            bad += 1;
        }
    }
    std::process::exit(if bad > 0 { 1 } else { 0 });
}
