// C01 / C17: SimpleMovingAverage(n) is the mean of exactly the last min(t, n) inputs, in every state reachable through
// the public API; whatever was fed more than n steps ago no longer matters.
// On the patched crate `SimpleMovingAverage: Next<[f64; 2]>` exists; one call of it leaves the running sum out of step
// with the window for ever.  Autoref specialisation lets the same program build on both trees.
use ta::indicators::SimpleMovingAverage;
use ta::Next;

struct Probe<'a, I>(&'a mut I);
trait Strong {
    fn fire(&mut self) -> bool;
}
trait Weak {
    fn fire(&mut self) -> bool;
}
impl<'a, I: Next<[f64; 2]>> Strong for Probe<'a, I> {
    fn fire(&mut self) -> bool {
        let _ = self.0.next([4.0, 100.0]);
        true
    }
}
impl<'a, I> Weak for &mut Probe<'a, I> {
    fn fire(&mut self) -> bool {
        false
    }
}

fn main() {
    let mut sma = SimpleMovingAverage::new(3).unwrap();
    for x in [1.0, 2.0, 3.0] {
        sma.next(x);
    }
    let fired = {
        let mut p = Probe(&mut sma);
        (&mut p).fire()
    };
    if !fired {
        sma.next(4.0);
    }
    // three more inputs: a 3-window now holds exactly 5, 6, 7 whatever the fourth input is taken to have been
    sma.next(5.0);
    sma.next(6.0);
    let got = sma.next(7.0);
    let want = 6.0;
    println!("SMA(3) after .., 5, 6, 7 = {} (window mean {})", got, want);
    if (got - want).abs() > 1e-9 {
        std::process::exit(1);
    }
}
