//! ta-facts: a rustc driver that exports a structural fact base (AST facts
//! after expansion, ADTs/impls from the type-checked crate, optimized MIR of
//! every body) as one JSON document. It contains no rule logic.
//!
//! Invocation: as RUSTC_WORKSPACE_WRAPPER (argv[1] = real rustc path, dropped).
//! Output path: $TA_FACTS_OUT (one write per process). If the variable is not
//! set the driver behaves like plain rustc.
#![feature(rustc_private)]
#![allow(clippy::all)]

extern crate rustc_abi;
extern crate rustc_ast;
extern crate rustc_ast_pretty;
extern crate rustc_driver;
extern crate rustc_hir;
extern crate rustc_interface;
extern crate rustc_middle;
extern crate rustc_span;

mod json;
mod astfacts;
mod mirfacts;

use json::J;
use rustc_driver::Compilation;
use rustc_interface::interface::Compiler;
use rustc_middle::ty::TyCtxt;

struct Cb {
    out: Option<String>,
    ast: Option<J>,
}

impl rustc_driver::Callbacks for Cb {
    fn after_expansion<'tcx>(&mut self, _c: &Compiler, tcx: TyCtxt<'tcx>) -> Compilation {
        if self.out.is_some() {
            self.ast = Some(astfacts::collect(tcx));
        }
        Compilation::Continue
    }

    fn after_analysis<'tcx>(&mut self, _c: &Compiler, tcx: TyCtxt<'tcx>) -> Compilation {
        if let Some(out) = &self.out {
            let mut doc = mirfacts::collect(tcx);
            if let J::Obj(ref mut v) = doc {
                v.push(("ast".into(), self.ast.take().unwrap_or(J::Null)));
                v.push((
                    "nonce".into(),
                    J::Str(std::env::var("TA_FACTS_NONCE").unwrap_or_default()),
                ));
                v.push((
                    "config".into(),
                    J::Str(std::env::var("TA_FACTS_CONFIG").unwrap_or_default()),
                ));
            }
            let mut s = String::new();
            doc.write(&mut s);
            std::fs::write(out, s).expect("ta-facts: cannot write fact file");
        }
        Compilation::Continue
    }
}

fn main() {
    let mut args: Vec<String> = std::env::args().collect();
    // wrapper mode: argv[1] is the path of the real rustc
    if args.len() > 1 && (args[1].ends_with("rustc") || args[1].contains("/rustc")) {
        args.remove(1);
    }
    // only the primary package gets facts; cargo sets CARGO_PRIMARY_PACKAGE
    let is_probe = args.iter().any(|a| a == "-vV" || a.starts_with("--print"))
        || args.iter().any(|a| a == "-");
    let out = if is_probe { None } else { std::env::var("TA_FACTS_OUT").ok() };
    let mut cb = Cb { out, ast: None };
    rustc_driver::run_compiler(&args, &mut cb);
}
