// C03: OnBalanceVolume = running sum of +volume / -volume / 0 by the sign of the close change, for every stream of bars.
// Typical user code: method-call syntax `obv.next(&item)` with the Next trait in scope.
use ta::indicators::OnBalanceVolume;
use ta::{DataItem, Next};

fn item(close: f64, volume: f64) -> DataItem {
    DataItem::builder().open(close).high(close).low(close).close(close).volume(volume).build().unwrap()
}

fn main() {
    let mut obv = OnBalanceVolume::new();
    // falling closes with heavy volume
    let closes = [10.0, 9.0, 8.0, 7.0, 6.0, 7.0];
    let vols = [1000.0, 400_000.0, 500_000.0, 600_000.0, 700_000.0, 100.0];
    let (mut want, mut prev) = (0.0f64, 0.0f64);
    let mut bad = 0;
    for i in 0..closes.len() {
        if closes[i] > prev { want += vols[i]; } else if closes[i] < prev { want -= vols[i]; }
        prev = closes[i];
        let got = obv.next(&item(closes[i], vols[i]));
        let ok = got == want;
        println!("t={} got={:>12} want={:>12} {}", i + 1, got, want, if ok { "" } else { "MISMATCH" });
        if !ok { bad += 1; }
    }
    if bad > 0 {
        eprintln!("C03 violated: OBV differs from the running signed volume sum on {} step(s)", bad);
        std::process::exit(1);
    }
}
