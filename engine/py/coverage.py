"""Code the symbolic evaluator never executed has not been analysed by anyone: a closure that only drop glue or an unmodelled
consumer would call, a helper that is summarised instead of inlined, a branch pruned by a fact that does not hold.  Every
property whose rules read evaluated terms relies on "the evaluated function IS the function"; this module states that premise
as a rule: every basic block of every hand-written non-constructor function and closure of the crate was executed on some path
of some evaluation (empty `unreachable` blocks of exhaustive matches excepted)."""
import symex

_cache = {}


def is_ctor(F, f, inds=None):
    inds = inds if inds is not None else set(F.indicators())
    return f.name == "new" and not f.d.get("impl_trait") and f.self_struct in inds


def _empty_arm(b):
    """the empty arm of `if cfg!(debug_assertions) { .. }` (a constant switch the evaluator folds): only `_n = ()` and a goto"""
    if b["term"]["k"] != "goto":
        return False
    for st in b["stmts"]:
        if st["k"] != "assign" or st["place"]["proj"]:
            return False
        rv = st["rv"]
        if not (rv["k"] == "use" and rv["op"]["k"] == "const" and rv["op"]["c"].get("ty") == "()"):
            return False
    return True


def gaps(F):
    """-> (list of (fn, [missing blocks]), number of functions covered, evaluation failures {path: message})"""
    k = id(F)
    if k in _cache:
        return _cache[k]
    inds = set(F.indicators())
    seen = set()
    failed = {}
    for f in F.fns:
        if is_ctor(F, f, inds) or f.kind == "Closure" or f.path in F.helpers():
            continue
        if f.derived:
            continue
        try:
            r = symex.evaluate(F, f)
            seen |= r["exec"].visited
        except symex.Unsupported as e:
            failed[f.path] = str(e)
        except Exception as e:  # fail closed: an evaluator crash leaves the function unanalysed
            failed[f.path] = "%s: %s" % (type(e).__name__, e)
    ctor_paths = [g.path for g in F.fns if is_ctor(F, g, inds)]
    out = []
    ok = 0
    covered = []
    for f in F.fns:
        if f.derived or is_ctor(F, f, inds) or any(f.path.startswith(c + "::") for c in ctor_paths):
            continue
        if f.path in F.helpers() and F.only_from_constructors(f.path):
            continue
        if f.path in failed:
            continue
        missing = [b for b in f.blocks if (f.path, b["id"]) not in seen and not (b["term"]["k"] == "unreachable" and not b["stmts"]) and not _empty_arm(b)]
        if missing:
            out.append((f, missing))
        else:
            ok += 1
            covered.append(f)
    _cache[k] = (out, covered, failed)
    return _cache[k]


def report(rep, F, cov=True):
    """add the premises to a property's report (rules COV and OWN)"""
    from infra import loc
    if not cov:
        return ownership(rep, F)
    rep.rule("COV", "premise shared by every rule that reads evaluated terms: no hand-written non-constructor code of the crate is left unexecuted by the evaluator", 100)
    g, covered, failed = gaps(F)
    ok = len(covered)
    r = rep.rules["COV"]
    for f, missing in g:
        rep.violation("%s:unanalysed-code:%s" % (rep.prop, f.label), "COV",
                      "%d basic block(s) of %s (first: bb%d) were never executed by the symbolic evaluation, so what they do to the state or the output is unknown to this check" % (len(missing), f.label, missing[0]["id"]), where=loc(f.span))
    for f in covered:
        r.ok(f.label)
    ownership(rep, F)
    return ok, g, failed


def ownership(rep, F):
    # ownership: the fields of an indicator are written by its constructor and its own methods only (directly, or through their
    # private helpers and closures).  Typestate, class invariants and reset rules reason by induction over exactly those methods; a
    # writer elsewhere — `impl From<&mut Sma> for usize`, a free function, another type's method — is outside every induction.
    import fieldclass
    rep.rule("OWN", "state ownership: every store into (or `&mut` of) a field of an indicator sits in that indicator's constructor or own methods, or in a private helper / closure reached only from them", 60)
    inds = set(F.indicators())
    stores = fieldclass.collect_stores(F)
    for (owner, field), sts in sorted(stores.items()):
        if owner not in inds:
            continue
        for x in sts:
            path = x[4] if len(x) > 4 else None
            roots = F.root_callers(path) if path else {None}
            bad = []
            for rp in roots:
                g = F.fn_by_path.get(rp)
                if g is None or g.self_struct != owner:
                    bad.append(rp)
            if bad:
                rep.violation("%s:foreign-writer:%s.%s:%s" % (rep.prop, owner, field, x[0]), "OWN",
                              "%s writes (or mutably borrows) %s.%s but is not a method of %s (reached from %s): the state can change outside every induction this check relies on" % (x[0], owner, field, owner, ", ".join(str(b_) for b_ in bad)[:160]))
            else:
                rep.rules["OWN"].ok("%s.%s <- %s" % (owner, field, x[0]))
    # the documented entry points are Next<f64> and Next<&T>: any further `Next<X>` impl is a way to step the indicator that no rule
    # about "next" looks at; and a method that hands out `&mut` into the state lets the caller write it
    for f in F.fns:
        if f.derived or f.self_struct not in inds:
            continue
        if f.trait_short == "Next" and (f.impl_trait or "").split("::")[0] not in ("std", "core"):
            a0 = (f.impl_trait_args or [{}])[0]
            ok_in = a0.get("s") == "f64" or (a0.get("k") == "ref" and not a0.get("mut") and (a0.get("to") or {}).get("k") == "param")
            if not ok_in:
                rep.violation("%s:undocumented-entry-point:%s" % (rep.prop, f.label), "OWN", "%s is a third way to step %s (documented: Next<f64> and Next<&T>): the rules about next() do not cover it" % (f.label, f.self_struct))
        rt = f.locals[0]["ty"] if f.locals else {}
        if "&mut" in str(rt.get("s", "")) and not f.is_ctor:
            rep.violation("%s:state-escapes:%s" % (rep.prop, f.label), "OWN", "%s returns %s: a mutable reference into the indicator lets its caller write the state directly" % (f.label, rt.get("s")))
