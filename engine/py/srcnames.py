"""Stable, line-free names for MIR operands: trace a temporary back to the user variable / field /
expression it was computed from (within the function), e.g. `volatility`, `count`, `up_ema+down_ema`."""

OPS = {"Add": "+", "Sub": "-", "Mul": "*", "Div": "/", "Rem": "%"}


def _defs(fn):
    d = {}
    for b in fn.mir["blocks"]:
        for st in b["stmts"]:
            if st["k"] == "assign" and not st["place"]["proj"]:
                d.setdefault(st["place"]["local"], []).append(st["rv"])
        t = b["term"]
        if t["k"] == "call" and not t["dest"]["proj"]:
            d.setdefault(t["dest"]["local"], []).append({"k": "call", "callee": t["callee"], "args": t["args"]})
    return d


def place_name(fn, place, defs, names, depth):
    fields = [e["name"] for e in place["proj"] if e["k"] == "field" and e["name"] not in ("0", "1", "pointer")]
    if fields:
        return ".".join(fields)
    l = place["local"]
    if l in names:
        return names[l]
    return local_name(fn, l, defs, names, depth)


def local_name(fn, l, defs, names, depth=0):
    if l in names:
        return names[l]
    if depth > 6 or l not in defs or len(defs[l]) != 1:
        return "_"
    return rv_name(fn, defs[l][0], defs, names, depth + 1)


def op_name(fn, o, defs, names, depth):
    if o["k"] in ("copy", "move"):
        return place_name(fn, o["place"], defs, names, depth)
    if o["k"] == "const":
        c = o["c"]
        return str(c.get("f64", c.get("int", "const")))
    return "_"


def rv_name(fn, rv, defs, names, depth=0):
    k = rv["k"]
    if k == "use":
        return op_name(fn, rv["op"], defs, names, depth)
    if k == "cast":
        return op_name(fn, rv["op"], defs, names, depth)
    if k == "binop":
        op = rv["op"].replace("WithOverflow", "")
        return "%s%s%s" % (op_name(fn, rv["a"], defs, names, depth), OPS.get(op, op), op_name(fn, rv["b"], defs, names, depth))
    if k == "call":
        nm = rv["callee"].get("name", "call")
        return "%s(%s)" % (nm, ",".join(op_name(fn, a, defs, names, depth) for a in rv["args"][:1]))
    return "_"


def operand_name(fn, operand):
    defs = _defs(fn)
    names = fn.debug_names()
    return op_name(fn, operand, defs, names, 0)


def div_names(fn, block_id, stmt_idx):
    try:
        st = fn.block_by_id[block_id]["stmts"][stmt_idx]
        rv = st["rv"]
        return operand_name(fn, rv["a"]), operand_name(fn, rv["b"])
    except (KeyError, IndexError, TypeError):
        return "1.0", "<the receiver of recip()>"   # a division that is not a `/` statement (`x.recip()`)
