//! Positive-control fixture: a tiny crate shaped like `ta` that violates every
//! zero-count rule of the checkers. It is analysed by the same rule code on
//! every run; each rule must fire on it. It is never part of /repo.
#![allow(dead_code, unused)]
pub mod errors;
pub mod indicators;
mod traits;
pub use crate::traits::*;
