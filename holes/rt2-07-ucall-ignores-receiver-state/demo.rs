// C03: RateOfChange(n) = 100*(x_t - x_{t-n})/x_{t-n} (first price while fewer than n earlier prices exist), on positive
// prices, within tau(t) = 1e-12 + 1e-15*t^1.5 relative (times the condition number of the ratio, here ~1).
use ta::indicators::RateOfChange;
use ta::Next;

fn main() {
    let n = 5usize;
    let mut roc = RateOfChange::new(n).unwrap();
    let mut hist: Vec<f64> = Vec::new();
    let mut worst = 0.0f64;
    for t in 1..=200u32 {
        let x = 100.0 + ((t * 29 % 97) as f64) * 0.5; // prices in [100, 148]
        hist.push(x);
        let got = roc.next(x);
        let r = if hist.len() > n { hist[hist.len() - 1 - n] } else { hist[0] };
        let want = (x - r) / r * 100.0;
        let tau = 1e-12 + 1e-15 * (t as f64).powf(1.5);
        // generous: allow 1000 * tau in output units (outputs are of order 10)
        let ratio = (got - want).abs() / (1000.0 * tau * 100.0);
        if ratio > worst { worst = ratio; }
        if t <= 3 || t % 50 == 0 {
            println!("t={:>3} ROC={:.9} formula={:.9} |diff|={:.3e}", t, got, want, (got - want).abs());
        }
    }
    println!("worst error = {:.1} x (1000 x the allowed tolerance)", worst);
    if worst > 1.0 {
        eprintln!("C03 violated: RateOfChange differs from 100*(x_t - x_(t-n))/x_(t-n)");
        std::process::exit(1);
    }
}
