# Table consumed by manifest_gen.py. claim(id, category, text, level_note, technique, design_ref); NA[id] = reason

claim("C19", "proof",
      "Each bullet of the statement is a trait-bound obligation; 360 obligations (22 indicators x Clone/Debug/Display/Default/Reset/Send/Sync/Unpin/'static, Next<&DataItem>, Next<&W> for minimal bar types, Next<f64> x18, Period x17, outputs, TaError, DataItem, serde impls) are type-checked by rustc in an external witness crate with and without the serde feature. The trait solver decides them for all client programs, which is exactly the property's quantifier.",
      "Trusted: rustc's trait solver; the obligation table in engine/py/witness.py transcribing the statement. Negative control (Rc<()>: Send must be rejected) runs every time.",
      "type checking of a trait-bound witness crate (compile-fail controlled)", "DESIGN.md §4 C19, §2.3")

claim("C05", "other",
      "Sufficient condition by Rust's ownership semantics, checked exactly over the whole crate in every configuration: no hand-written unsafe, no static/thread_local/interior-mutable const, every state field (transitively) in the grammar f64|usize|bool|Option<f64>|Box<[f64]>|crate struct, Clone is the builtin derive, every resolved callee of every function is crate-local, a user getter or in a classified deterministic std family (time, randomness, threads, cells, Rc, HashMap, raw pointers forbidden; unknown fails closed), no pointer-to-integer cast. Then next(&mut self, x) is a deterministic function of (*self, x) touching only memory owned by *self and clone copies it deeply, so independence under every interleaving/thread and run-to-run determinism follow without enumerating interleavings.",
      "Trusted: safe-Rust aliasing semantics; the std family classification in engine/py/callees.py; purity of user getters. Decides the structural sufficient condition, not observed outputs.",
      "ownership/effect analysis: type grammar + resolved-callee allowlist + AST item scan (rustc driver facts)", "DESIGN.md §4 C05")
claim("C06", "other",
      "Sufficient condition checked in the serde configuration: Serialize/Deserialize of all 22 indicators and DataItem are produced by serde_derive, carry no #[serde] attribute that skips/defaults/redirects a field (read from the expanded AST where inert attributes are still visible), all field types are in the lossless plain-data grammar, and the expanded derive has exactly one serialize_field / next_element / next_value+missing_field call per field. The restored value is then field-wise equal from every reachable state, so the checkpoint position is irrelevant.",
      "Trusted: serde_derive's expansion semantics, bit-exact primitives in the byte format (bincode), determinism (C05). Does not execute a round trip.",
      "impl provenance + attribute + expanded-derive call-count rules over serde-config facts", "DESIGN.md §4 C06")
claim("C18", "other",
      "Sufficient condition: indicator state contains no growable container (only Box<[f64]>, fixed length), no allocating or unclassified callee is reachable in the call graph from any of the 40 Next::next and 22 Reset::reset bodies, and buffers are created only in `new` aggregates (no re-store, no &mut of the Box). Feeding inputs therefore performs no allocation and cannot change the serialized size.",
      "Trusted: callee family classification; user getters do not allocate on the indicator's behalf; transient allocation in fmt/serde is not state. The static bincode size formula (G4) is added once the symbolic constructor evaluation exists.",
      "type grammar + call-graph reachability of allocating callees + buffer-store discipline", "DESIGN.md §4 C18")

claim("C04", "other",
      "Sufficient condition checked exactly for all 22 Reset impls: field classes (PARAM/STATE/BUFFER/NESTED) are computed from every MIR store in the crate; each `new` and each `reset` is evaluated symbolically (gated terms; fill loops summarised; nested resets kept as step nodes); for each of the 66 non-parameter fields the value after reset() must equal the constructor's value with parameters substituted, on every path; parameter fields are never written after construction; reset() reads no state (idempotence). With determinism (C05) equal fields give bit-identical futures for every history, including NaN/inf histories.",
      "Trusted: the symbolic evaluator (engine/py/symex.py) and its accepted reset idioms (field assignment, range fill loop, slice::fill); anything else is reported as UNRECOGNISED. Decides state equality, not observed outputs.",
      "field-class inference + gated symbolic evaluation of new/reset over MIR", "DESIGN.md §4 C04")
claim("C11", "other",
      "All clauses are about which constant or parameter reaches which place. Every constructor is evaluated symbolically with nested constructors inlined and `?` resolved, giving a closed gamma term: it must be Err(InvalidParameter) iff some usize argument is 0 (all 2^n zero/non-zero patterns), branch on nothing else, and reach no MIR Assert or panicking callee (so usize::MAX cannot panic). period()/multiplier() must return the field initialised from the argument; Display is checked from the AST format_args node (literal pieces, plain {} placeholders) with arguments resolved in MIR to the constructor parameters in order; default() must equal new(<documented constants>).",
      "Trusted: the symbolic evaluator; the NAME and default tables transcribed from the property statement; allocation failure for huge windows is outside the property.",
      "gated symbolic evaluation of constructors/accessors/Default + AST format_args rules", "DESIGN.md §4 C11")
claim("C16", "other",
      "build() touches its five Option<f64> payloads only through comparisons, so its behaviour on all of f64^5 is determined by the comparison set and how outcomes are combined. The gated term of build() is evaluated for all 32 presence patterns (Incomplete before any value comparison) and all 64 outcomes of the six comparisons (exactly the six non-strict ones, Ok iff all hold, Invalid otherwise, hence NaN rejected); setters write only their own field and return self; the aggregate and the five getters are wired to the same-named fields; DataItem derives Clone and PartialEq. Complete for this function.",
      "Trusted: the symbolic evaluator; IEEE comparison semantics. A rewrite through iterator combinators is not recognised and fails closed.",
      "gated symbolic evaluation of build() + exhaustive evaluation of its comparison structure", "DESIGN.md §4 C16")

_PENDING = "claimed in DESIGN.md but its checker is not built yet in this commit; listed here until the check exists (see DESIGN.md §7 build order)"
for _p in ["C02", "C03", "C07", "C08", "C09", "C10", "C12", "C14", "C15", "C17"]:
    NA[_p] = _PENDING
NA["C01"] = "numeric equality (within tau) of incremental window statistics with recomputation over runtime values: needs inductive array invariants plus floating-point error analysis, which no dataflow/typestate/shape analysis in reach delivers; a rule pinning the update expressions would be a frozen source fragment (DESIGN.md §4 C01)"
NA["C13"] = "bounds accumulated floating-point rounding error after up to 2e6 data-dependent updates; no static analysis in reach bounds rounding drift, and the only structural ingredient (all accumulators are f64) is too weak to carry the property (DESIGN.md §4 C13)"
