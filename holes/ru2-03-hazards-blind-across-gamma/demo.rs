// C03: OnBalanceVolume = running sum of +volume / -volume / 0 by the sign of the close change (first close compared with 0),
// within tau(t) * (largest cumulative volume), tau(t) = 1e-12 + 1e-15 * t^1.5.
use ta::indicators::OnBalanceVolume;
use ta::{DataItem, Next};

fn main() {
    let mut obv = OnBalanceVolume::new();
    let mut reference = 0.0f64; // plain running sum (the documented definition)
    let mut prev = 0.0f64;
    let mut scale = 0.0f64;
    let mut worst = 0.0f64;
    let mut worst_abs = 0.0f64;
    for t in 0..3000usize {
        let close = 100.0 + ((t * 7919) % 1013) as f64 * 0.01;
        let volume = 1000.0 + ((t * 104729) % 9973) as f64 * 0.137;
        let bar = DataItem::builder().open(close).high(close + 1.0).low(close - 1.0).close(close).volume(volume).build().unwrap();
        if close > prev {
            reference += volume;
        } else if close < prev {
            reference -= volume;
        }
        prev = close;
        scale = scale.max(reference.abs());
        let got = obv.next(&bar);
        let tau = 1e-12 + 1e-15 * ((t + 1) as f64).powf(1.5);
        worst_abs = worst_abs.max((got - reference).abs());
        worst = worst.max((got - reference).abs() / (tau * scale));
    }
    println!("largest cumulative volume {:.1}; worst |OBV - reference| = {:.3e} = {:.3e} x tau(t)*scale", scale, worst_abs, worst);
    if worst > 1.0 {
        println!("VIOLATED");
        std::process::exit(1);
    }
    println!("ok");
}
