// C01 / C13: MeanAbsoluteDeviation(n) = mean absolute deviation about the window mean of exactly the last min(t, n) inputs,
// within tau(t) = 1e-12 + 1e-15 * t^1.5 times the largest magnitude fed so far; no drift over long streams.
use ta::indicators::MeanAbsoluteDeviation;
use ta::Next;

fn reference(w: &[f64]) -> f64 {
    let n = w.len() as f64;
    let mean = w.iter().sum::<f64>() / n;
    w.iter().map(|v| (v - mean).abs()).sum::<f64>() / n
}

fn main() {
    let n = 40;
    let mut mad = MeanAbsoluteDeviation::new(n).unwrap();
    let mut hist: Vec<f64> = vec![];
    let mut worst = 0.0f64;
    let mut maxmag = 0.0f64;
    for t in 0..2000usize {
        let x = 100.0 + ((t * 37) % 17) as f64; // positive prices 100..116
        hist.push(x);
        maxmag = maxmag.max(x.abs());
        let got = mad.next(x);
        let start = hist.len().saturating_sub(n);
        let want = reference(&hist[start..]);
        let tau = 1e-12 + 1e-15 * ((t + 1) as f64).powf(1.5);
        let err = (got - want).abs() / (tau * maxmag);
        if err > worst {
            worst = err;
        }
    }
    println!("worst |MAD - reference| / (tau(t) * max|x|) = {:.3e}", worst);
    if worst > 1.0 {
        println!("VIOLATED");
        std::process::exit(1);
    }
    println!("ok");
}
