// C04: after reset() all subsequent outputs equal those of a newly constructed indicator with the same parameters.
use ta::indicators::{ExponentialMovingAverage, MovingAverageConvergenceDivergence};
use ta::{Next, Reset};

fn main() {
    let xs = [10.0, 11.0, 12.5, 11.75, 13.0];
    let mut bad = 0;

    let mut used = ExponentialMovingAverage::new(100).unwrap();
    for &x in &xs {
        used.next(x);
    }
    used.reset();
    let mut fresh = ExponentialMovingAverage::new(100).unwrap();
    for &x in &xs {
        let (a, b) = (used.next(x), fresh.next(x));
        if a.to_bits() != b.to_bits() {
            println!("VIOLATION C04: EMA(100) after reset returns {} but a fresh EMA(100) returns {}", a, b);
            bad += 1;
        }
    }

    // every composite built on EMA inherits it
    let mut used = MovingAverageConvergenceDivergence::new(12, 120, 9).unwrap();
    for &x in &xs {
        used.next(x);
    }
    used.reset();
    let mut fresh = MovingAverageConvergenceDivergence::new(12, 120, 9).unwrap();
    for &x in &xs {
        let (a, b) = (used.next(x), fresh.next(x));
        if a != b {
            println!("VIOLATION C04: MACD(12, 120, 9) after reset returns {:?} but a fresh one returns {:?}", a, b);
            bad += 1;
        }
    }
    if bad > 0 {
        std::process::exit(1);
    }
    println!("ok");
}
