// C01 / C17: SimpleMovingAverage(3) must return the mean of exactly the last 3 inputs, and an outlier must stop
// influencing the result 3 steps after it was fed.
use ta::indicators::SimpleMovingAverage;
use ta::Next;

fn main() {
    let mut sma = SimpleMovingAverage::new(3).unwrap();
    let stream = [1.0, 2.0, 3.0, 2.0e9, 5.0, 7.0, 1.0, 2.0, 3.0, 4.0, 5.0, 6.0];
    let mut bad = 0;
    for (t, &x) in stream.iter().enumerate() {
        let got = sma.next(x);
        let lo = t.saturating_sub(2);
        let w = &stream[lo..=t];
        let want = w.iter().sum::<f64>() / w.len() as f64;
        let maxmag = 2.0e9_f64;
        let tol = (1e-12 + 1e-15 * ((t + 1) as f64).powf(1.5)) * maxmag;
        if (got - want).abs() > tol {
            eprintln!("t={} input={} SMA(3)={} but the mean of the last 3 inputs is {}", t, x, got, want);
            bad += 1;
        }
    }
    // C17: 3 steps after the outlier the output must equal that of a fresh indicator fed the last 3 inputs
    let mut fresh = SimpleMovingAverage::new(3).unwrap();
    fresh.next(4.0);
    fresh.next(5.0);
    let f = fresh.next(6.0);
    let mut again = SimpleMovingAverage::new(3).unwrap();
    let mut last = 0.0;
    for &x in stream.iter() {
        last = again.next(x);
    }
    if (last - f).abs() > 1e-3 {
        eprintln!("C17 violated: after history SMA(3)={} but a fresh SMA(3) fed the last 3 inputs gives {}", last, f);
        bad += 1;
    }
    if bad > 0 {
        std::process::exit(1);
    }
}
