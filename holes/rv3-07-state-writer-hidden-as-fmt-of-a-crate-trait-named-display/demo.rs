// C01 / C17: SimpleMovingAverage(n) is the mean of exactly the last min(t, n) inputs in every state reachable through the public API.
// On the patched crate `ta::Display` (a crate trait, glob-exported from ta like Next/Reset/Period) has `fmt(&mut self, ())`,
// whose impl for SimpleMovingAverage rewinds the ring cursor alone.  The fallback trait lets the program build on both trees:
// `r.fmt(())` on `r: &mut SimpleMovingAverage` picks ta::Display::fmt (receiver &mut SMA, by-value step) when it exists.
#![allow(unused_imports)]
use ta::indicators::SimpleMovingAverage;
use ta::*;

trait Fallback {
    fn fmt(&mut self, _sink: ()) -> usize;
}
impl Fallback for &mut SimpleMovingAverage {
    fn fmt(&mut self, _sink: ()) -> usize {
        usize::MAX
    }
}

fn main() {
    let mut sma = SimpleMovingAverage::new(3).unwrap();
    for x in [1.0, 2.0, 3.0, 4.0] {
        sma.next(x);
    }
    {
        let mut r = &mut sma;
        let k = r.fmt(());
        println!("fmt(()) -> {}", if k == usize::MAX { "fallback (no such API)".to_string() } else { k.to_string() });
    }
    let got = sma.next(10.0);
    let want = (3.0 + 4.0 + 10.0) / 3.0;
    println!("SMA(3) after 1, 2, 3, 4, 10 = {} (window mean {})", got, want);
    if (got - want).abs() > 1e-9 {
        std::process::exit(1);
    }
}
