"""C18 — state size and heap use depend on the parameters only, never on stream length."""
import callees
import callgraph
import grammar
import ir
from infra import BAD_FIXTURE, Report, Sink, loc
from ir import short



def _can_replace_through(f, local, seen):
    """`local` holds `&mut Box<[f64]>` (e.g. from `let Self { deque, .. } = self`).  The buffer can be *replaced* through it only if
    the reference is assigned through as a whole (`*r = ..`), handed to a call, or copied somewhere that is; element stores
    (`(**r)[i] = x`) and reads do not change the buffer's length."""
    if local in seen:
        return False
    seen.add(local)
    for b in f.mir["blocks"]:
        if b["cleanup"]:
            continue
        for st in b["stmts"]:
            if st["k"] != "assign":
                continue
            pl = st["place"]
            if pl["local"] == local and [e["k"] for e in pl["proj"]] == ["deref"]:
                return True
            rv = st["rv"]
            ops = [rv.get("op"), rv.get("a"), rv.get("b")] + list(rv.get("ops", []))
            for o in ops:
                if isinstance(o, dict) and o.get("k") in ("copy", "move") and o["place"]["local"] == local and not o["place"]["proj"]:
                    if pl["proj"] or _can_replace_through(f, pl["local"], seen):
                        return True
            if rv["k"] in ("ref", "rawptr") and rv["place"]["local"] == local and [e["k"] for e in rv["place"]["proj"]] == ["deref"] and rv.get("mut"):
                if pl["proj"] or _can_replace_through(f, pl["local"], seen):
                    return True
        t = b["term"]
        if t["k"] == "call":
            for a in t["args"]:
                if isinstance(a, dict) and a.get("k") in ("copy", "move") and a["place"]["local"] == local and not a["place"]["proj"]:
                    return True
    return False

def g1_grammar(F, S):
    for name in F.indicators():
        adt = F.adt_by_short[name]
        for f in adt["variants"][0]["fields"]:
            ok, kind, det = grammar.classify_type(F, f["ty"], {name})
            if ok:
                S.ok("G1", "%s.%s" % (name, f["name"]), ty=f["ty"]["s"], kind=kind)
            else:
                S.bad("G1", "growable-or-foreign-state", "%s.%s" % (name, f["name"]),
                      "field %s.%s: %s — the only heap owner allowed in state is Box<[f64]>, whose length cannot change" % (name, f["name"], det), loc(adt["span"]))


def stream_roots(F):
    roots = []
    for f in F.fns:
        if f.impl_trait and f.d.get("impl_trait") and f.trait_short in ("Next", "Reset") and not f.derived:
            # crate-local Next / Reset traits only
            if F.local_trait(f.trait_short):
                roots.append(f)
    return roots


def g2_alloc(F, S):
    roots = stream_roots(F)
    sites, chains = callgraph.external_sites(F, roots)
    for f, t, cls, fam, chain in sites:
        name = callees.callee_name(t["callee"])
        if cls == "allocates":
            S.bad("G2", "alloc-in-stream-path", "%s->%s" % (chain[0], name),
                  "allocating callee %s is reachable from %s (via %s): feeding inputs may allocate" % (name, chain[0], " -> ".join(chain)), loc(t["span"]))
        elif cls in ("unknown", "forbidden"):
            S.bad("G2", "unclassified-in-stream-path", "%s->%s" % (chain[0], name),
                  "%s callee %s reachable from %s: cannot show it does not allocate" % (cls, name, chain[0]), loc(t["span"]))
    for r in roots:
        S.ok("G2", r.label, reachable_fns=len([1 for p, c in chains.items() if c[0] == r.label]))
    return roots


def g3_buffer_stores(F, S):
    """whole-field stores to / &mut borrows of Box<[f64]> fields outside constructors and derived impls"""
    n = 0
    for f in F.fns:
        if f.derived:
            continue
        for b in f.blocks:
            for st in b["stmts"]:
                if st["k"] != "assign":
                    continue
                pl = st["place"]
                if pl["proj"] and pl["proj"][-1]["k"] == "field" and pl["ty"].startswith("std::boxed::Box<["):
                    S.bad("G3", "buffer-restore", "%s:%s" % (f.label, pl["proj"][-1]["name"]),
                          "%s stores a new buffer into field `%s` after construction: the window can be re-allocated with another length" % (f.label, pl["proj"][-1]["name"]), loc(st["span"]))
                if len(pl["proj"]) == 1 and pl["proj"][0]["k"] == "deref" and f.self_struct and not f.is_ctor \
                        and any(x["ty"]["s"].startswith("std::boxed::Box<[") for x in (F.struct_fields(f.self_struct) or [])) \
                        and str(pl.get("ty", "")).endswith(f.self_struct):
                    # `*self = other`: replaces the window together with everything else
                    S.bad("G3", "whole-self-store", f.label, "%s assigns a whole new value to `*self`: the window buffer is replaced after construction (its length need not be the period any more)" % f.label, loc(st["span"]))
                rv = st["rv"]
                if rv["k"] == "ref" and rv["mut"]:
                    p2 = rv["place"]
                    if p2["proj"] and p2["proj"][-1]["k"] == "field" and p2["ty"].startswith("std::boxed::Box<[") \
                            and (st["place"]["proj"] or _can_replace_through(f, st["place"]["local"], set())):
                        S.bad("G3", "buffer-mut-borrow", "%s:%s" % (f.label, p2["proj"][-1]["name"]),
                              "%s takes `&mut` of the whole buffer field `%s` (it can be replaced through the reference); UNRECOGNISED idiom" % (f.label, p2["proj"][-1]["name"]), loc(st["span"]))
                if rv["k"] == "aggregate" and rv.get("agg") == "adt" and not rv.get("is_enum"):
                    fields = F.struct_fields(short(rv["path"])) or []
                    if any(x["ty"]["s"].startswith("std::boxed::Box<[") for x in fields):
                        n += 1
                        par_ = F.fn_by_path.get(f.d.get("parent") or "") if f.kind == "Closure" else None
                        in_ctor = (f.is_ctor and f.self_struct == short(rv["path"])) or (par_ is not None and par_.is_ctor and par_.self_struct == short(rv["path"]))
                        if not in_ctor:
                            S.bad("G3", "buffer-aggregate", f.label, "%s builds a %s (with a buffer) outside its constructor" % (f.label, short(rv["path"])), loc(st["span"]))
                        else:
                            S.ok("G3", "%s aggregate in %s" % (short(rv["path"]), f.label))
    return n


RULES = [
    ("G1", "state types stay in the owned-plain-data grammar: the only heap owner is Box<[f64]>", 84),
    ("G2", "no allocating (or unclassified) callee is reachable from any Next::next / Reset::reset", 62),
    ("G3", "buffers are created only inside `new` aggregates; no whole-buffer store or &mut borrow elsewhere", 9),
]


def apply(F, S):
    g1_grammar(F, S)
    roots = g2_alloc(F, S)
    g3_buffer_stores(F, S)
    return roots


def run(tier, repo=None, tag="repo"):
    rep = Report("C18", tier)
    configs = ["default", "serde"] + (["release"] if tier == "thorough" else [])
    for rid, text, floor in RULES:
        rep.rule(rid, text, floor)
    from extract import ExtractError
    for cfg in list(configs):
        try:
            F = ir.load(cfg, repo, tag)
        except ExtractError as e:
            if cfg == "default":
                raise
            configs.remove(cfg)
            rep.notes.append("configuration %s does not build; analysed the others (a serde build failure is reported by C06/C19)" % cfg)
            continue
        apply(F, Sink(rep))
        rep.functions.update(f.path for f in F.fns)
    rep.configs = configs
    try:
        import sizeform
        sizeform.g4(ir.load("default", repo, tag), rep)
    except ImportError:
        rep.notes.append("G4 (static bincode size formula) not built yet")
    B = ir.load("default", BAD_FIXTURE, "bad")
    C = Sink(None, "C18")
    apply(B, C)
    rep.control("G1 Vec field", C.fired("growable-or-foreign-state", "BadShared.history"))
    rep.control("G2 Vec::push reachable from next", C.fired("alloc-in-stream-path", "push"))
    rep.control("G2 from_elem reachable from next", C.fired("alloc-in-stream-path", "from_elem"))
    rep.control("G3 buffer re-stored in next", C.fired("buffer-restore", "deque"))
    rep.explanation = ("type grammar over all indicator state (no growable container), call-graph reachability of allocating callees from every "
                       "Next::next/Reset::reset body, and buffer-store discipline; configurations " + ", ".join(configs))
    rep.assumptions = ["transient allocation inside fmt/serializers is not state", "user getters on the bar type do not allocate on behalf of the indicator",
                       "bincode's documented fixed-int encoding (G4)"]
    return rep
