use crate::errors::{Result, TaError};
use crate::{Close, Next, Period, Reset};
use std::cell::{Cell, RefCell};
use std::collections::HashMap;
use std::rc::Rc;
use std::time::Instant;
#[cfg(feature = "serde")]
use serde::{Deserialize, Serialize};

// S2: global mutable state, thread-local scratch, interior-mutable const
static mut CALLS: usize = 0;
static TABLE: [f64; 2] = [1.0, 2.0];
thread_local! { static SCRATCH: RefCell<Vec<f64>> = RefCell::new(Vec::new()); }
const COUNTER: Cell<usize> = Cell::new(0);

/// S3/S4/S5/S6, G1/G2: shared + growing + non-deterministic state, hand-written Clone
#[cfg_attr(feature = "serde", derive(Serialize, Deserialize))]
#[derive(Debug)]
pub struct BadShared {
    period: usize,
    #[cfg_attr(feature = "serde", serde(skip))]
    index: usize,
    #[cfg_attr(feature = "serde", serde(default))]
    sum: f64,
    history: Vec<f64>,
    #[cfg_attr(feature = "serde", serde(skip))]
    scratch: Rc<RefCell<Vec<f64>>>,
    #[cfg_attr(feature = "serde", serde(skip))]
    seen: HashMap<u64, f64>,
    deque: Box<[f64]>,
}

impl Clone for BadShared {
    fn clone(&self) -> Self {
        Self {
            period: self.period,
            index: self.index,
            sum: self.sum,
            history: self.history.clone(),
            scratch: Rc::clone(&self.scratch), // shared between clones
            seen: self.seen.clone(),
            deque: self.deque.clone(),
        }
    }
}

impl BadShared {
    pub fn new(period: usize) -> Result<Self> {
        match period {
            0 => Err(TaError::InvalidParameter),
            _ => Ok(Self {
                period,
                index: 0,
                sum: 0.0,
                history: Vec::new(),
                scratch: Rc::new(RefCell::new(Vec::new())),
                seen: HashMap::new(),
                deque: vec![0.0; period + 1].into_boxed_slice(), // K2: overflow panic in a constructor
            }),
        }
    }
}

impl Next<f64> for BadShared {
    type Output = f64;
    fn next(&mut self, input: f64) -> f64 {
        unsafe { CALLS += 1; }                       // S1 + S2
        self.history.push(input);                    // G2: allocation reachable from next
        self.scratch.borrow_mut().push(input);       // S5 forbidden (RefCell)
        SCRATCH.with(|s| s.borrow_mut().push(input)); // S2/S5 thread-local
        let jitter = Instant::now().elapsed().as_nanos() as f64; // S5 time
        let addr = (&self.sum as *const f64) as usize; // S6 address leak
        self.seen.insert(addr as u64, input);        // S5 HashMap
        self.deque = vec![0.0; self.period + 1].into_boxed_slice(); // G3 re-allocation
        self.index += 1;
        self.sum += input + jitter * 0.0 + TABLE[0];
        self.sum / (self.history.len() as f64)
    }
}

impl Reset for BadShared {
    fn reset(&mut self) {
        self.sum = 0.0;
        // index not reset; history not cleared
    }
}

/// serde: hand-written impls and lossy attributes
#[derive(Debug, Clone)]
pub struct BadManualSerde {
    period: usize,
    value: f64,
}
#[cfg(feature = "serde")]
impl Serialize for BadManualSerde {
    fn serialize<S: serde::Serializer>(&self, s: S) -> std::result::Result<S::Ok, S::Error> {
        s.serialize_u64(self.period as u64) // drops `value`
    }
}
#[cfg(feature = "serde")]
impl<'de> Deserialize<'de> for BadManualSerde {
    fn deserialize<D: serde::Deserializer<'de>>(d: D) -> std::result::Result<Self, D::Error> {
        let p = u64::deserialize(d)?;
        Ok(Self { period: p as usize, value: 0.0 })
    }
}
impl Reset for BadManualSerde {
    fn reset(&mut self) { self.value = 0.0; }
}
impl Next<f64> for BadManualSerde {
    type Output = f64;
    fn next(&mut self, input: f64) -> f64 { self.value = input; input }
}

/// no Serialize/Deserialize at all, raw pointer field, unsafe impl
#[derive(Debug, Clone)]
pub struct BadRaw {
    ptr: *const f64,
    f: fn(f64) -> f64,
}
unsafe impl Send for BadRaw {}
impl Reset for BadRaw {
    fn reset(&mut self) {}
}
impl Next<f64> for BadRaw {
    type Output = f64;
    fn next(&mut self, input: f64) -> f64 { (self.f)(input) }
}
pub unsafe fn bad_unsafe_fn(p: *const f64) -> f64 { *p }

/// C08/C09 controls: unguarded division by a dispersion, sqrt of a signed quantity, band from a signed width
#[derive(Debug, Clone)]
pub struct BadDiv {
    period: usize,
    prev: f64,
    total: f64,
}
impl BadDiv {
    pub fn new(period: usize) -> Result<Self> {
        match period {
            0 => Err(TaError::InvalidParameter),
            _ => Ok(Self { period, prev: 0.0, total: 0.0 }),
        }
    }
}
impl Next<f64> for BadDiv {
    type Output = f64;
    fn next(&mut self, input: f64) -> f64 {
        let spread = (input - self.prev).abs();
        self.total = self.total + input - self.prev; // signed
        self.prev = input;
        let ratio = self.total / spread;             // 0/0 on a flat window
        ratio + self.total.sqrt()                    // sqrt of a possibly negative value
    }
}
impl Reset for BadDiv {
    fn reset(&mut self) {
        self.prev = 0.0;
        self.total = 0.0;
    }
}

impl BadDiv {
    /// C12 controls: a `while` loop (not iterator-driven) and unguarded index arithmetic
    pub fn spin(&mut self, xs: &[f64]) -> f64 {
        let mut i = 0;
        let mut acc = 0.0;
        while acc < 10.0 {
            acc += xs[i + self.period];
            i += 1;
        }
        acc
    }
}

impl BadDiv {
    pub fn at(&self, xs: &[f64]) -> f64 {
        xs[self.period + 1]
    }
}

/// C13 controls: an accumulator narrowed to f32, a fixed-point integer accumulator, a quantising call
#[derive(Debug, Clone)]
pub struct BadNarrow {
    period: usize,
    sum: f64,
    cents: i64,
}
impl BadNarrow {
    pub fn new(period: usize) -> Result<Self> {
        match period {
            0 => Err(TaError::InvalidParameter),
            _ => Ok(Self { period, sum: 0.0, cents: 0 }),
        }
    }
}
impl Next<f64> for BadNarrow {
    type Output = f64;
    fn next(&mut self, input: f64) -> f64 {
        self.sum = ((self.sum + input) as f32) as f64;      // narrowed on every step
        self.cents += (input * 100.0) as i64;               // fixed-point accumulator
        (self.sum * 100.0).round() / 100.0 + self.cents as f64
    }
}
impl Reset for BadNarrow {
    fn reset(&mut self) {
        self.sum = 0.0;
        self.cents = 0;
    }
}
