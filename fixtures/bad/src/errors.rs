pub type Result<T> = std::result::Result<T, TaError>;
#[derive(Debug, PartialEq, Eq, Clone)]
pub enum TaError { InvalidParameter }
