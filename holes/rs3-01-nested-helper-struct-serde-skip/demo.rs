// C06: a serialize -> deserialize round trip preserves the indicator's parameters and Display text.
// Needs `ta` with feature "serde" plus bincode (the format the crate's own serde test uses).
use ta::indicators::ExponentialMovingAverage;
use ta::{Next, Period};

fn main() {
    let mut ema = ExponentialMovingAverage::new(7).unwrap();
    for x in [10.0, 11.0, 12.5, 11.75] {
        ema.next(x);
    }
    let bytes = bincode::serialize(&ema).unwrap();
    let mut copy: ExponentialMovingAverage = bincode::deserialize(&bytes).unwrap();
    println!("original: {} period()={}   restored: {} period()={}", ema, ema.period(), copy, copy.period());
    let mut bad = false;
    if ema.period() != copy.period() {
        println!("VIOLATION C06: period() changed on a round trip: {} -> {}", ema.period(), copy.period());
        bad = true;
    }
    if ema.to_string() != copy.to_string() {
        println!("VIOLATION C06: Display text changed on a round trip: {} -> {}", ema, copy);
        bad = true;
    }
    // the numeric state is carried: outputs still agree, which is why the crate's serde unit test stays green
    assert_eq!(ema.next(13.0).to_bits(), copy.next(13.0).to_bits());
    if bad {
        std::process::exit(1);
    }
    println!("ok");
}
