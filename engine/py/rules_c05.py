"""C05 — clones and separate instances are independent and deterministic.
Ownership + effect closure: no shared / hidden / non-deterministic state is expressible."""
import re

import callees
import grammar
import ir
from infra import BAD_FIXTURE, Report, Sink, loc
from ir import short


def hand_written(span):
    """a construct the crate's authors wrote: not produced by a derive or a foreign macro"""
    if not span.get("exp"):
        return True
    if span.get("exp_kind") == "Derive":
        return False
    if span.get("exp_local"):
        return True  # local macro_rules: still the crate's own code
    return False


def s1_unsafe(F, S):
    a = F.ast
    n = 0
    for b in a["unsafe_blocks"]:
        if b["user"] and hand_written(b["span"]):
            S.bad("S1", "unsafe-block", "/".join(b["ctx"]["path"]), "hand-written `unsafe` block", loc(b["span"]))
        n += 1
    for f in a["fns"]:
        if f["unsafe"] and hand_written(f["span"]):
            S.bad("S1", "unsafe-fn", "/".join(f["ctx"]["path"] + [f["name"]]) if f["ctx"]["path"][-1:] != [f["name"]] else "/".join(f["ctx"]["path"]),
                  "hand-written `unsafe fn`", loc(f["span"]))
        elif f["ext"] and hand_written(f["span"]):
            S.bad("S1", "extern-fn", "/".join(f["ctx"]["path"]), "extern \"ABI\" fn", loc(f["span"]))
        else:
            S.ok("S1", "fn " + "/".join(f["ctx"]["path"]))
    for i in a["impls"]:
        if i["unsafe"] and hand_written(i["span"]):
            S.bad("S1", "unsafe-impl", "%s for %s" % (i["trait"], i["self_ty"]), "hand-written `unsafe impl`", loc(i["span"]))
    for o in a["other"]:
        if o["kind"] in ("foreign_mod", "global_asm", "inline_asm"):
            S.bad("S1", o["kind"], loc(o["span"]).split(":")[0], "%s item: foreign code is outside the analysis" % o["kind"], loc(o["span"]))


def s2_globals(F, S):
    a = F.ast
    for st in a["statics"]:
        S.bad("S2", "static", st["name"], "`static%s %s: %s` — global state shared by all instances"
              % (" mut" if st["mut"] else "", st["name"], st["ty"]), loc(st["span"]))
    for it in F.d["items"]:
        if not it["freeze"]:
            S.bad("S2", "interior-mutable-const", it["path"], "%s `%s` of type %s has interior mutability" % (it["kind"], it["path"], it["ty"]["s"]), loc(it["span"]))
        elif "LocalKey" in it["ty"]["s"]:
            S.bad("S2", "thread-local", it["path"], "thread_local! key `%s`" % it["path"], loc(it["span"]))
        else:
            S.ok("S2", "const " + it["path"], ty=it["ty"]["s"])
    for f in F.fns:
        for b in f.blocks:
            for st in b["stmts"]:
                if st["k"] == "assign" and st["rv"]["k"] == "thread_local_ref":
                    S.bad("S2", "thread-local-ref", f.label, "thread-local access in %s" % f.label, loc(st["span"]))
                if st["k"] == "assign":
                    for o in _operands(st["rv"]):
                        c = o.get("c") if o.get("k") == "const" else None
                        if c and c.get("ptr_to") and "Static" in c["ptr_to"]:
                            S.bad("S2", "static-ref", f.label, "%s reads/writes a static (%s)" % (f.label, c["ptr_to"]), loc(st["span"]))
    S.ok("S2", "scan: %d fns, %d const items, %d static items" % (len(F.fns), len(F.d["items"]), len(a["statics"])))


def _operands(rv):
    k = rv["k"]
    if k in ("use", "cast", "repeat"):
        return [rv["op"]]
    if k == "binop":
        return [rv["a"], rv["b"]]
    if k == "unop":
        return [rv["a"]]
    if k == "aggregate":
        return rv["ops"]
    return []


def s3_grammar(F, S):
    for name in grammar.state_structs(F):
        adt = F.adt_by_short[name]
        if adt["generics"]["params"]:
            S.bad("S3", "grammar", name, "struct %s is generic: its state is not plain owned data decided here" % name, loc(adt["span"]))
            continue
        for f in adt["variants"][0]["fields"]:
            ok, kind, det = grammar.classify_type(F, f["ty"], {name})
            if ok:
                S.ok("S3", "%s.%s" % (name, f["name"]), ty=f["ty"]["s"], kind=kind)
            else:
                S.bad("S3", "grammar", "%s.%s" % (name, f["name"]), "field %s.%s: %s" % (name, f["name"], det), loc(adt["span"]), ty=f["ty"]["s"])


def is_builtin_derive(impl, macro):
    d = impl.get("derive") or {}
    return bool(impl.get("auto_derived")) and d.get("kind") == "Derive" and d.get("name") == macro and d.get("macro_krate") in ("core", "std")


def s4_clone(F, S):
    for name in grammar.state_structs(F):
        cl = F.impls_of("Clone", name)
        if not cl:
            S.bad("S4", "clone-missing", name, "%s has no Clone impl" % name, loc(F.adt_by_short[name]["span"]))
            continue
        for i in cl:
            if is_builtin_derive(i, "Clone"):
                S.ok("S4", name, derive="core::clone::Clone (builtin derive)", at=loc(i["span"]))
            else:
                S.bad("S4", "clone-handwritten", name, "Clone for %s is not the builtin #[derive(Clone)]: a hand-written clone may share or drop state" % name, loc(i["span"]))


SERDE_TRAITS = ("Serialize", "Deserialize", "Visitor", "DeserializeSeed", "Expected")


def s5_scope(F):
    """functions that implement the operations C05 speaks of (construct, feed, reset, clone, read parameters, format):
    everything reachable from a method of a crate type or crate trait impl, except impls of serde traits
    (serialization is C06's subject; its helpers run only when the user serializes)."""
    import callgraph
    roots = []
    for f in F.fns:
        tr = f.trait_short or ""
        krate_serde = "serde" in (f.impl_trait or "")
        if f.kind == "Closure":
            continue
        if f.self_struct is not None and not krate_serde and tr not in SERDE_TRAITS:
            roots.append(f)
    chains = callgraph.reach(F, roots)
    return [F.fn_by_path[p] for p in chains]


def s5_effects(F, S):
    seen = {}
    for f in s5_scope(F):
        for b, t in f.calls():
            cls, fam = callees.classify(t["callee"], F.d["crate"])
            name = callees.callee_name(t["callee"])
            where = loc(t["span"])
            if cls in ("forbidden", "unknown"):
                what = "forbidden callee (shared/hidden/non-deterministic state or raw memory)" if cls == "forbidden" else "UNRECOGNISED callee (not in any classified family; fails closed)"
                S.bad("S5", "callee-" + cls, "%s->%s" % (f.label, name), "%s calls %s: %s" % (f.label, name, what), where, family=fam)
            elif cls == "serde" and not (f.derived and (f.d.get("impl_derive") or {}).get("name") in ("Serialize", "Deserialize")):
                S.bad("S5", "callee-serde-outside-derive", "%s->%s" % (f.label, name), "%s calls the serde runtime outside a derived impl" % f.label, where)
            else:
                seen.setdefault((cls, name), 0)
                seen[(cls, name)] += 1
        for b in f.blocks:
            if b["term"]["k"] in ("inline_asm", "tailcall", "other"):
                S.bad("S5", "terminator", f.label, "unsupported terminator %s" % b["term"]["k"], loc(b["term"]["span"]))
    for (cls, name), n in sorted(seen.items()):
        S.ok("S5", "%s %s" % (cls, name), call_sites=n)
    return seen


def _ub_check_locals(f):
    """locals that exist only for a compiler-inserted pointer check: defined and used in one block whose terminator is
    `assert(.., MisalignedPointerDereference | NullPointerDereference)` and mentioned nowhere else in the function"""
    import json
    out = set()
    uses = {}
    for b in f.mir["blocks"]:
        txt = json.dumps(b)
        for m in set(__import__("re").findall(r'"local": (\d+)', txt)):
            uses.setdefault(int(m), set()).add(b["id"])
    for b in f.mir["blocks"]:
        t = b["term"]
        if t["k"] == "assert" and t["msg"]["kind"] in ("MisalignedPointerDereference", "NullPointerDereference"):
            for st in b["stmts"]:
                if st["k"] == "assign" and not st["place"]["proj"] and uses.get(st["place"]["local"]) == {b["id"]}:
                    out.add((b["id"], st["place"]["local"]))
    return out


def s6_addr(F, S):
    n = 0
    for f in F.fns:
        ub = _ub_check_locals(f)
        for b in f.blocks:
            for st in b["stmts"]:
                if st["k"] != "assign" or st["rv"]["k"] != "cast":
                    continue
                rv = st["rv"]
                n += 1
                if (b["id"], st["place"]["local"]) in ub and not st["place"]["proj"]:
                    continue  # the address only feeds the alignment / null assert the compiler added in debug builds
                to_int = rv["ty"].get("k") == "prim" and rv["ty"]["s"] not in ("f64", "f32", "bool", "char", "str", "!")
                from_ptr = rv["from_ty"].startswith(("*", "&", "fn", "unsafe fn", "std::ptr::NonNull", "extern"))
                if rv["kind"].startswith("PointerExposeProvenance") or (rv["kind"] == "Transmute" and to_int and from_ptr) or rv["kind"] == "PointerWithExposedProvenance":
                    S.bad("S6", "address-cast", f.label, "%s casts %s to %s (%s): an address can leak into a computation" % (f.label, rv["from_ty"], rv["ty"]["s"], rv["kind"]), loc(st["span"]))
    # addresses can also leak through a comparison of two pointers (which of two objects lies lower in memory)
    ncmp = 0
    for f in F.fns:
        if f.derived:
            continue
        for b in f.blocks:
            for st in b["stmts"]:
                if st["k"] == "assign" and st["rv"]["k"] == "binop" and st["rv"].get("op") in ("Lt", "Le", "Gt", "Ge", "Eq", "Ne", "Cmp"):
                    ty = str(st["rv"].get("operand_ty", ""))
                    if ty.startswith(("*const", "*mut")) or (ty.startswith("&") and st["rv"].get("op") in ("Lt", "Le", "Gt", "Ge", "Cmp")):
                        ncmp += 1
                        S.bad("S6", "address-compare", f.label, "%s compares two pointers (%s %s): the outcome depends on where objects happen to live" % (f.label, st["rv"]["op"], ty), loc(st["span"]))
            t = b["term"]
            if t["k"] == "call":
                nm = callees.strip_all_turbofish(callees.callee_name(t["callee"]) or "")
                if re.search(r"ptr::(eq|addr_eq|from_ref)$|<impl \*(const|mut) .*>::(addr|offset_from|is_null|cast|expose\w*)$|cmp::impls::<impl (std|core)::cmp::\w+(<.*>)? for \*(const|mut)", nm):
                    S.bad("S6", "address-compare", "%s->%s" % (f.label, nm), "%s calls %s: addresses must not take part in a computation" % (f.label, nm), loc(t["span"]))
    S.ok("S6", "scan: %d casts, none exposes an address; no pointer comparison" % n)


ALLOWED_CFG = re.compile(r'^\s*(test|doc|doctest|feature\s*=\s*"serde"|not\(\s*test\s*\)|not\(\s*feature\s*=\s*"serde"\s*\))\s*,?\s*$')


BUILD_MACROS = {"env", "option_env", "include", "include_str", "include_bytes", "line", "column", "file", "module_path", "cfg_match", "cfg_select"}
DEBUG_MACROS = {"debug_assert", "debug_assert_eq", "debug_assert_ne"}
PURE_IN_ASSERT = {"is_finite", "is_nan", "is_infinite", "len", "is_empty", "abs", "is_some", "is_none", "period"}
TARGET_IDENT = re.compile(r"^(size_of|size_of_val|align_of|align_of_val|swap_bytes|(from|to)_(ne|be|le)(_bytes)?|target_[a-z_]+)$")
CONST_OK_IDENT = {"f64", "f32", "u8", "u16", "u32", "u64", "i8", "i16", "i32", "i64", "bool", "true", "false", "as", "core", "std", "consts",
                  "INFINITY", "NEG_INFINITY", "EPSILON", "MAX", "MIN", "MIN_POSITIVE", "NAN", "PI", "E", "SQRT_2", "LN_2", "LN_10"}


def s7_cfg(repo_dir, S, F=None):
    """conditional compilation: the analysis sees the configurations `default` and `serde` (debug profile).  Any other switch
    (`debug_assertions`, target, an extra feature, the build environment) would select code the analysis never looks at — the same
    source would behave differently under another build, which no check here could notice.  Decided on the TOKENS of every file
    under src/ (whatever its extension: `include!`d fragments too), so spacing, comments and string contents do not matter."""
    import os
    import rustlex
    n = 0
    nfiles = 0
    consts_seen = {}
    for root, dirs, files in os.walk(os.path.join(repo_dir, "src")):
        dirs.sort()
        for fn in sorted(files):
            path = os.path.join(root, fn)
            rel = os.path.relpath(path, repo_dir)
            try:
                toks = rustlex.tokens(open(path, encoding="utf-8", errors="replace").read())
            except Exception as e:  # pragma: no cover
                S.bad("S7", "unreadable-source", rel, "%s cannot be tokenised (%r): its conditional compilation is unknown" % (rel, e), rel)
                continue
            nfiles += 1

            def bad(i, slug, what):
                S.bad("S7", slug, "%s:%s" % (rel, what[:40]), "%s:%d: %s: the analysed configurations (default, serde; debug profile, this host) do not cover every build of this source" % (rel, toks[i][2], what), "%s:%d" % (rel, toks[i][2]))

            def tk(i):
                return toks[i][1] if 0 <= i < len(toks) else ""
            handled = set()
            pred_spans = []

            def in_pred(i):
                return any(a_ <= i < b_ for a_, b_ in pred_spans)
            # predicate token ranges of well-formed attributes / cfg! calls (idents inside them are part of the predicate)
            for i0 in range(len(toks)):
                if toks[i0][0] == "ident" and toks[i0][1].replace("r#", "") in ("cfg", "cfg_attr") and tk(i0 + 1) == "(" and tk(i0 - 1) == "[" and tk(i0 - 2) in ("#", "!"):
                    e0, _ = rustlex.balanced(toks, i0 + 1)
                    pred_spans.append((i0 + 1, e0))
                if toks[i0][0] == "ident" and toks[i0][1].replace("r#", "") == "cfg" and tk(i0 + 1) == "!" and tk(i0 + 2) in ("(", "[", "{"):
                    e0, _ = rustlex.balanced(toks, i0 + 2)
                    pred_spans.append((i0 + 2, e0))
            for i, (kind, t, line) in enumerate(toks):
                # attributes: # [!] [ name ( .. ) ]
                if kind == "punct" and t == "#":
                    j = i + 1
                    if tk(j) == "!":
                        j += 1
                    if tk(j) == "[" and toks[j + 1][0] == "ident" if j + 1 < len(toks) else False:
                        name = tk(j + 1)
                        if name in ("cfg", "cfg_attr") and tk(j + 2) == "(":
                            _, inner = rustlex.balanced(toks, j + 2)
                            handled.add(j + 1)
                            if name == "cfg_attr":
                                depth, cut = 0, len(inner)
                                for q, (k2, t2, _) in enumerate(inner):
                                    depth += t2 in "([{" if k2 == "punct" else 0
                                    depth -= t2 in ")]}" if k2 == "punct" else 0
                                    if depth == 0 and k2 == "punct" and t2 == ",":
                                        cut = q
                                        break
                                payload = inner[cut + 1:]
                                # the attribute that is switched on may itself be a cfg: `cfg_attr(not(test), cfg(debug_assertions))`
                                for q, (k2, t2, _) in enumerate(payload):
                                    if k2 == "ident" and t2.replace("r#", "") in ("cfg", "cfg_attr") :
                                        bad(i, "conditional-code", "cfg_attr(..) switches on another %s attribute" % t2)
                                inner = inner[:cut]
                            pred = rustlex.text(inner)
                            n += 1
                            if not ALLOWED_CFG.match(pred):
                                bad(i, "conditional-code", "code selected by cfg(%s)" % pred[:60])
                        elif name in ("no_mangle", "export_name", "link_section", "link_name", "used", "naked", "target_feature", "global_allocator", "panic_handler"):
                            bad(i, "linkage-attribute", "#[%s] changes how the item is linked or called from outside the crate" % name)
                        elif name == "path":
                            bad(i, "path-attribute", "#[path = ..] pulls in a module from a place this scan may not cover")
                # macro calls: name ! ( / [ / {
                if kind == "ident" and t.startswith("r#"):
                    t = t[2:]   # raw identifiers name the same macros / attributes
                if kind == "ident" and tk(i + 1) == "!" and tk(i + 2) in ("(", "[", "{"):
                    if t == "cfg":
                        handled.add(i)
                        _, inner = rustlex.balanced(toks, i + 2)
                        pred = rustlex.text(inner)
                        n += 1
                        if not ALLOWED_CFG.match(pred):
                            bad(i, "conditional-code", "code selected by cfg!(%s)" % pred[:60])
                    elif t in BUILD_MACROS:
                        bad(i, "build-environment", "%s!(..) takes a value from the build environment / file system" % t)
                    elif t in DEBUG_MACROS:
                        _, inner = rustlex.balanced(toks, i + 2)
                        effect = None
                        for q, (k2, t2, _) in enumerate(inner):
                            nxt = inner[q + 1][1] if q + 1 < len(inner) else ""
                            prv = inner[q - 1][1] if q else ""
                            if k2 == "punct" and t2 == "=" and nxt != "=" and prv not in ("=", "<", ">", "!"):
                                effect = "an assignment"
                            elif k2 == "punct" and t2 == "{":
                                effect = "a block"
                            elif k2 == "ident" and t2 == "mut":
                                effect = "a mutable borrow"
                            elif k2 == "ident" and nxt == "(" and t2 not in PURE_IN_ASSERT:
                                effect = "a call of `%s`" % t2
                            elif k2 == "ident" and nxt == "!":
                                effect = "a macro call"
                            if effect:
                                break
                        n += 1
                        if effect:
                            bad(i, "debug-only-effect", "%s!(..) contains %s, which runs in debug builds only" % (t, effect))
                # `cfg` / `cfg_attr` / the profile switches anywhere else (handed to a macro that assembles the attribute or the
                # `cfg!` call from its arguments, ...) cannot be interpreted here
                if kind == "ident" and t in ("cfg", "cfg_attr", "debug_assertions", "overflow_checks") and i not in handled and not in_pred(i):
                    bad(i, "conditional-code", "the token `%s` outside a recognised #[cfg(..)] / #[cfg_attr(..)] / cfg!(..) form" % t)
                # target-dependent constants
                if kind == "ident" and (TARGET_IDENT.match(t) or (t in ("usize", "isize") and tk(i + 1) == "::" and tk(i + 2) in ("MAX", "MIN", "BITS"))):
                    bad(i, "target-dependent", "`%s` has a target-dependent value" % (t if TARGET_IDENT.match(t) else t + "::" + tk(i + 2)))
                # const items / inline const blocks: the initialiser must be spelt with literals
                if kind == "ident" and t == "const":
                    if tk(i + 1) == "{":
                        bad(i, "const-block", "inline `const { .. }` block (evaluated on the build host)")
                    elif i + 2 < len(toks) and toks[i + 1][0] == "ident" and tk(i + 1) not in ("fn", "unsafe", "extern", "async") and tk(i + 2) == ":" \
                            and tk(i - 1) not in ("<", ",", "*"):
                        # const NAME : ty = init ;   (not `const N: usize` in a generic parameter list, not `*const T`)
                        j = i + 3
                        depth = 0
                        while j < len(toks) and not (depth == 0 and toks[j][0] == "punct" and toks[j][1] in ("=", ";")):
                            depth += toks[j][1] in ("<", "(", "[") if toks[j][0] == "punct" else 0
                            depth -= toks[j][1] in (">", ")", "]") if toks[j][0] == "punct" else 0
                            j += 1
                        if j < len(toks) and toks[j][1] == "=":
                            k = j + 1
                            init = []
                            depth = 0
                            while k < len(toks) and not (depth == 0 and toks[k][0] == "punct" and toks[k][1] == ";"):
                                depth += toks[k][1] in ("(", "[", "{") if toks[k][0] == "punct" else 0
                                depth -= toks[k][1] in (")", "]", "}") if toks[k][0] == "punct" else 0
                                init.append(toks[k])
                                k += 1
                            def okc(q):
                                k2, t2, _ = init[q]
                                nxt = init[q + 1][1] if q + 1 < len(init) else ""
                                if k2 in ("num", "str", "char") or (k2 == "punct" and t2 in "+-*/().::,[]{}:"):
                                    return True
                                # a struct literal of literals: `Sums { weighted: 0.0, flat: 0.0 }` (type name before `{`, field name before `:`)
                                return k2 == "ident" and (t2 in CONST_OK_IDENT or t2 in consts_seen or nxt in ("{", ":"))
                            foreign = [init[q][1] for q in range(len(init)) if not okc(q)]
                            n += 1
                            if foreign:
                                bad(i, "const-initialiser", "const %s is initialised with `%s` (not literals): its value is whatever the build host computes" % (tk(i + 1), rustlex.text(init)[:60]))
                            else:
                                consts_seen[tk(i + 1)] = True
    # the build around the source: no build script, no symlink under src/, and a manifest that cannot change what the analysed
    # configurations mean (profiles may tune optimisation, not overflow checks / debug assertions; no patched or target-specific deps)
    for e_ in (".cargo", "rust-toolchain", "rust-toolchain.toml"):
        if os.path.exists(os.path.join(repo_dir, e_)):
            S.bad("S7", "cargo-config-in-tree", e_, "%s in the package directory configures the builds made *here* (the analysed one, cargo test) and nobody else's: the analysed configuration is not the users' configuration" % e_, e_)
    if os.path.exists(os.path.join(repo_dir, "build.rs")):
        S.bad("S7", "build-script", "build.rs", "the crate has a build script: it can emit cfg flags, environment variables and generated code that no analysed configuration reflects", "build.rs")
    for root, dirs, files in os.walk(os.path.join(repo_dir, "src")):
        for e_ in dirs + files:
            if os.path.islink(os.path.join(root, e_)):
                S.bad("S7", "symlink-in-src", os.path.relpath(os.path.join(root, e_), repo_dir), "%s is a symbolic link: the code behind it is outside the scanned tree" % os.path.relpath(os.path.join(root, e_), repo_dir))
    try:
        import tomllib
        with open(os.path.join(repo_dir, "Cargo.toml"), "rb") as fh:
            man = tomllib.load(fh)
    except Exception as e:
        man = None
        S.bad("S7", "manifest-unreadable", "Cargo.toml", "Cargo.toml cannot be parsed (%r)" % (e,), "Cargo.toml")
    if man is not None:
        for k_ in man:
            if k_ not in ("package", "badges", "dependencies", "dev-dependencies", "features", "bench", "example", "test", "lib", "profile"):
                S.bad("S7", "manifest-table", "Cargo.toml:[%s]" % k_, "Cargo.toml has a [%s] table: it can change how or from what the crate is built (UNRECOGNISED)" % k_, "Cargo.toml")
        for k_ in ("build", "links", "autobins", "autolib"):
            if k_ in (man.get("package") or {}):
                S.bad("S7", "manifest-key", "Cargo.toml:package.%s" % k_, "Cargo.toml sets package.%s" % k_, "Cargo.toml")
        for k_ in ("path", "proc-macro", "crate-type", "name"):
            if k_ in (man.get("lib") or {}):
                S.bad("S7", "manifest-key", "Cargo.toml:lib.%s" % k_, "Cargo.toml sets lib.%s: the library root is no longer src/lib.rs as analysed" % k_, "Cargo.toml")
        for k_, v_ in (man.get("dependencies") or {}).items():
            if not (k_ == "serde" and isinstance(v_, dict) and v_.get("optional") is True and not v_.get("path") and not v_.get("git")):
                S.bad("S7", "manifest-dependency", "Cargo.toml:dependencies.%s" % k_, "Cargo.toml adds the dependency `%s`: code (macros, trait impls) from outside the analysed tree becomes part of the library (UNRECOGNISED)" % k_, "Cargo.toml")
        for pn_, prof_ in (man.get("profile") or {}).items():
            for k_ in (prof_ or {}):
                if k_ not in ("lto", "codegen-units", "opt-level", "debug", "strip", "incremental", "split-debuginfo"):
                    S.bad("S7", "manifest-profile", "Cargo.toml:profile.%s.%s" % (pn_, k_), "Cargo.toml sets profile.%s.%s: the profiles analysed (dev: debug assertions and overflow checks on; release: both off) are not the profiles built" % (pn_, k_), "Cargo.toml")
        n += 1
    S.ok("S7", "scan: %d files under src/ tokenised; %d cfg predicates / debug assertions / const initialisers, all within {test, doc, feature = \"serde\"}, side-effect free, literal" % (nfiles, n))


def s8_config_independence(rep, repo, tag, configs):
    """S7 reads the source for switches; this rule reads the *compiled functions*: every hand-written function is evaluated
    symbolically in each analysed configuration (default, serde, and release = no debug assertions, no overflow checks) and the
    resulting terms (return value and post-state on every path) must be the same.  A value that depends on `debug_assertions`, on
    the serde feature, on the profile — by a cfg, through a std macro, through an effect hidden inside a debug assertion — shows up as
    a difference, however it is spelt."""
    import symex
    from terms import subterms

    def canon_lv(t, names):
        if not isinstance(t, tuple) or not t:
            return t
        if t[0] == "lv" and len(t) == 3:
            return ("lv", t[1], names.setdefault((t[1], t[2]), "v%d" % len(names)))
        return tuple(canon_lv(x, names) if isinstance(x, tuple) else x for x in t)

    def terms_of(F):
        out = {}
        for f in F.fns:
            if f.derived or f.kind == "Closure" or f.path in F.helpers():
                continue
            try:
                r = symex.evaluate(F, f, canon=True)
                names = {}
                out[f.path] = (canon_lv(r["ret"], names), tuple(sorted((k, canon_lv(v, names)) for k, v in r["heap"].items())))
            except symex.Unsupported as e:
                out[f.path] = ("unsupported", str(e)[:80])
        return out
    ref = terms_of(ir.load("default", repo, tag))
    S = Sink(rep)
    for cfg in configs:
        if cfg == "default":
            continue
        try:
            other = terms_of(ir.load(cfg, repo, tag))
        except Exception as e:
            S.bad("S8", "config-unanalysable", cfg, "configuration %s cannot be analysed (%r): no statement about builds of that kind" % (cfg, e))
            continue
        for p in sorted(set(ref) | set(other)):
            if p not in ref or p not in other:
                S.bad("S8", "config-dependent-item", "%s:%s" % (cfg, p), "function %s exists in only one of the configurations default / %s" % (p, cfg))
            elif ref[p][0] == "unsupported" or other[p][0] == "unsupported":
                S.bad("S8", "config-unanalysable-function", "%s:%s" % (cfg, p), "%s cannot be evaluated (%s): nothing is known about its behaviour in %s" % (p, (ref[p] if ref[p][0] == "unsupported" else other[p])[1], cfg))
            elif ref[p] != other[p]:
                S.bad("S8", "config-dependent-behaviour", "%s:%s" % (cfg, p), "%s computes different terms in the configurations default and %s: its behaviour depends on the build" % (p, cfg))
            else:
                S.ok("S8", "%s == default: %s" % (cfg, p))


RULES = [
    ("S1", "no hand-written unsafe block / fn / impl, no foreign code", 200, s1_unsafe),
    ("S2", "no static, no thread_local!, no interior-mutable const, no static reference in MIR", 1, s2_globals),
    ("S3", "every state field is in the owned-plain-data grammar f64|usize|bool|Option<f64>|Box<[f64]>|<crate struct in the grammar>", 89, s3_grammar),
    ("S4", "Clone of every state struct is the builtin derive", 23, s4_clone),
    ("S5", "every callee of every library function is crate-local, a user getter, or in a classified pure/allocating/fmt family; serde runtime only inside derived impls", 60, s5_effects),
    ("S6", "no pointer-to-integer cast in crate MIR", 1, s6_addr),
]


def run(tier, repo=None, tag="repo"):
    rep = Report("C05", tier)
    configs = ["default", "serde", "release"]
    from extract import ExtractError
    for cfg in list(configs):
        try:
            F = ir.load(cfg, repo, tag)
        except ExtractError as e:
            if cfg == "default":
                raise
            configs.remove(cfg)
            rep.notes.append("configuration %s does not build; analysed the others (a serde build failure is reported by C06/C19)" % cfg)
            continue
        S = Sink(rep)
        for rid, text, floor, fn in RULES:
            rep.rule(rid, text, floor * (1 if rid not in ("S1",) else 1))
            fn(F, S)
        if cfg == "default":
            import os
            from extract import REPO
            rep.rule("S7", "conditional compilation only on test / doc / feature = \"serde\" (token-level scan of every file under src/): no other cfg, no debug-only side effect, no build-environment macro, no target-dependent constant, const items spelt with literals", 1)
            s7_cfg(os.path.abspath(repo or REPO), S)
        rep.functions.update(f.path for f in F.fns)
    rep.rule("S8", "configuration independence: every hand-written function evaluates to the same terms in the default, serde and release (no debug assertions / overflow checks) configurations", 300)
    s8_config_independence(rep, repo, tag, configs)
    rep.configs = configs
    # structural floors counted on today's tree
    inds = ir.load("default", repo, tag).indicators()
    r = rep.rule("INV", "indicator inventory (structs implementing Reset)", 22)
    for n in inds:
        r.ok(n)
    # positive controls on fixtures/bad (same rule code)
    for cfg in ("default",):
        B = ir.load(cfg, BAD_FIXTURE, "bad")
        C = Sink(None, "C05")
        for rid, text, floor, fn in RULES:
            fn(B, C)
        rep.control("S1 unsafe block", C.fired("unsafe-block"))
        rep.control("S1 unsafe fn", C.fired("unsafe-fn"))
        rep.control("S1 unsafe impl", C.fired("unsafe-impl"))
        rep.control("S2 static mut", C.fired("static", "CALLS"))
        rep.control("S2 thread_local", C.fired("thread-local") or C.fired("static", "SCRATCH"))
        rep.control("S2 interior-mutable const", C.fired("interior-mutable-const"))
        rep.control("S3 Rc<RefCell> field", C.fired("grammar", "BadShared.scratch"))
        rep.control("S3 Vec field", C.fired("grammar", "BadShared.history"))
        rep.control("S3 raw pointer field", C.fired("grammar", "BadRaw.ptr"))
        rep.control("S3 fn pointer field", C.fired("grammar", "BadRaw.f"))
        rep.control("S4 hand-written Clone", C.fired("clone-handwritten", "BadShared"))
        rep.control("S5 Instant::now", C.fired("callee-forbidden", "Instant"))
        rep.control("S5 RefCell borrow", C.fired("callee-forbidden", "RefCell"))
        rep.control("S5 HashMap", C.fired("callee-forbidden", "HashMap"))
        rep.control("S5 indirect call", C.fired("callee-unknown", "BadRaw"))
        rep.control("S6 address cast", C.fired("address-cast"))
    rep.explanation = ("ownership + effect closure over the whole crate: AST scan for unsafe/static/foreign items, type grammar over every state "
                       "field (transitively), builtin-derive check for Clone, classification of every call site's resolved callee by family, "
                       "cast scan; configurations " + ", ".join(configs))
    rep.assumptions = ["safe-Rust semantics: &mut self gives next() exclusive access to memory uniquely owned by *self",
                       "std functions in the `pure` families are deterministic functions of their arguments",
                       "user getters on the bar type are pure (they take &self)"]
    return rep
