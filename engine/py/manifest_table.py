# Table consumed by manifest_gen.py. claim(id, category, text, level_note, technique, design_ref); NA[id] = reason

claim("C19", "proof",
      "Each bullet of the statement is a trait-bound obligation; 360 obligations (22 indicators x Clone/Debug/Display/Default/Reset/Send/Sync/Unpin/'static, Next<&DataItem>, Next<&W> for minimal bar types, Next<f64> x18, Period x17, outputs, TaError, DataItem, serde impls) are type-checked by rustc in an external witness crate with and without the serde feature. The trait solver decides them for all client programs, which is exactly the property's quantifier.",
      "Trusted: rustc's trait solver; the obligation table in engine/py/witness.py transcribing the statement. Negative control (Rc<()>: Send must be rejected) runs every time.",
      "type checking of a trait-bound witness crate (compile-fail controlled)", "DESIGN.md §4 C19, §2.3")

_PENDING = "claimed in DESIGN.md but its checker is not built yet in this commit; listed here until the check exists (see DESIGN.md §7 build order)"
for _p in ["C02", "C03", "C04", "C05", "C06", "C07", "C08", "C09", "C10", "C11", "C12", "C14", "C15", "C16", "C17", "C18"]:
    NA[_p] = _PENDING
NA["C01"] = "numeric equality (within tau) of incremental window statistics with recomputation over runtime values: needs inductive array invariants plus floating-point error analysis, which no dataflow/typestate/shape analysis in reach delivers; a rule pinning the update expressions would be a frozen source fragment (DESIGN.md §4 C01)"
NA["C13"] = "bounds accumulated floating-point rounding error after up to 2e6 data-dependent updates; no static analysis in reach bounds rounding drift, and the only structural ingredient (all accumulators are f64) is too weak to carry the property (DESIGN.md §4 C13)"
