// C03 (also C14): RateOfChange = 100*(x_t - x_{t-n})/x_{t-n} on every stream of positive (finite) prices.
// Exits 1 on the patched crate, 0 on the original.
use ta::indicators::RateOfChange;
use ta::Next;

fn main() {
    let mut bad = 0;
    // finite positive prices; reference formula evaluated from scratch, condition number c = 1e308/1e306 = 100
    let (p0, p1) = (1.0e306_f64, 1.0e308_f64);
    let mut roc = RateOfChange::new(1).unwrap();
    let first = roc.next(p0);
    let got = roc.next(p1);
    let want = 100.0 * (p1 / p0 - 1.0); // 9900, well inside f64
    println!("ROC(1) on {:e}, {:e}: first {}  second {}  (documented {})", p0, p1, first, got, want);
    if !(got.is_finite() && ((got - want) / want).abs() < 1e-9) {
        println!("VIOLATION C03: output {} differs from the documented formula {}", got, want);
        bad += 1;
    }
    // C14: dimensionless output must not change when every price is multiplied by 2^40
    let base = [3.0e292_f64, 2.0e294, 1.5e294, 1.6e294];
    let k = (2.0_f64).powi(40);
    let mut a = RateOfChange::new(2).unwrap();
    let mut b = RateOfChange::new(2).unwrap();
    for x in base.iter() {
        let (ya, yb) = (a.next(*x), b.next(*x * k));
        if !(yb.is_finite() && (ya == yb || ((ya - yb) / ya).abs() < 1e-12)) {
            println!("VIOLATION C14: ROC({:e}) = {} but ROC(2^40 * it) = {}", x, ya, yb);
            bad += 1;
        }
    }
    std::process::exit(if bad > 0 { 1 } else { 0 });
}
